import Carquet.Impl.Par
/-
C07, second part of the footprint model: the page loads of DICTIONARY-ENCODED column chunks
(`load_dictionary_page_fread` / `_mmap`, the header-window loop `read_page_header_fread`, the
dictionary page found by probing where `data_page_offset` points), the cold-start worker
(`carquet_crc32` at first use: look at the flag, build the table if it is clear, use the table), and
the recorded CRITICAL-SECTION boundaries of a trace.

C code mirrored (src/reader/page_reader.c at /repo HEAD):
  * `file_read_at(file, o, buf, n)`        = `#pragma omp critical(carquet_file_io) { fseek(o); fread(n) }`
  * `read_page_header_fread(reader, o)`    = `file_read_at(o, 256)`, and while the header does not parse and
                                             the window came back full: `file_read_at(o, 512)`, `(o, 1024)`, ...
  * `load_dictionary_page_fread(o)`        = `read_page_header_fread(o)`; `file_read_at(o + h, c)`
  * `load_next_page_fread`                 = [dictionary load if `dictionary_page_offset` is set and no
                                             dictionary yet]; `read_page_header_fread(data_start + cur)`;
                                             [if that header is a DICTIONARY page and cur = 0:
                                             `load_dictionary_page_fread(data_start)`; header again at the
                                             new data start]; `file_read_at(.. + h, c)`
Every stdio access of the fread path is one `file_read_at`.  The header read and the body read are
TWO sections, each starting with its own absolute seek: that is what makes them independent of
whatever happened on the stream in between (`Action.atomicIO`).  The seeded change C07b-2 turns the
body read into `critical { fseek }` + `critical { fread }`: the second section no longer starts
with a seek (`pageLoadFreadSplit`).
-/
namespace Carquet.Impl.Par

/-! ### reads -/

/-- `file_read_at(file, o, buf, n)`: one critical section, absolute seek then read -/
def fileReadAt (f o n : Nat) : Action := .crit [.seek f o, .read f n]

/-- the read windows of `read_page_header_fread`: `k` of them, starting at `w`, doubling -/
def headerWindows : Nat → Nat → List Nat
  | 0, _ => []
  | k + 1, w => w :: headerWindows k (2 * w)

/-- where a page lies: header at `o`, header size `h`, `compressed_page_size` `c`; `k` = number of
EXTRA header read attempts (0 when the header fits the first 256-byte window) -/
structure PageLoc where
  o : Nat
  h : Nat
  c : Nat
  k : Nat := 0
  deriving DecidableEq, Repr, Inhabited

/-- a column chunk as the loader walks it: its dictionary page (if any), whether the dictionary
page is found by probing (no `dictionary_page_offset` in the metadata: one more header read at its
offset before `load_dictionary_page_*` reads it again), and its data pages in order -/
structure ChunkLoc where
  dict : Option PageLoc := none
  probed : Bool := false
  pages : List PageLoc := []
  deriving DecidableEq, Repr, Inhabited

/-- the `(offset, size)` pairs of the header reads of a page -/
def headerReads (p : PageLoc) : List (Nat × Nat) := (headerWindows (p.k + 1) 256).map (fun w => (p.o, w))

/-- the `(offset, size)` pairs `file_read_at` is called with for one page (fread path) -/
def pageReads (p : PageLoc) : List (Nat × Nat) := headerReads p ++ [(p.o + p.h, p.c)]

/-- ... for a whole chunk -/
def chunkReads (c : ChunkLoc) : List (Nat × Nat) :=
  (match c.dict with
   | none => []
   | some d => (if c.probed then headerReads d else []) ++ pageReads d) ++ c.pages.flatMap pageReads

/-- mmap / buffer path: the header is parsed in place (no window loop), the body is read at `o + h` -/
def pageReadsMmap (p : PageLoc) : List (Nat × Nat) := [(p.o, 256), (p.o + p.h, p.c)]

def chunkReadsMmap (c : ChunkLoc) : List (Nat × Nat) :=
  (match c.dict with
   | none => []
   | some d => (if c.probed then [(d.o, 256)] else []) ++ pageReadsMmap d) ++ c.pages.flatMap pageReadsMmap

/-- a worker that performs the given reads through `file_read_at` on stream `f` -/
def readsFread (f : Nat) (rs : List (Nat × Nat)) : List Action := rs.map (fun r => fileReadAt f r.1 r.2)

/-- ... through the mapping / the caller's buffer -/
def readsMmap (rs : List (Nat × Nat)) : List Action := rs.map (fun r => Action.prim (.load r.1 r.2))

/-- what the reads deliver -/
def readsBytes (file : List UInt8) (rs : List (Nat × Nat)) : Priv := rs.map (fun r => Obs.bytes (slice file r.1 r.2))

/-- `read_page_header_fread(reader, o, ...)` that needed `k` extra attempts -/
def headerReadFread (f : Nat) (p : PageLoc) : List Action := readsFread f (headerReads p)

/-- `load_dictionary_page_fread`, and the stdio part of `load_next_page_fread` for one data page:
header read(s), then the body read -/
def pageLoadFreadW (f : Nat) (p : PageLoc) : List Action := readsFread f (pageReads p)

/-- the column reader of a dictionary-encoded chunk, fread path -/
def chunkFreadD (f : Nat) (c : ChunkLoc) : List Action := readsFread f (chunkReads c)

/-- the same chunk through mmap / buffer -/
def chunkMmapD (c : ChunkLoc) : List Action := readsMmap (chunkReadsMmap c)

/-- the seeded change C07b-2 (`load_dictionary_page_fread`): the body read is
`critical { fseek(o + h) }` followed by `critical { fread(c) }` -/
def pageLoadFreadSplit (f : Nat) (p : PageLoc) : List Action :=
  headerReadFread f p ++ [.crit [.seek f (p.o + p.h)], .crit [.read f p.c]]

/-- the column reader with the split dictionary load (data pages unchanged) -/
def chunkFreadDSplit (f : Nat) (c : ChunkLoc) : List Action :=
  (match c.dict with
   | none => []
   | some d => (if c.probed then headerReadFread f d else []) ++ pageLoadFreadSplit f d) ++
  c.pages.flatMap (pageLoadFreadW f)

/-! ### an adaptive chunk reader: every offset comes out of the bytes read before

`parse hdr = some (h, c)`: the header bytes parse to header size `h` and compressed size `c`
(`parquet_parse_page_header`); the next page of the chunk starts at `o + h + c`
(`reader->data_start_offset = dict_offset + header_size + compressed_page_size`,
`reader->current_page += header_size + compressed_page_size`). -/

/-- position in the chunk after the (header, body) pairs in the log: start of the next page and
number of complete pages; `none` if a header in the log does not parse -/
def walkLog (parse : List UInt8 → Option (Nat × Nat)) : Nat → Nat → Priv → Option (Nat × Nat × Option (Nat × Nat))
  | o, n, [] => some (o, n, none)
  | o, n, [.bytes hdr] => (parse hdr).map (fun hc => (o, n, some hc))
  | o, n, .bytes hdr :: .bytes _ :: rest =>
    match parse hdr with
    | some (h, c) => walkLog parse (o + h + c) (n + 1) rest
    | none => none
  | _, _, _ => none

/-- the reader of a chunk of `n` pages (dictionary page included) starting at `o` on stream `f` -/
def chunkProg (f o n : Nat) (parse : List UInt8 → Option (Nat × Nat)) : Prog := fun p =>
  match walkLog parse o 0 p with
  | some (cur, done, none) => if done < n then some (fileReadAt f cur 256) else none
  | some (cur, _, some (h, c)) => some (fileReadAt f (cur + h) c)
  | none => none

/-! ### the cold-start worker (page loads + CRC at first use)

`carquet_crc32` (src/util/crc32.c): `if (!crc32_tables_initialized) crc32_init_tables();` then the
table look-ups.  A worker's program is a list of `file_read_at`s and CRC calls; its control state
is the list of instructions it still has to run: a CRC call turns into the flag check, then — if
the flag was seen clear — the initialiser (program counter `initAt k` = "the next statement of
`crc32_init_tables` is its `k`-th store"), then the table use. -/

inductive Instr where
  /-- `file_read_at(f, o, n)` -/
  | io (f o n : Nat)
  /-- `carquet_crc32(...)`: flag check, conditional initialisation, table use -/
  | crcCall
  /-- inside the initialiser, about to perform its `k`-th action -/
  | initAt (k : Nat)
  /-- the table look-ups of a CRC call whose flag check (and initialisation) is done -/
  | use
  deriving DecidableEq, Repr

/-- state of the cold-start system: the model state and every worker's remaining instructions -/
structure CState where
  st : State
  todo : Worker → List Instr

def setTodo (td : Worker → List Instr) (w : Worker) (v : List Instr) : Worker → List Instr :=
  fun w' => if w' = w then v else td w'

/-- one look at the (flag, table) pair, logged: the flag check and the table use of a CRC call -/
def tableUse : Action := .prim .useTable

/-- what the head instruction does: the action it performs (none: an exhausted initialiser) and
the instructions that replace it.  `flag` is the flag as it is NOW (the check reads it). -/
def Instr.fire (init : List Action) (flag : Bool) : Instr → Option Action × List Instr
  | .io f o n => (some (fileReadAt f o n), [])
  | .crcCall => (some tableUse, if flag then [.use] else [.initAt 0, .use])
  | .initAt k => (init[k]?, if k + 1 < init.length then [.initAt (k + 1)] else [])
  | .use => (some tableUse, [])

/-- worker `w` takes one turn: at most one action of the model; returns the new state and the
scheduled action.  `init` is the initialiser (`crcInitialiser` for the real table). -/
def CState.turn (init : List Action) (cs : CState) (w : Worker) : CState × Option (Worker × Action) :=
  match cs.todo w with
  | [] => (cs, none)
  | i :: rest =>
    match (i.fire init cs.st.sh.flag).1 with
    | some a => ({ st := cs.st.run w a.prims, todo := setTodo cs.todo w ((i.fire init cs.st.sh.flag).2 ++ rest) },
                 some (w, a))
    | none => ({ st := cs.st, todo := setTodo cs.todo w ((i.fire init cs.st.sh.flag).2 ++ rest) }, none)

/-- a schedule of turns; returns the final state and the action-level schedule that was executed -/
def execCold (init : List Action) : List Worker → CState → CState × List (Worker × Action)
  | [], cs => (cs, [])
  | w :: s, cs =>
    ((execCold init s (cs.turn init w).1).1,
     (match (cs.turn init w).2 with | some e => [e] | none => []) ++ (execCold init s (cs.turn init w).1).2)

def Obs.isBytes : Obs → Bool
  | .bytes _ => true
  | .table _ _ => false

/-- what a worker read from the file -/
def bytesOf (p : Priv) : Priv := p.filter Obs.isBytes

/-- the (flag, table) snapshots a worker took, in order -/
def tablesOf (p : Priv) : Priv := p.filter (fun o => !o.isBytes)

/-- the snapshots at odd positions: the table USES of the CRC calls (positions 0, 2, .. are the flag checks) -/
def usesOf : Priv → Priv
  | _ :: u :: rest => u :: usesOf rest
  | _ => []

/-- the result of a worker: the bytes it obtained and the (flag, table) pairs its CRC computations used -/
def coldResult (p : Priv) : Priv × Priv := (bytesOf p, usesOf (tablesOf p))

/-- what the reads of a program deliver -/
def instrBytes (file : List UInt8) : List Instr → Priv
  | [] => []
  | .io _ o n :: r => .bytes (slice file o n) :: instrBytes file r
  | _ :: r => instrBytes file r

/-- the reads of a program as actions -/
def instrIO : List Instr → List Action
  | [] => []
  | .io f o n :: r => fileReadAt f o n :: instrIO r
  | _ :: r => instrIO r

/-- number of CRC calls of a program -/
def instrCalls : List Instr → Nat
  | [] => 0
  | .crcCall :: r => instrCalls r + 1
  | _ :: r => instrCalls r

/-- a program as the caller writes it: reads and CRC calls only -/
def Instr.isUser : Instr → Bool
  | .io _ _ _ => true
  | .crcCall => true
  | _ => false

/-- the batch-reader worker of one column on stream `f`: for every page, header read, body read,
CRC of the body (`verify_checksums`) -/
def coldColumn (f : Nat) (pages : List (Nat × Nat × Nat)) : List Instr :=
  pages.flatMap (fun p => [.io f p.1 256, .io f (p.1 + p.2.1) p.2.2, .crcCall])

def coldInit (file : List UInt8) (ncells : Nat) (progs : List (List Instr)) : CState :=
  { st := initState file ncells, todo := fun w => progs.getD w [] }

/-- the sequential order (`num_threads = 1`): worker 0 takes `fuel` turns, then worker 1, ... (a
finished worker's turn is a no-op, so too much fuel does not matter) -/
def seqTurns (nworkers fuel : Nat) : List Worker :=
  (List.range nworkers).flatMap (fun w => List.replicate fuel w)

/-- an upper bound for the number of turns a worker still needs (`n` = length of the initialiser) -/
def coldFuel (n : Nat) : List Instr → Nat
  | [] => 0
  | .io _ _ _ :: r => coldFuel n r + 1
  | .crcCall :: r => coldFuel n r + (n + 3)
  | .initAt k :: r => coldFuel n r + (n - k + 1)
  | .use :: r => coldFuel n r + 1

/-- actions whose primitives are stdio / mapping accesses only -/
def Prim.isIO : Prim → Bool
  | .seek _ _ => true
  | .read _ _ => true
  | .load _ _ => true
  | _ => false

/-- actions whose primitives are table steps only -/
def Prim.isTable : Prim → Bool
  | .initCell _ _ => true
  | .setFlag => true
  | .useTable => true
  | _ => false

def Action.isIO (a : Action) : Bool := a.prims.all Prim.isIO
def Action.isTable (a : Action) : Bool := a.prims.all Prim.isTable

/-! ### recorded critical sections (harness: interposed `GOMP_critical_name_start/_end`)

Sites 5 (section entered, recorded while the lock is held) and 6 (about to leave, lock still held)
bracket the seek / read events (sites 1, 2) of the thread that holds the lock. -/

/-- the action-level schedule a recorded trace stands for: every section becomes one
`Action.crit`; `none` if an access lies outside every section, two sections overlap, a section is
left by another thread than entered it, or the trace ends inside a section -/
def schedOfTraceFrom : Option (Nat × List Prim) → List Ev → Option (List (Worker × Action))
  | none, [] => some []
  | some _, [] => none
  | cur, e :: es =>
    if e.site = 5 then
      (match cur with
       | none => schedOfTraceFrom (some (e.thread, [])) es
       | some _ => none)
    else if e.site = 6 then
      (match cur with
       | some (t, ps) => if t = e.thread then (schedOfTraceFrom none es).map (fun s => (t, Action.crit ps) :: s) else none
       | none => none)
    else
      match e.prim with
      | some p =>
        (match cur with
         | some (t, ps) => if t = e.thread then schedOfTraceFrom (some (t, ps ++ [p])) es else none
         | none => none)
      | none => schedOfTraceFrom cur es

def schedOfTrace (es : List Ev) : Option (List (Worker × Action)) := schedOfTraceFrom none es

/-- the primitive-level schedule of a trace: its seeks and reads with their threads, in recorded order -/
def primsOfTrace : List Ev → List (Worker × Prim)
  | [] => []
  | e :: es =>
    match e.prim with
    | some p => (e.thread, p) :: primsOfTrace es
    | none => primsOfTrace es

/-- the footprint check the driver runs on a trace with section events: the trace is `flat` of a
schedule of critical sections, and every section is `file_read_at`-shaped -/
def critFootprint (es : List Ev) : Bool :=
  match schedOfTrace es with
  | some s => s.all (fun e => e.2.atomicIO && e.2.prims.length == 2)
  | none => false

/-- one thread's events on a stream have the shape of `readsFread f (chunkReads c)`: per page one or more
header reads at the page offset `o` (window 256, doubled on a retry; 256 again when the dictionary page found
by probing is read a second time by `load_dictionary_page_fread`), then the body read at `o'` with
`o < o' ≤ o + window`.  `hdr = some (o, w)`: inside a page, last header window `w`. -/
def pageShapeFrom : Option (Nat × Nat) → List Ev → Bool
  | hdr, s :: r :: es =>
    s.site == 1 && r.site == 2 &&
    (match hdr with
     | none => r.a == 256 && pageShapeFrom (some (s.a, 256)) es
     | some (o, w) =>
       if s.a == o then (r.a == 2 * w || r.a == 256) && pageShapeFrom (some (o, r.a)) es
       else decide (o < s.a) && decide (s.a ≤ o + w) && pageShapeFrom none es)
  | hdr, [] => hdr.isNone
  | _, [_] => false

def pageShapeD (es : List Ev) : Bool := pageShapeFrom none es

def isSectionEv (e : Ev) : Bool := e.site == 5 || e.site == 6
def ioOrSection (es : List Ev) : List Ev := es.filter (fun e => e.site == 1 || e.site == 2 || e.site == 5 || e.site == 6)

end Carquet.Impl.Par
