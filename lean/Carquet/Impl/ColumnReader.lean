import Carquet.Spec.Cursor
import Carquet.Gen.Cursor
/-
Model of the column reader's consumption state machine:
  src/reader/page_reader.c   carquet_read_next_page (+ the state effects of load_next_page_*)
  src/reader/column_reader.c carquet_column_read_batch, carquet_column_skip
  src/reader/file_reader.c   carquet_reader_get_column, carquet_column_has_next,
                             carquet_column_remaining, carquet_column_reader_free

Fidelity: exact from "a page has been decoded" onwards.  A chunk is given as the list of its
decoded pages (definition levels per row, repetition levels per row, DENSE non-null values);
how a page gets decoded (header, CRC, decompression, encodings) belongs to other components and
is abstracted to "loading page i yields this decoded page, or fails".  `current_page` (a byte
offset in C) is the page index.

The model is the code WITH the repairs F4, F28 and F63 (fixes/F4-….patch, fixes/F28-….patch,
fixes/F63-….patch); the pinned behaviour is kept behind `Fixes` flags (`Fixes.preF4`,
`Fixes.preF28`, `Fixes.preF63`) so that the kernel-checked counterexamples and the harness replays
refer to the same definitions.

F63: a data page whose header says `num_values = 0` is legal.  The repaired loaders return right
after the checksum test without touching the decoded buffers (`installEmpty`), and the "load a new
page if needed" `if` of `carquet_read_next_page` is a `while` (`prepareLoop`): a page without rows
is used up as soon as it is loaded, so the loop steps over it.  Before the repair the empty page
went through the decoding path and `carquet_column_read_batch` left its loop at `values_read == 0`.

Caller buffers are lists of slots (`none` = never written by the call) and every copy is a
`bufWrite` at the offset the C code computes, so "which slot of the caller's array receives which
decoded value" is part of the model.  Page data buffers that BYTE_ARRAY values point into carry an
id; allocation, retirement and `free` are explicit (fields `pageData`, `retired`, `nextBuf`,
`freed`).
-/
namespace Carquet.Impl.ColumnReader
open Carquet.Spec.Cursor (Op)

/-- Which of the proposed repairs are applied.  `Fixes.all` is the repaired code. -/
structure Fixes where
  f4 : Bool    -- dense value array indexed by the non-null count (page_reader.c, column_reader.c)
  f5 : Bool    -- batch reader zero-copy branch only when the page is exactly rows_to_read rows
  f28 : Bool   -- replaced page data buffers retired until the next call instead of freed
  f63 : Bool   -- a data page without values is stepped over (page_reader.c: loaders + `while`)
deriving DecidableEq, Repr

def Fixes.all : Fixes := ⟨true, true, true, true⟩
def Fixes.preF4 : Fixes := ⟨false, true, true, true⟩
def Fixes.preF5 : Fixes := ⟨true, false, true, true⟩
def Fixes.preF28 : Fixes := ⟨true, true, false, true⟩
def Fixes.preF63 : Fixes := ⟨true, true, true, false⟩
def Fixes.pinned : Fixes := ⟨false, false, false, false⟩

inductive Err where
  | load   -- load_next_page returned a status ≠ OK (abstracted: CRC mismatch, decode error, …)
  | ub     -- the C code would execute undefined behaviour (memcpy with a negative count)
deriving DecidableEq, Repr

/-- A decoded data page: `decoded_def_levels`, `decoded_rep_levels` (one per row) and
`decoded_values` (only the non-null values, packed). `page_num_values = defs.length`. -/
structure Page (α : Type) where
  defs : List Nat
  reps : List Nat
  vals : List α
deriving DecidableEq, Repr

/-- What `carquet_reader_get_column` finds for one column chunk. -/
structure Chunk (α : Type) where
  pages : List (Option (Page α))   -- in file order; `none`: loading this page fails
  numValues : Int                   -- col_meta->num_values
  maxDef : Nat                      -- schema->max_def_levels[column]
  view : Bool      -- loads take the zero-copy branch of load_next_page_mmap (decoded_ownership = VIEW)
  retains : Bool   -- loads keep the page data in page_data_for_values (BYTE_ARRAY PLAIN, not plain mmap)
deriving DecidableEq, Repr

/-- `struct carquet_column_reader`, the fields that take part in consumption. -/
structure Reader (α : Type) where
  chunk : Chunk α
  valuesRemaining : Int
  currentPage : Nat
  pageLoaded : Bool
  pageNumValues : Nat
  pageValuesRead : Nat
  pageNonNullRead : Nat          -- added by F4: non-null values consumed from the current page
  decodedDefs : List Nat
  decodedReps : List Nat
  decodedVals : List α
  ownershipView : Bool           -- decoded_ownership == CARQUET_DATA_VIEW
  pageData : Option Nat          -- page_data_for_values (buffer id)
  retired : List Nat             -- added by F28: replaced page data buffers, still allocated
  nextBuf : Nat                  -- page data buffers allocated so far (ids 0 … nextBuf-1)
  freed : List Nat               -- log of free() on page data buffers, in order
deriving DecidableEq, Repr

/-- `carquet_reader_get_column` (calloc'ed struct, then the assignments at the end). -/
def getColumn (c : Chunk α) : Reader α :=
  { chunk := c, valuesRemaining := c.numValues, currentPage := 0, pageLoaded := false,
    pageNumValues := 0, pageValuesRead := 0, pageNonNullRead := 0,
    decodedDefs := [], decodedReps := [], decodedVals := [], ownershipView := false,
    pageData := none, retired := [], nextBuf := 0, freed := [] }

/-- `carquet_column_has_next` -/
def hasNext (r : Reader α) : Bool := decide (r.valuesRemaining > 0)

/-- `carquet_column_remaining` -/
def remaining (r : Reader α) : Int := r.valuesRemaining

/-- Page data buffers currently allocated (not yet passed to `free`). -/
def liveBufs (r : Reader α) : List Nat := r.pageData.toList ++ r.retired

/-- `carquet_column_reader_free`, page data part: `free(page_data_for_values)` and (F28) every
retired buffer. Returns the final `free` log. -/
def freeReader (r : Reader α) : List Nat := r.freed ++ r.pageData.toList ++ r.retired

/-! ### page load -/

/-- Replacing `page_data_for_values` when a new page has been read (both `load_next_page_*`):
pinned code `free(reader->page_data_for_values)`, repaired code retires the old buffer. -/
def swapPageData (fx : Fixes) (r : Reader α) : Reader α :=
  if r.chunk.retains then
    if fx.f28 then
      { r with retired := r.retired ++ r.pageData.toList, pageData := some r.nextBuf, nextBuf := r.nextBuf + 1 }
    else
      { r with freed := r.freed ++ r.pageData.toList, pageData := some r.nextBuf, nextBuf := r.nextBuf + 1 }
  else r

/-- State after a successful `load_next_page` of decoded page `p`. -/
def installPage (fx : Fixes) (r : Reader α) (p : Page α) : Reader α :=
  { swapPageData fx r with
    pageLoaded := true, pageNumValues := p.defs.length, pageValuesRead := 0,
    pageNonNullRead := 0,
    decodedDefs := p.defs, decodedReps := p.reps, decodedVals := p.vals,
    ownershipView := r.chunk.view }

/-- State after `load_next_page` has met a data page with `num_values == 0` (F63): the early return
of both loaders plus `page_non_null_read = 0` of `carquet_read_next_page`.  The decoded buffers, the
ownership flag and `page_data_for_values` keep what they hold. -/
def installEmpty (r : Reader α) : Reader α :=
  { r with pageLoaded := true, pageNumValues := 0, pageValuesRead := 0, pageNonNullRead := 0 }

/-- `load_next_page`: the page at `current_page`, or failure.  A page whose header announces more
values than the chunk has left is refused (`num_values > reader->values_remaining`, both load paths).
A page without values is not decoded (F63; a loaded page has as many rows as its header says). -/
def loadNextPage (fx : Fixes) (r : Reader α) : Except Err (Reader α) :=
  match r.chunk.pages[r.currentPage]? with
  | some (some p) =>
    if (p.defs.length : Int) > r.valuesRemaining then .error .load
    else if fx.f63 = true ∧ p.defs.length = 0 then .ok (installEmpty r)
    else .ok (installPage fx r p)
  | _ => .error .load

/-- `if (reader->page_loaded) { current_page += header + compressed size; page_loaded = false; }` -/
def advance (r : Reader α) : Reader α :=
  if r.pageLoaded then { r with currentPage := r.currentPage + 1, pageLoaded := false } else r

/-- `!reader->page_loaded || reader->page_values_read >= reader->page_num_values` -/
def needLoad (r : Reader α) : Bool := !r.pageLoaded || decide (r.pageValuesRead ≥ r.pageNumValues)

/-- `while (!page_loaded || page_values_read >= page_num_values) { advance; load_next_page; }`
(F63; the pinned code has `if` for `while`: one round).  Every round that continues has loaded the
page at index `current_page` and the next round looks one index further, so the rounds are bounded
by the number of pages (`Proofs.Cursor.prepareLoop_fuel`); running out of fuel is reported as a
failing load.  On failure the advance (and `page_loaded = false`) has already happened. -/
def prepareLoop (fx : Fixes) : Nat → Reader α → Reader α × Option Err
  | 0, r => (r, some .load)
  | fuel + 1, r =>
    if needLoad r then
      match loadNextPage fx (advance r) with
      | .ok r' => if fx.f63 then prepareLoop fx fuel r' else (r', none)
      | .error e => (advance r, some e)
    else (r, none)

/-- First half of `carquet_read_next_page`: make sure a page with unread rows is loaded. -/
def preparePage (fx : Fixes) (r : Reader α) : Reader α × Option Err :=
  prepareLoop fx (r.chunk.pages.length + 1) r

/-! ### copying out of the decoded buffers -/

/-- `(int32_t)max_values` -/
def toInt32 (x : Int) : Int := (x + 2147483648) % 4294967296 - 2147483648

/-- `available`, `to_copy` -/
def available (r : Reader α) : Int := (r.pageNumValues : Int) - (r.pageValuesRead : Int)
def toCopyOf (r : Reader α) (maxValues : Int) : Int :=
  if toInt32 maxValues > available r then available r else toInt32 maxValues

/-- `memcpy(dst, src + off, n)` seen from the destination: slot `i` receives `src[off+i]`, or
whatever lies behind the initialised part of `src` (`none`). -/
def srcSlice (xs : List β) (off n : Nat) : List (Option β) :=
  ((xs.drop off).take n).map some ++ List.replicate (n - ((xs.drop off).take n).length) none

/-- Number of rows among `defs[off .. off+n)` that carry a value (the loop added by F4; without
definition levels every row does). -/
def nonNullIn (maxDef : Nat) (defs : List Nat) (off n : Nat) : Nat :=
  if maxDef > 0 then ((defs.drop off).take n).countP (· == maxDef) else n

/-- What one `carquet_read_next_page` call copied. -/
structure PageCopy (α : Type) where
  rows : Nat                     -- *values_read
  nonNull : Nat                  -- *non_null_read (F4); pinned code: = rows
  defs : List (Option Nat)
  reps : List (Option Nat)
  vals : List (Option α)
  buf : Option Nat               -- page data buffer BYTE_ARRAY values of this copy point into
deriving DecidableEq, Repr

/-- Number of values copied for `n` rows: repaired code copies the non-null ones. -/
def copyCount (fx : Fixes) (r : Reader α) (n : Nat) : Nat :=
  if fx.f4 then nonNullIn r.chunk.maxDef r.decodedDefs r.pageValuesRead n else n

/-- Index into `decoded_values` the copy starts at: repaired code uses the non-null count,
pinned code the row count. -/
def srcOffset (fx : Fixes) (r : Reader α) : Nat :=
  if fx.f4 then r.pageNonNullRead else r.pageValuesRead

/-- Second half of `carquet_read_next_page` for `to_copy = n`: the three memcpy's. -/
def pageCopy (fx : Fixes) (r : Reader α) (n : Nat) : PageCopy α :=
  { rows := n, nonNull := copyCount fx r n,
    defs := srcSlice r.decodedDefs r.pageValuesRead n,
    reps := srcSlice r.decodedReps r.pageValuesRead n,
    vals := srcSlice r.decodedVals (srcOffset fx r) (copyCount fx r n),
    buf := if r.chunk.retains then r.pageData else none }

/-- … and the state update. -/
def consume (fx : Fixes) (r : Reader α) (n : Nat) : Reader α :=
  { r with pageValuesRead := r.pageValuesRead + n,
           pageNonNullRead := r.pageNonNullRead + copyCount fx r n,
           valuesRemaining := r.valuesRemaining - n }

/-- `carquet_read_next_page(reader, values, max_values, def, rep, &values_read, &non_null_read)` -/
def readNextPage (fx : Fixes) (r : Reader α) (maxValues : Int) : Reader α × Except Err (PageCopy α) :=
  match preparePage fx r with
  | (r1, some e) => (r1, .error e)
  | (r1, none) =>
    if toCopyOf r1 maxValues < 0 then (r1, .error .ub)
    else (consume fx r1 (toCopyOf r1 maxValues).toNat, .ok (pageCopy fx r1 (toCopyOf r1 maxValues).toNat))

/-! ### carquet_column_read_batch -/

/-- `memcpy` into a caller buffer at slot `off`. -/
def bufWrite (b : List (Option β)) (off : Nat) (xs : List (Option β)) : List (Option β) :=
  b.take off ++ xs ++ b.drop (off + xs.length)

/-- Local variables of the `while` loop plus the caller's three arrays. -/
structure LoopSt (α : Type) where
  totalRead : Nat
  totalNonNull : Nat                 -- added by F4
  defs : List (Option Nat)           -- def_levels[0 .. max_values), `[]` if the caller passed NULL
  reps : List (Option Nat)
  vals : List (Option α)             -- values[0 .. max_values)
  segs : List (Option Nat × Nat)     -- ghost: per copy, (page data buffer, number of values)
  rowDefs : List (Option Nat)        -- ghost: definition levels of the rows delivered so far
deriving DecidableEq, Repr

/-- Result of a `carquet_column_read_batch` call: return value and the caller's arrays. -/
structure ReadResult (α : Type) where
  count : Int
  defs : List (Option Nat)
  reps : List (Option Nat)
  vals : List (Option α)
  segs : List (Option Nat × Nat)
  rowDefs : List (Option Nat)        -- ghost (also there when the caller passed def_levels = NULL)
deriving DecidableEq, Repr

def LoopSt.result (st : LoopSt α) (count : Int) : ReadResult α :=
  ⟨count, st.defs, st.reps, st.vals, st.segs, st.rowDefs⟩

/-- `value_ptr = values + … * value_size`: repaired code advances by the non-null values copied
so far (the caller's array is dense, like the writer's input), pinned code by rows. -/
def dstOffset (fx : Fixes) (st : LoopSt α) : Nat := if fx.f4 then st.totalNonNull else st.totalRead

/-- Loop body after a successful `carquet_read_next_page`. -/
def LoopSt.push (fx : Fixes) (wd wr : Bool) (st : LoopSt α) (c : PageCopy α) : LoopSt α :=
  { totalRead := st.totalRead + c.rows, totalNonNull := st.totalNonNull + c.nonNull,
    defs := if wd then bufWrite st.defs st.totalRead c.defs else st.defs,
    reps := if wr then bufWrite st.reps st.totalRead c.reps else st.reps,
    vals := bufWrite st.vals (dstOffset fx st) c.vals,
    segs := st.segs ++ [(c.buf, c.nonNull)],
    rowDefs := st.rowDefs ++ c.defs }

/-- `while (total_read < max_values && reader->values_remaining > 0) { … }` with
`max_values = k`.  Every iteration that continues adds at least one row, so `k - total_read + 1`
fuel is enough (`Proofs.Cursor.readLoop_fuel`); running out of fuel behaves like the loop exit. -/
def readLoop (fx : Fixes) (wd wr : Bool) (k : Nat) : Nat → Reader α → LoopSt α → Reader α × ReadResult α
  | 0, r, st => (r, st.result st.totalRead)
  | fuel + 1, r, st =>
    if st.totalRead < k ∧ r.valuesRemaining > 0 then
      match readNextPage fx r ((k : Int) - (st.totalRead : Int)) with
      | (r', .error _) => if st.totalRead > 0 then (r', st.result st.totalRead) else (r', st.result (-1))
      | (r', .ok c) =>
        if c.rows = 0 then (r', st.result st.totalRead)
        else readLoop fx wd wr k fuel r' (st.push fx wd wr c)
    else (r, st.result st.totalRead)

/-- Entry of every call on the reader (F28): buffers retired by the previous call are released. -/
def releaseRetired (fx : Fixes) (r : Reader α) : Reader α :=
  if fx.f28 then { r with freed := r.freed ++ r.retired, retired := [] } else r

def LoopSt.init (wd wr : Bool) (k : Nat) : LoopSt α :=
  { totalRead := 0, totalNonNull := 0,
    defs := if wd then List.replicate k none else [],
    reps := if wr then List.replicate k none else [],
    vals := List.replicate k none, segs := [], rowDefs := [] }

/-- `carquet_column_read_batch(reader, values, k, def_levels, rep_levels)`;
`wd`/`wr`: the caller passed a non-NULL `def_levels` / `rep_levels`. -/
def readBatch (fx : Fixes) (r : Reader α) (k : Int) (wd wr : Bool) : Reader α × ReadResult α :=
  if k < 0 then (releaseRetired fx r, ⟨-1, [], [], [], [], []⟩)
  else if k = 0 then
    if (releaseRetired fx r).valuesRemaining > 0 ∧ (releaseRetired fx r).pageLoaded = false then
      ((readNextPage fx (releaseRetired fx r) 0).1, ⟨0, [], [], [], [], []⟩)
    else (releaseRetired fx r, ⟨0, [], [], [], [], []⟩)
  else if (releaseRetired fx r).valuesRemaining ≤ 0 then
    (releaseRetired fx r, (LoopSt.init wd wr k.toNat).result 0)
  else readLoop fx wd wr k.toNat (k.toNat + 1) (releaseRetired fx r) (LoopSt.init wd wr k.toNat)

/-! ### carquet_column_skip -/

/-- `while (total_skipped < num_values && reader->values_remaining > 0)`: read and discard in
chunks of `chunk_size` (1024, re-extracted into `Gen.Cursor.skipChunkSize`). -/
def skipLoop (fx : Fixes) (n : Nat) : Nat → Reader α → Nat → Reader α × Int
  | 0, r, total => (r, total)
  | fuel + 1, r, total =>
    if total < n ∧ r.valuesRemaining > 0 then
      match readBatch fx r (min (n - total) Gen.Cursor.skipChunkSize : Nat) false false with
      | (r', res) =>
        if res.count ≤ 0 then (r', total)
        else skipLoop fx n fuel r' (total + res.count.toNat)
    else (r, total)

/-- `carquet_column_skip(reader, num_values)` (allocation failure of the temporary is not modelled) -/
def skip (fx : Fixes) (r : Reader α) (n : Int) : Reader α × Int :=
  if n ≤ 0 ∨ r.valuesRemaining ≤ 0 then (r, 0)
  else skipLoop fx n.toNat (n.toNat + 1) r 0

/-! ### histories -/

/-- What the caller can see after an operation.  For a read: the return value `n`, the first `n`
slots of the level arrays and the first `m` slots of the value array, where `m` is the number of
those `n` definition levels equal to the maximum (this is how a caller of the dense API finds its
values; it is also what the harness prints). -/
inductive Out (α : Type) where
  | read (n : Int) (defs reps : List (Option Nat)) (vals : List (Option α))
  | skip (n : Int)
  | hasNext (b : Bool)
  | remaining (n : Int)
  | recreated
deriving DecidableEq, Repr

def observe (maxDef : Nat) (res : ReadResult α) : Out α :=
  .read res.count (res.defs.take res.count.toNat) (res.reps.take res.count.toNat)
    (res.vals.take ((res.defs.take res.count.toNat).countP (· == some maxDef)))

/-- One API call. `recreate` = `carquet_column_reader_free` + `carquet_reader_get_column`. -/
def step (fx : Fixes) (r : Reader α) : Op → Reader α × Out α
  | .read k => match readBatch fx r k true true with
               | (r', res) => (r', observe r.chunk.maxDef res)
  | .skip k => match skip fx r k with
               | (r', n) => (r', .skip n)
  | .hasNext => (r, .hasNext (hasNext r))
  | .remaining => (r, .remaining (remaining r))
  | .recreate => (getColumn r.chunk, .recreated)

/-- Outputs of a history started in state `r`. -/
def outs (fx : Fixes) : Reader α → List Op → List (Out α)
  | _, [] => []
  | r, op :: ops => (step fx r op).2 :: outs fx (step fx r op).1 ops

/-- State after a history started in state `r`. -/
def final (fx : Fixes) : Reader α → List Op → Reader α
  | r, [] => r
  | r, op :: ops => final fx (step fx r op).1 ops

/-- A history on a freshly created column reader: final state and outputs. -/
def run (fx : Fixes) (c : Chunk α) (ops : List Op) : Reader α × List (Out α) :=
  (final fx (getColumn c) ops, outs fx (getColumn c) ops)

/-- The pinned (pre-fix) behaviour, by name. -/
abbrev readBatchPreFix (r : Reader α) (k : Int) (wd wr : Bool) := readBatch Fixes.pinned r k wd wr
abbrev runPreFix (c : Chunk α) (ops : List Op) := run Fixes.pinned c ops

end Carquet.Impl.ColumnReader
