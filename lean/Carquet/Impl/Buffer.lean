import Carquet.Gen.AllocConstants
/-
Impl model of `carquet_buffer_t` (src/core/buffer.c), mirrored function by function, with an
explicit allocator oracle threaded through: every call the C code makes to `realloc` consumes one
entry of the oracle; `true` = the request is granted, `false` = it returns NULL.  An exhausted
oracle grants everything (so `[]` is the fault-free allocator).

Fidelity: exact (contents, size, capacity, ownership flag, status class, number of requests).
Assumption: sizes stay below 2^63, so that `next_power_of_two` and `size + n` do not wrap in
`size_t` (the model uses unbounded `Nat`).
-/
namespace Carquet.Impl.Alloc

/-- Allocator oracle: the k-th allocation request succeeds iff the k-th entry is `true`;
requests beyond the end of the list succeed. -/
abbrev Oracle := List Bool

/-- Answer to the next request. -/
def Oracle.grant : Oracle → Bool
  | [] => true
  | b :: _ => b

/-- The oracle after one request. -/
def Oracle.rest : Oracle → Oracle
  | [] => []
  | _ :: r => r

/-- The oracle in which exactly the k-th request (1-based) fails. `k = 0`: nothing fails. -/
def oneFail : Nat → Oracle
  | 0 => []
  | 1 => [false]
  | k + 2 => true :: oneFail (k + 1)

/-- The oracle in which exactly the requests whose 1-based index is in `idx` fail, `n` entries long. -/
def failSet (idx : List Nat) (n : Nat) : Oracle :=
  (List.range n).map (fun i => !(idx.contains (i + 1)))

/-- Status classes of `carquet_status_t` that matter here. -/
inductive Status where
  | ok
  | oom        -- CARQUET_ERROR_OUT_OF_MEMORY
  | other      -- any other error code
deriving DecidableEq, Repr, Inhabited

namespace Buffer

/-- `carquet_buffer_t`: `data` holds the `size` valid bytes; `hasData` says whether the data
pointer is non-NULL (it matters for the non-owning growth test). -/
structure Buf where
  data : List UInt8
  capacity : Nat
  owns : Bool
  hasData : Bool
deriving DecidableEq, Repr

def Buf.size (b : Buf) : Nat := b.data.length

/-- carquet_buffer_init -/
def init : Buf := ⟨[], 0, true, false⟩

/-- carquet_buffer_init_wrap(buf, data, size); `nonNull = false` models `data == NULL, size == 0`. -/
def initWrap (bytes : List UInt8) (nonNull : Bool) : Buf := ⟨bytes, bytes.length, false, nonNull⟩

def orShift (x k : Nat) : Nat := x ||| (x >>> k)

/-- the bit smearing of next_power_of_two (64-bit `size_t`) -/
def smear (x : Nat) : Nat :=
  orShift (orShift (orShift (orShift (orShift (orShift x 1) 2) 4) 8) 16) 32

/-- next_power_of_two -/
def nextPow2 (n : Nat) : Nat := if n = 0 then 1 else smear (n - 1) + 1

/-- the capacity ensure_capacity asks for -/
def newCapacity (needed : Nat) : Nat :=
  if nextPow2 needed < Gen.bufferDefaultCapacity then Gen.bufferDefaultCapacity else nextPow2 needed

/-- ensure_capacity -/
def ensureCapacity (b : Buf) (needed : Nat) (o : Oracle) : Status × Buf × Oracle :=
  if needed ≤ b.capacity then (.ok, b, o)
  else if !b.owns && b.hasData then (.oom, b, o)
  else if o.grant then
    (.ok, { b with capacity := newCapacity needed, owns := true, hasData := true }, o.rest)
  else (.oom, b, o.rest)

/-- carquet_buffer_reserve -/
def reserve (b : Buf) (capacity : Nat) (o : Oracle) : Status × Buf × Oracle :=
  ensureCapacity b capacity o

/-- the tail shared by append / append_fill / advance once the capacity is there -/
def pushBytes (r : Status × Buf × Oracle) (bytes : List UInt8) : Status × Buf × Oracle :=
  match r with
  | (.ok, b, o) => (.ok, { b with data := b.data ++ bytes }, o)
  | (s, b, o) => (s, b, o)

/-- carquet_buffer_append (also append_byte, append_u16/u32/u64/f32/f64_le, append_fill: they differ
only in where the bytes come from) -/
def append (b : Buf) (bytes : List UInt8) (o : Oracle) : Status × Buf × Oracle :=
  if bytes.length = 0 then (.ok, b, o)
  else pushBytes (ensureCapacity b (b.size + bytes.length) o) bytes

/-- carquet_buffer_advance: the region is returned uninitialised and the caller fills it with
`fill`; the returned status is `.oom` where the C function returns NULL (also for a zero size). -/
def advance (b : Buf) (fill : List UInt8) (o : Oracle) : Status × Buf × Oracle :=
  if fill.length = 0 then (.oom, b, o)
  else pushBytes (ensureCapacity b (b.size + fill.length) o) fill

/-- carquet_buffer_resize: zero-fills when growing, truncates when shrinking -/
def resize (b : Buf) (size : Nat) (o : Oracle) : Status × Buf × Oracle :=
  match ensureCapacity b size o with
  | (.ok, b', o') => (.ok, { b' with data := (b'.data ++ List.replicate (size - b'.size) 0).take size }, o')
  | (s, b', o') => (s, b', o')

/-- carquet_buffer_clear -/
def clear (b : Buf) : Buf := { b with data := [] }

/-- carquet_buffer_shrink_to_fit (precondition of the C function: `owns_data`).  A failing
shrinking realloc is tolerated: the larger block is kept and OK is returned. -/
def shrinkToFit (b : Buf) (o : Oracle) : Status × Buf × Oracle :=
  if b.size = 0 then (.ok, { b with capacity := 0, hasData := false }, o)
  else if b.size < b.capacity then
    (if o.grant then (.ok, { b with capacity := b.size }, o.rest) else (.ok, b, o.rest))
  else (.ok, b, o)

/-- carquet_buffer_destroy -/
def destroy (_ : Buf) : Buf := init

/-- the representation invariant: `size <= capacity` -/
def Inv (b : Buf) : Prop := b.size ≤ b.capacity

instance (b : Buf) : Decidable (Inv b) := by unfold Inv; infer_instance

/-- Operations as data, for sequences driven by the harness. -/
inductive Op where
  | reserve (n : Nat)
  | append (bytes : List UInt8)
  | advance (fill : List UInt8)
  | resize (n : Nat)
  | clear
  | shrink
deriving Repr

/-- status code printed by the harness: 0 OK, 1 error -/
def code (r : Status × Buf × Oracle) : Nat × Buf × Oracle := (if r.1 = .ok then 0 else 1, r.2.1, r.2.2)

/-- one operation; status code 2 = not executed (shrink_to_fit on a non-owning buffer is not a legal call) -/
def step (b : Buf) (op : Op) (o : Oracle) : Nat × Buf × Oracle :=
  match op with
  | .reserve n => code (reserve b n o)
  | .append bytes => code (append b bytes o)
  | .advance fill => code (advance b fill o)
  | .resize n => code (resize b n o)
  | .clear => (0, clear b, o)
  | .shrink => if b.owns then code (shrinkToFit b o) else (2, b, o)

def run : List Op → Buf → Oracle → List Nat × Buf × Oracle
  | [], b, o => ([], b, o)
  | op :: ops, b, o =>
    match step b op o with
    | (s, b', o') =>
      match run ops b' o' with
      | (ss, b'', o'') => (s :: ss, b'', o'')

end Buffer
end Carquet.Impl.Alloc
