import Carquet.Impl.SimdBlocked
import Carquet.Spec.Kernels
/-
Models of the x86 kernels in `src/simd/x86/{sse,avx2,avx512}_ops.c` whose block step is more
than a plain element-wise map, written with a small semantics of the intrinsics they use.

A vector register is a list of lanes, lane 0 = lowest address (`List (BitVec w)` for 16/32/64-bit
lanes, `List UInt8` for byte lanes); loads and stores of `W` consecutive elements are the block
lists handed over by the skeletons of `Impl/SimdBlocked.lean`.  Each intrinsic is defined from
Intel's pseudo-code for the lane width the kernel uses it at; the definitions are tied to the
hardware only through the correspondence run (every kernel is executed on this host).
Fidelity: exact for the block steps modelled here (same sequence of intrinsics, same constants);
structural for the loop skeleton.  A comment above each def names the C function it mirrors.
-/
namespace Carquet.Impl.Simd
open Carquet

/-! ## intrinsics on 16/32/64-bit lanes -/

/-- `_mm_add_epi32` / `_mm256_add_epi64` / …: lane-wise wrapping addition -/
def addLanes {w : Nat} (a b : List (BitVec w)) : List (BitVec w) := List.zipWith (· + ·) a b

/-- `_mm_set1_epi32(x)` and friends: `n` lanes holding `x` -/
def set1 {α : Type} (n : Nat) (x : α) : List α := List.replicate n x

/-- `_mm_slli_si128(v, k * lanebytes)` on one 128-bit register: lanes move up by `k`, zero fill -/
def slliSi128 {w : Nat} (k : Nat) (v : List (BitVec w)) : List (BitVec w) :=
  (List.replicate k 0#w ++ v).take v.length

/-- `_mm_srli_si128(v, k * lanebytes)`: lanes move down by `k`, zero fill -/
def srliSi128 {w : Nat} (k : Nat) (v : List (BitVec w)) : List (BitVec w) :=
  v.drop k ++ List.replicate (min k v.length) 0#w

/-- `_mm256_slli_si256(v, imm)`: the byte shift is applied to each 128-bit half separately;
`h` = lanes per half -/
def slliSi256 {w : Nat} (h k : Nat) (v : List (BitVec w)) : List (BitVec w) :=
  slliSi128 k (v.take h) ++ slliSi128 k (v.drop h)

/-- `_mm_extract_epi32(v, i)` / reading lane `i` of a stored register -/
def lane {w : Nat} (v : List (BitVec w)) (i : Nat) : BitVec w := v.getD i 0#w

/-- `_mm256_extracti128_si256(v, 0 / 1)`; `h` = lanes per half -/
def extractLo {α : Type} (h : Nat) (v : List α) : List α := v.take h
def extractHi {α : Type} (h : Nat) (v : List α) : List α := v.drop h
/-- `_mm256_inserti128_si256(v, x, 1)` -/
def insertHi {α : Type} (h : Nat) (v x : List α) : List α := v.take h ++ x

/-- bit `j` of an AVX-512 mask constant, for lanes `0..n-1` -/
def maskBits (m : Nat) : Nat → List Bool
  | 0 => []
  | n + 1 => m.testBit 0 :: maskBits (m / 2) n

/-- `_mm512_maskz_alignr_epi32/64(mask, a, b, imm)`: lanes `imm…` of the concatenation `b` (low)
`a` (high), lanes whose mask bit is clear are zeroed -/
def maskzAlignr {w : Nat} (mask : Nat) (a b : List (BitVec w)) (imm : Nat) : List (BitVec w) :=
  List.zipWith (fun (m : Bool) (x : BitVec w) => if m then x else 0#w)
    (maskBits mask a.length) (((b ++ a).drop imm).take a.length)

/-! ## prefix sums -/

/-- the scalar loop body `sum += values[i]; values[i] = sum;` -/
def psStep {w : Nat} (sum x : BitVec w) : BitVec w × BitVec w := (sum + x, sum + x)

/-- body of the vector loop of `carquet_sse_prefix_sum_i32` (4 lanes) -/
def ssePrefixSumI32Blk (sum : BitVec 32) (v0 : List (BitVec 32)) : List (BitVec 32) × BitVec 32 :=
  let v1 := addLanes v0 (slliSi128 1 v0)        -- _mm_slli_si128(v, 4)
  let v2 := addLanes v1 (slliSi128 2 v1)        -- _mm_slli_si128(v, 8)
  let v3 := addLanes v2 (set1 4 sum)
  (v3, lane v3 3)                                -- _mm_extract_epi32(v, 3)

/-- `carquet_sse_prefix_sum_i32` -/
def ssePrefixSumI32 (init : BitVec 32) (vals : List (BitVec 32)) : List (BitVec 32) :=
  (blockedScan 4 ssePrefixSumI32Blk psStep init vals).1

/-- body of the vector loop of `carquet_sse_prefix_sum_i64` (2 lanes) -/
def ssePrefixSumI64Blk (sum : BitVec 64) (v0 : List (BitVec 64)) : List (BitVec 64) × BitVec 64 :=
  let v1 := addLanes v0 (slliSi128 1 v0)        -- _mm_slli_si128(v, 8)
  let v2 := addLanes v1 (set1 2 sum)
  (v2, lane v2 1)                                -- result[1]

/-- `carquet_sse_prefix_sum_i64` -/
def ssePrefixSumI64 (init : BitVec 64) (vals : List (BitVec 64)) : List (BitVec 64) :=
  (blockedScan 2 ssePrefixSumI64Blk psStep init vals).1

/-- body of the vector loop of `carquet_avx2_prefix_sum_i32` (8 lanes, two 128-bit halves) -/
def avx2PrefixSumI32Blk (sum : BitVec 32) (v0 : List (BitVec 32)) : List (BitVec 32) × BitVec 32 :=
  let v1 := addLanes v0 (slliSi256 4 1 v0)      -- _mm256_slli_si256(v, 4): per half
  let v2 := addLanes v1 (slliSi256 4 2 v1)      -- _mm256_slli_si256(v, 8)
  let lo := extractLo 4 v2
  let hi := addLanes (extractHi 4 v2) (set1 4 (lane lo 3))   -- cross-lane fix-up
  let v3 := insertHi 4 v2 hi
  let v4 := addLanes v3 (set1 8 sum)
  (v4, lane v4 7)                                -- _mm256_extract_epi32(v, 7)

/-- `carquet_avx2_prefix_sum_i32` -/
def avx2PrefixSumI32 (init : BitVec 32) (vals : List (BitVec 32)) : List (BitVec 32) :=
  (blockedScan 8 avx2PrefixSumI32Blk psStep init vals).1

/-- body of the vector loop of `carquet_avx2_prefix_sum_i64` (4 lanes) -/
def avx2PrefixSumI64Blk (sum : BitVec 64) (v0 : List (BitVec 64)) : List (BitVec 64) × BitVec 64 :=
  let v1 := addLanes v0 (slliSi256 2 1 v0)      -- _mm256_slli_si256(v, 8)
  let lo := extractLo 2 v1
  let hi := addLanes (extractHi 2 v1) (set1 2 (lane (srliSi128 1 lo) 0))  -- _mm_srli_si128(lo, 8), low qword
  let v2 := insertHi 2 v1 hi
  let v3 := addLanes v2 (set1 4 sum)
  (v3, lane v3 3)                                -- result[3]

/-- `carquet_avx2_prefix_sum_i64` -/
def avx2PrefixSumI64 (init : BitVec 64) (vals : List (BitVec 64)) : List (BitVec 64) :=
  (blockedScan 4 avx2PrefixSumI64Blk psStep init vals).1

/-- body of the vector loop of `carquet_avx512_prefix_sum_i32` (16 lanes, `alignr` ladder) -/
def avx512PrefixSumI32Blk (sum : BitVec 32) (v0 : List (BitVec 32)) : List (BitVec 32) × BitVec 32 :=
  let z := set1 16 0#32
  let v1 := addLanes v0 (maskzAlignr 0xFFFE v0 z 15)
  let v2 := addLanes v1 (maskzAlignr 0xFFFC v1 z 14)
  let v3 := addLanes v2 (maskzAlignr 0xFFF0 v2 z 12)
  let v4 := addLanes v3 (maskzAlignr 0xFF00 v3 z 8)
  let v5 := addLanes v4 (set1 16 sum)
  (v5, lane v5 15)                               -- values[i + 15]

/-- `carquet_avx512_prefix_sum_i32` -/
def avx512PrefixSumI32 (init : BitVec 32) (vals : List (BitVec 32)) : List (BitVec 32) :=
  (blockedScan 16 avx512PrefixSumI32Blk psStep init vals).1

/-- body of the vector loop of `carquet_avx512_prefix_sum_i64` (8 lanes) -/
def avx512PrefixSumI64Blk (sum : BitVec 64) (v0 : List (BitVec 64)) : List (BitVec 64) × BitVec 64 :=
  let z := set1 8 0#64
  let v1 := addLanes v0 (maskzAlignr 0xFE v0 z 7)
  let v2 := addLanes v1 (maskzAlignr 0xFC v1 z 6)
  let v3 := addLanes v2 (maskzAlignr 0xF0 v2 z 4)
  let v4 := addLanes v3 (set1 8 sum)
  (v4, lane v4 7)                                -- values[i + 7]

/-- `carquet_avx512_prefix_sum_i64` -/
def avx512PrefixSumI64 (init : BitVec 64) (vals : List (BitVec 64)) : List (BitVec 64) :=
  (blockedScan 8 avx512PrefixSumI64Blk psStep init vals).1

/-! ## intrinsics on byte lanes -/

/-- `_mm_shuffle_epi8` on one 128-bit lane.  A control byte with its high bit set (written `-1`
in the C tables) is `none` and yields 0; otherwise the low four bits select a byte of the lane. -/
def pshufb (v : List UInt8) (ctrl : List (Option Nat)) : List UInt8 :=
  ctrl.map fun c => match c with
    | none => 0
    | some j => v.getD (j % 16) 0

/-- `_mm256_shuffle_epi8`: each 128-bit lane is shuffled on its own -/
def shuffleEpi8x2 (v : List UInt8) (ctrl : List (Option Nat)) : List UInt8 :=
  pshufb (v.take 16) (ctrl.take 16) ++ pshufb (v.drop 16) (ctrl.drop 16)

/-- `_mm512_shuffle_epi8`: four 128-bit lanes -/
def shuffleEpi8x4 (v : List UInt8) (ctrl : List (Option Nat)) : List UInt8 :=
  shuffleEpi8x2 (v.take 32) (ctrl.take 32) ++ shuffleEpi8x2 (v.drop 32) (ctrl.drop 32)

/-- `_mm512_permutexvar_epi32(idx, v)` on a register given as bytes: dword `j` of the result is
dword `idx[j]` of `v` -/
def permutexvarEpi32 (idx : List Nat) (v : List UInt8) : List UInt8 :=
  idx.flatMap fun j => (v.drop (4 * (j % 16))).take 4

def interleave1 {α : Type} : List α → List α → List α
  | x :: xs, y :: ys => x :: y :: interleave1 xs ys
  | _, _ => []

def interleave2 {α : Type} : List α → List α → List α
  | x0 :: x1 :: xs, y0 :: y1 :: ys => x0 :: x1 :: y0 :: y1 :: interleave2 xs ys
  | _, _ => []

/-- `_mm_unpacklo_epi8(a, b)` / `_mm_unpackhi_epi8` on 16-byte registers -/
def unpackloEpi8 (a b : List UInt8) : List UInt8 := interleave1 (a.take 8) (b.take 8)
def unpackhiEpi8 (a b : List UInt8) : List UInt8 := interleave1 (a.drop 8) (b.drop 8)
/-- `_mm_unpacklo_epi16(a, b)` / `_mm_unpackhi_epi16` on 16-byte registers -/
def unpackloEpi16 (a b : List UInt8) : List UInt8 := interleave2 (a.take 8) (b.take 8)
def unpackhiEpi16 (a b : List UInt8) : List UInt8 := interleave2 (a.drop 8) (b.drop 8)

/-- `_mm_cvtsi32_si128` / `_mm_cvtsi64_si128` / `_mm_loadl_epi64` of little-endian bytes: the low
bytes of a 128-bit register, the rest zero -/
def lowOf128 (bytes : List UInt8) : List UInt8 := bytes ++ List.replicate (16 - bytes.length) 0

def andBytes (a b : List UInt8) : List UInt8 := List.zipWith (· &&& ·) a b
/-- `_mm_min_epu8` -/
def minEpu8 (a b : List UInt8) : List UInt8 := List.zipWith (fun x y => if x ≤ y then x else y) a b

/-- the four little-endian bytes of a 32-bit value (a store of one lane) -/
def bytesLE32 (v : BitVec 32) : List UInt8 :=
  [Spec.Kernels.byteOf (k := 4) v 0, Spec.Kernels.byteOf (k := 4) v 1,
   Spec.Kernels.byteOf (k := 4) v 2, Spec.Kernels.byteOf (k := 4) v 3]

/-- little-endian 32-bit load -/
def le32 (a b c d : UInt8) : BitVec 32 := Spec.Kernels.leValue 4 [a, b, c, d]

/-- a stored register read back as 32-bit values -/
def dwords : List UInt8 → List (BitVec 32)
  | a :: b :: c :: d :: r => le32 a b c d :: dwords r
  | _ => []

/-- `_mm_slli_epi32(v, k)` on a register given as bytes -/
def slliEpi32 (k : Nat) (v : List UInt8) : List UInt8 :=
  (dwords v).flatMap fun (d : BitVec 32) => bytesLE32 (d <<< k)

/-- `_mm_movemask_epi8`: bit `i` = most significant bit of byte `i` -/
def movemaskEpi8 (v : List UInt8) : List Bool := v.map fun x => x.toNat.testBit 7

abbrev T4 := UInt8 × UInt8 × UInt8 × UInt8

def zip4 (a b c d : List UInt8) : List T4 :=
  List.zipWith (fun (x : UInt8 × UInt8) (y : UInt8 × UInt8) => (x.1, x.2, y.1, y.2)) (a.zip b) (c.zip d)

/-! ## BYTE_STREAM_SPLIT, float

The kernels write stream `b` at `output + b*count + i`.  The model keeps, for every value, the
four bytes that go to the four streams (`T4`); the placement is `streamsOf`. -/

/-- the four streams, concatenated (address arithmetic `output + b * count + i`) -/
def streamsOf (ts : List T4) : List UInt8 :=
  ts.map (·.1) ++ ts.map (·.2.1) ++ ts.map (·.2.2.1) ++ ts.map (·.2.2.2)

/-- scalar remainder loop of the encoders: `output[b*count+i] = src[i*4+b]` -/
def bssEncScalar (vals : List (BitVec 32)) : List T4 :=
  vals.map fun v => (Spec.Kernels.byteOf (k := 4) v 0, Spec.Kernels.byteOf (k := 4) v 1,
                     Spec.Kernels.byteOf (k := 4) v 2, Spec.Kernels.byteOf (k := 4) v 3)

/-- scalar remainder loop of the decoders: `dst[i*4+b] = data[b*count+i]` -/
def bssDecScalar (ts : List T4) : List (BitVec 32) := ts.map fun t => le32 t.1 t.2.1 t.2.2.1 t.2.2.2

def shufTable (b : Nat) : List (Option Nat) :=
  [some b, some (b + 4), some (b + 8), some (b + 12)] ++ List.replicate 12 none

/-- vector loop body of `carquet_sse_byte_stream_split_encode_float` (4 values) -/
def sseBssEncBlk (vals : List (BitVec 32)) : List T4 :=
  let v := vals.flatMap bytesLE32                          -- _mm_loadu_si128
  zip4 ((pshufb v (shufTable 0)).take 4) ((pshufb v (shufTable 1)).take 4)   -- _mm_cvtsi128_si32
       ((pshufb v (shufTable 2)).take 4) ((pshufb v (shufTable 3)).take 4)

/-- `carquet_sse_byte_stream_split_encode_float` -/
def sseBssEncodeFloat (vals : List (BitVec 32)) : List UInt8 :=
  streamsOf (blockedMap 4 sseBssEncBlk bssEncScalar vals)

/-- vector loop body of `carquet_avx2_byte_stream_split_encode_float` (8 values) -/
def avx2BssEncBlk (vals : List (BitVec 32)) : List T4 :=
  let v := vals.flatMap bytesLE32                          -- _mm256_loadu_si256
  let o (b : Nat) := shuffleEpi8x2 v (shufTable b ++ shufTable b)
  -- _mm256_extract_epi32(out, 0) stored at i, _mm256_extract_epi32(out, 4) stored at i + 4
  let piece (b : Nat) := (o b).take 4 ++ ((o b).drop 16).take 4
  zip4 (piece 0) (piece 1) (piece 2) (piece 3)

/-- `carquet_avx2_byte_stream_split_encode_float` -/
def avx2BssEncodeFloat (vals : List (BitVec 32)) : List UInt8 :=
  streamsOf (blockedMap 8 avx2BssEncBlk bssEncScalar vals)

def intraLaneShuf : List (Option Nat) :=
  [0, 4, 8, 12, 1, 5, 9, 13, 2, 6, 10, 14, 3, 7, 11, 15].map some
def crossLanePerm : List Nat := [0, 4, 8, 12, 1, 5, 9, 13, 2, 6, 10, 14, 3, 7, 11, 15]

/-- vector loop body of `carquet_avx512_byte_stream_split_encode_float` (16 values; the path
compiled without `__AVX512VBMI__`: `_mm512_shuffle_epi8` then `_mm512_permutexvar_epi32`) -/
def avx512BssEncBlk (vals : List (BitVec 32)) : List T4 :=
  let v := vals.flatMap bytesLE32                          -- _mm512_loadu_si512
  let shuffled := shuffleEpi8x4 v (intraLaneShuf ++ intraLaneShuf ++ intraLaneShuf ++ intraLaneShuf)
  let t := permutexvarEpi32 crossLanePerm shuffled
  -- the four 128-bit lanes go to the four streams
  zip4 (t.take 16) ((t.drop 16).take 16) ((t.drop 32).take 16) ((t.drop 48).take 16)

/-- `carquet_avx512_byte_stream_split_encode_float` -/
def avx512BssEncodeFloat (vals : List (BitVec 32)) : List UInt8 :=
  streamsOf (blockedMap 16 avx512BssEncBlk bssEncScalar vals)

/-- the decoders' view of their input: four streams of `n` bytes each; element `i` = bytes `i`,
`n+i`, `2n+i`, `3n+i` (address arithmetic `data + b * count + i`) -/
def zipStreams (n : Nat) (data : List UInt8) : List T4 :=
  zip4 (data.take n) ((data.drop n).take n) ((data.drop (2 * n)).take n) ((data.drop (3 * n)).take n)

/-- vector loop body of `carquet_sse_byte_stream_split_decode_float` (4 values) -/
def sseBssDecBlk (ts : List T4) : List (BitVec 32) :=
  let v0 := lowOf128 (ts.map (·.1));     let v1 := lowOf128 (ts.map (·.2.1))      -- _mm_cvtsi32_si128
  let v2 := lowOf128 (ts.map (·.2.2.1)); let v3 := lowOf128 (ts.map (·.2.2.2))
  let lo01 := unpackloEpi8 v0 v1
  let lo23 := unpackloEpi8 v2 v3
  dwords (unpackloEpi16 lo01 lo23)

/-- `carquet_sse_byte_stream_split_decode_float`; `ts` = the four streams zipped (address
arithmetic `data + b * count + i`) -/
def sseBssDecodeFloat (ts : List T4) : List (BitVec 32) := blockedMap 4 sseBssDecBlk bssDecScalar ts

/-- vector loop body of `carquet_avx2_byte_stream_split_decode_float` (8 values) -/
def avx2BssDecBlk (ts : List T4) : List (BitVec 32) :=
  let b0 := lowOf128 (ts.map (·.1));     let b1 := lowOf128 (ts.map (·.2.1))      -- _mm_cvtsi64_si128
  let b2 := lowOf128 (ts.map (·.2.2.1)); let b3 := lowOf128 (ts.map (·.2.2.2))
  let lo01 := unpackloEpi8 b0 b1
  let lo23 := unpackloEpi8 b2 b3
  dwords (unpackloEpi16 lo01 lo23 ++ unpackhiEpi16 lo01 lo23)

/-- `carquet_avx2_byte_stream_split_decode_float` -/
def avx2BssDecodeFloat (ts : List T4) : List (BitVec 32) := blockedMap 8 avx2BssDecBlk bssDecScalar ts

/-- vector loop body of `carquet_avx512_byte_stream_split_decode_float` (16 values) -/
def avx512BssDecBlk (ts : List T4) : List (BitVec 32) :=
  let b0 := ts.map (·.1);     let b1 := ts.map (·.2.1)                              -- _mm_loadu_si128
  let b2 := ts.map (·.2.2.1); let b3 := ts.map (·.2.2.2)
  let lo01lo := unpackloEpi8 b0 b1; let lo01hi := unpackhiEpi8 b0 b1
  let lo23lo := unpackloEpi8 b2 b3; let lo23hi := unpackhiEpi8 b2 b3
  dwords (unpackloEpi16 lo01lo lo23lo ++ unpackhiEpi16 lo01lo lo23lo ++
          unpackloEpi16 lo01hi lo23hi ++ unpackhiEpi16 lo01hi lo23hi)

/-- `carquet_avx512_byte_stream_split_decode_float` -/
def avx512BssDecodeFloat (ts : List T4) : List (BitVec 32) := blockedMap 16 avx512BssDecBlk bssDecScalar ts

/-! ## booleans -/

def bitMaskBytes : List UInt8 := [0x01, 0x02, 0x04, 0x08, 0x10, 0x20, 0x40, 0x80]

/-- the scalar loop of the unpackers on whole bytes: `output[i] = (input[i/8] >> (i%8)) & 1` -/
def unpackScalar (bytes : List UInt8) : List UInt8 := bytes.flatMap Spec.Kernels.bitsOfByte

/-- vector loop body of `carquet_sse_unpack_bools` (2 bytes -> 16 flags) -/
def sseUnpackBlk (packed : List UInt8) : List UInt8 :=
  let bits := (List.replicate 8 packed).flatten            -- _mm_set1_epi16(packed)
  let shuffled := pshufb bits ((List.replicate 8 (some 0)) ++ (List.replicate 8 (some 1)))
  let masked := andBytes shuffled (bitMaskBytes ++ bitMaskBytes)
  minEpu8 masked (set1 16 1)

/-- vector loop body of `carquet_avx2_unpack_bools` (4 bytes -> 32 flags) -/
def avx2UnpackBlk (packed : List UInt8) : List UInt8 :=
  let bits := (List.replicate 8 packed).flatten            -- _mm256_set1_epi32(packed)
  let shuffled := shuffleEpi8x2 bits
    (List.replicate 8 (some 0) ++ List.replicate 8 (some 1) ++ List.replicate 8 (some 2) ++ List.replicate 8 (some 3))
  let masked := andBytes shuffled (bitMaskBytes ++ bitMaskBytes ++ bitMaskBytes ++ bitMaskBytes)
  minEpu8 masked (set1 32 1)

/-- a little-endian integer load moved to a mask register: bit `j` of the mask -/
def maskOfBytes (bytes : List UInt8) : List Bool :=
  bytes.flatMap fun x => (List.range 8).map fun j => x.toNat.testBit j

/-- vector loop body of `carquet_avx512_unpack_bools` (8 bytes -> 64 flags):
`_mm512_maskz_set1_epi8((__mmask64)packed, 1)` -/
def avx512UnpackBlk (packed : List UInt8) : List UInt8 :=
  (maskOfBytes packed).map fun m => if m then 1 else 0

/-- `carquet_{sse,avx2,avx512}_unpack_bools`: `count / W` vector iterations over `W/8` input
bytes each, then the scalar loop for the remaining `count % W` flags -/
def unpackBools (W : Nat) (blk : List UInt8 → List UInt8) (bytes : List UInt8) (count : Nat) : List UInt8 :=
  mapBlocks (W / 8) blk (count / W) bytes ++
    (unpackScalar (bytes.drop (W / 8 * (count / W)))).take (count % W)

def sseUnpackBools := unpackBools 16 sseUnpackBlk
def avx2UnpackBools := unpackBools 32 avx2UnpackBlk
def avx512UnpackBools := unpackBools 64 avx512UnpackBlk

/-- remainder of the SSE/AVX2 packers and the scalar packer: `if (input[i+j]) byte |= 1 << j` -/
def packScalar (xs : List UInt8) : List UInt8 := Spec.Kernels.packBits (xs.map (· != 0))

/-- a mask register stored as little-endian bytes -/
def bytesOfMask (m : List Bool) : List UInt8 := Spec.Kernels.packBits m

/-- vector loop body of `carquet_sse_pack_bools` (8 flags -> 1 byte): shift bit 0 of every byte
to bit 7 inside 32-bit lanes, then `movemask` -/
def ssePackBlk (bools : List UInt8) : List UInt8 :=
  let v := lowOf128 bools                                  -- _mm_loadl_epi64
  let shifted := slliEpi32 7 v
  (bytesOfMask (movemaskEpi8 shifted)).take 1              -- (uint8_t)mask

/-- `carquet_sse_pack_bools` -/
def ssePackBools (xs : List UInt8) : List UInt8 := blockedMap 8 ssePackBlk packScalar xs

/-- `_mm_unpacklo_epi8(x, zero)` read as 16-bit lanes: the low eight bytes zero-extended -/
def widenLo8 (v : List UInt8) : List (BitVec 16) := (v.take 8).map fun x => BitVec.ofNat 16 x.toNat

/-- vector loop body of `carquet_avx2_pack_bools` (8 flags -> 1 byte): multiply by the bit
weights, horizontal add -/
def avx2PackBlk (bools : List UInt8) : List UInt8 :=
  let words := widenLo8 (lowOf128 bools)
  let mwords := widenLo8 (lowOf128 bitMaskBytes)
  let p0 := List.zipWith (· * ·) words mwords              -- _mm_mullo_epi16
  let p1 := addLanes p0 (srliSi128 1 p0)                   -- _mm_srli_si128(prod, 2)
  let p2 := addLanes p1 (srliSi128 2 p1)                   -- _mm_srli_si128(prod, 4)
  let p3 := addLanes p2 (srliSi128 4 p2)                   -- _mm_srli_si128(prod, 8)
  [UInt8.ofNat ((lane p3 0).toNat % 256)]                  -- (uint8_t)_mm_extract_epi16(prod, 0)

/-- `carquet_avx2_pack_bools` -/
def avx2PackBools (xs : List UInt8) : List UInt8 := blockedMap 8 avx2PackBlk packScalar xs

/-- `_mm512_test_epi8_mask(a, b)`: bit `j` set iff `a[j] & b[j]` is non-zero -/
def testEpi8Mask (a b : List UInt8) : List Bool := List.zipWith (fun x y => (x &&& y) != 0) a b

/-- vector loop body of `carquet_avx512_pack_bools` (64 flags -> 8 bytes) -/
def avx512PackBlk (bools : List UInt8) : List UInt8 := bytesOfMask (testEpi8Mask bools bools)

/-- remainder of `carquet_avx512_pack_bools`: masked load of the `r < 64` remaining flags (lanes
beyond `r` read as zero and are not accessed), test, store of `(r + 7) / 8` bytes -/
def avx512PackTail (t : List UInt8) : List UInt8 :=
  if t.length = 0 then []
  else
    (bytesOfMask (testEpi8Mask (t ++ List.replicate (64 - t.length) 0) (t ++ List.replicate (64 - t.length) 0))).take
      ((t.length + 7) / 8)

/-- `carquet_avx512_pack_bools` -/
def avx512PackBools (xs : List UInt8) : List UInt8 := blockedMap 64 avx512PackBlk avx512PackTail xs

/-! ## definition levels -/

/-- `_mm_cmpeq_epi16` / `_mm_cmplt_epi16` / `_mm_cmpeq_epi32`: all-ones or zero per lane -/
def cmpMask {w : Nat} (r : BitVec w → BitVec w → Bool) (a b : List (BitVec w)) : List (BitVec w) :=
  List.zipWith (fun x y => if r x y then BitVec.allOnes w else 0#w) a b

/-- `_mm_movemask_epi8` of a register of `w`-bit lanes: the top bit of each of the `w/8` bytes of
every lane -/
def movemaskLanes {w : Nat} (v : List (BitVec w)) : List Bool :=
  v.flatMap fun x => (List.range (w / 8)).map fun j => x.getLsbD (8 * j + 7)

def popcount (m : List Bool) : Nat := m.count true

/-- scalar loop body of `count_non_nulls` -/
def cnnStep (maxDef : BitVec 16) (c : Nat) (x : BitVec 16) : Nat := if x == maxDef then c + 1 else c

/-- vector loop body of `carquet_sse_count_non_nulls` (8 levels) -/
def sseCountNonNullsBlk (maxDef : BitVec 16) (c : Nat) (levels : List (BitVec 16)) : Nat :=
  c + popcount (movemaskLanes (cmpMask (· == ·) levels (set1 levels.length maxDef))) / 2

/-- `carquet_sse_count_non_nulls` -/
def sseCountNonNulls (levels : List (BitVec 16)) (maxDef : BitVec 16) : Nat :=
  blockedFold 8 (sseCountNonNullsBlk maxDef) (fun c t => t.foldl (cnnStep maxDef) c) 0 levels

/-- `_mm_packs_epi16(a, zero)`: signed saturation of each 16-bit lane to 8 bits, then 8 zero bytes -/
def packsEpi16Zero (a : List (BitVec 16)) : List UInt8 :=
  a.map (fun x => if x.toInt < -128 then (0x80 : UInt8) else if x.toInt > 127 then 0x7F else UInt8.ofNat (x.toNat % 256))
    ++ List.replicate 8 0

/-- remainder of the null-bitmap builders: one byte from up to 7 levels -/
def nullBitmapScalar (maxDef : BitVec 16) (levels : List (BitVec 16)) : List UInt8 :=
  Spec.Kernels.packBits (levels.map fun l => l.slt maxDef)

/-- vector loop body of `carquet_sse_build_null_bitmap` (8 levels -> 1 byte) -/
def sseNullBitmapBlk (maxDef : BitVec 16) (levels : List (BitVec 16)) : List UInt8 :=
  let cmp := cmpMask (fun x y => x.slt y) levels (set1 levels.length maxDef)     -- _mm_cmplt_epi16
  (bytesOfMask (movemaskEpi8 (packsEpi16Zero cmp))).take 1

/-- `carquet_sse_build_null_bitmap` (its remainder writes the whole last byte) -/
def sseBuildNullBitmap (levels : List (BitVec 16)) (maxDef : BitVec 16) : List UInt8 :=
  blockedMap 8 (sseNullBitmapBlk maxDef) (nullBitmapScalar maxDef) levels

/-- `scalar_build_null_bitmap` as repaired (FS1): full bytes written, the partial last byte
initialised to 0 and then or-ed into -/
def scalarBuildNullBitmap (levels : List (BitVec 16)) (maxDef : BitVec 16) : List UInt8 :=
  blockedMap 8 (nullBitmapScalar maxDef) (nullBitmapScalar maxDef) levels

/-- `scalar_build_null_bitmap` of the pinned tree: the partial last byte is or-ed into what the
caller's buffer `old` (of `(count+7)/8` bytes) held -/
def scalarBuildNullBitmapPreFix (levels : List (BitVec 16)) (maxDef : BitVec 16) (old : List UInt8) : List UInt8 :=
  mapBlocks 8 (nullBitmapScalar maxDef) (levels.length / 8) levels ++
    List.zipWith (· ||| ·) (old.drop (levels.length / 8))
      (nullBitmapScalar maxDef (levels.drop (8 * (levels.length / 8))))

/-- vector loop body of `carquet_sse_fill_def_levels`: store of `_mm_set1_epi16(value)` -/
def sseFillBlk (value : BitVec 16) (old : List (BitVec 16)) : List (BitVec 16) := set1 old.length value

/-- `carquet_sse_fill_def_levels` (`old` = previous contents, only its length matters) -/
def sseFillDefLevels (old : List (BitVec 16)) (value : BitVec 16) : List (BitVec 16) :=
  blockedMap 8 (sseFillBlk value) (fun t => t.map fun _ => value) old

/-! ## run-length search -/

/-- `__builtin_ctz(~mask)`: index of the first clear bit -/
def ctzNot (m : List Bool) : Nat := firstIdx (fun b => !b) m

/-- vector loop body of `carquet_sse_find_run_length_i32` (4 values) -/
def sseRunBlk (first : BitVec 32) (v : List (BitVec 32)) : Option Nat :=
  let mask := movemaskLanes (cmpMask (· == ·) v (set1 v.length first))
  if mask.all id then none else some (ctzNot mask / 4)     -- first_zero >> 2

/-- vector loop body of `carquet_avx2_find_run_length_i32` (8 values): on a mismatching block it
scans the block with the scalar loop -/
def avx2RunBlk (first : BitVec 32) (v : List (BitVec 32)) : Option Nat :=
  let mask := movemaskLanes (cmpMask (· == ·) v (set1 v.length first))
  if mask.all id then none else some (firstIdx (· != first) v)

/-- vector loop body of `carquet_avx512_find_run_length_i32` (16 values): compare into a mask
register, `ctz(~mask)` -/
def avx512RunBlk (first : BitVec 32) (v : List (BitVec 32)) : Option Nat :=
  let mask := v.map (· == first)                            -- _mm512_cmpeq_epi32_mask
  if mask.all id then none else some (ctzNot mask)

/-- `carquet_{sse,avx2,avx512}_find_run_length_i32` -/
def findRunLength (W : Nat) (blk : BitVec 32 → List (BitVec 32) → Option Nat) : List (BitVec 32) → Nat
  | [] => 0
  | x :: xs => blockedSearch W (blk x) (· != x) (x :: xs)

def sseFindRunLength := findRunLength 4 sseRunBlk
def avx2FindRunLength := findRunLength 8 avx2RunBlk
def avx512FindRunLength := findRunLength 16 avx512RunBlk

/-! ## CRC-32C -/

/-- `_mm_crc32_u8/u16/u32/u64(crc, x)`: the CRC32 instruction accumulates the little-endian bytes
of its operand into the (non-inverted) register with the Castagnoli polynomial -/
def crc32Instr (c : BitVec 32) (bytes : List UInt8) : BitVec 32 := bytes.foldl Spec.Kernels.crcByte c

/-- the four loops of `carquet_sse_crc32c` on the raw register: 8 bytes at a time, then 4, then
one 2-byte step, then one byte -/
def sseCrcLoops (c : BitVec 32) (data : List UInt8) : BitVec 32 :=
  blockedFold 8 crc32Instr
    (blockedFold 4 crc32Instr
      (blockedFold 2 crc32Instr crc32Instr)) c data

/-- `carquet_sse_crc32c` as repaired (F15): `crc = ~crc` before and `~crc` after -/
def sseCrc32c (crc : BitVec 32) (data : List UInt8) : BitVec 32 := ~~~ (sseCrcLoops (~~~ crc) data)

/-- `carquet_sse_crc32c` of the pinned tree: no pre/post conditioning -/
def sseCrc32cPreFix (crc : BitVec 32) (data : List UInt8) : BitVec 32 := sseCrcLoops crc data

/-- `scalar_crc32c`: byte-at-a-time table lookup, `table` = `crc32c_table[256]` -/
def scalarCrc32c (table : List Nat) (crc : BitVec 32) (data : List UInt8) : BitVec 32 :=
  ~~~ (data.foldl (fun c b =>
        BitVec.ofNat 32 (table.getD ((c ^^^ b.toBitVec.setWidth 32) &&& 0xFF#32).toNat 0) ^^^ (c >>> 8))
      (~~~ crc))

end Carquet.Impl.Simd
