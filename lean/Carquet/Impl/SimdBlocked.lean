/-
The loop skeleton every kernel of `src/simd/x86/*.c` has:

    for (; i + W <= count; i += W) { <vector block step on elements [i, i+W)> }
    for (; i < count; i++)         { <scalar step on element i> }          // remainder

The first loop runs exactly `count / W` times (its guard is `i + W <= count` with `i = W*j`), so
the model recurses structurally on that number.  Four shapes:
  map    — each block is transformed on its own (gather, byte-stream split, bool pack/unpack,
           null bitmap, fill, memcpy);
  scan   — a carry runs through the blocks and every element produces an output (prefix sums);
  reduce — a carry runs through the blocks, only the final carry is returned (count_non_nulls,
           crc32c);
  search — the first block containing a hit ends the loop (find_run_length, match_length).
`accesses W n` lists the (offset, length) element ranges the two loops touch for a count of `n`.
Fidelity: structural (loop structure and guards); the block steps are parameters.
-/
namespace Carquet.Impl.Simd

/-! ### map -/

/-- `k` iterations of the vector loop: consume `W` elements, append the block's output. -/
def mapBlocks {α β : Type} (W : Nat) (blk : List α → List β) : Nat → List α → List β
  | 0, _ => []
  | k + 1, xs => blk (xs.take W) ++ mapBlocks W blk k (xs.drop W)

/-- vector loop over `count / W` full blocks, then `tail` on the remainder -/
def blockedMap {α β : Type} (W : Nat) (blk tail : List α → List β) (xs : List α) : List β :=
  mapBlocks W blk (xs.length / W) xs ++ tail (xs.drop (W * (xs.length / W)))

/-! ### scan (carry + outputs) -/

/-- the scalar loop: `step` maps (carry, element) to (output, new carry) -/
def scalarScan {σ α β : Type} (step : σ → α → β × σ) : σ → List α → List β × σ
  | c, [] => ([], c)
  | c, x :: xs => ((step c x).1 :: (scalarScan step (step c x).2 xs).1, (scalarScan step (step c x).2 xs).2)

def scanBlocks {σ α β : Type} (W : Nat) (blk : σ → List α → List β × σ) : Nat → σ → List α → List β × σ
  | 0, c, _ => ([], c)
  | k + 1, c, xs =>
    ((blk c (xs.take W)).1 ++ (scanBlocks W blk k (blk c (xs.take W)).2 (xs.drop W)).1,
     (scanBlocks W blk k (blk c (xs.take W)).2 (xs.drop W)).2)

def blockedScan {σ α β : Type} (W : Nat) (blk : σ → List α → List β × σ) (step : σ → α → β × σ)
    (c : σ) (xs : List α) : List β × σ :=
  ((scanBlocks W blk (xs.length / W) c xs).1 ++
     (scalarScan step (scanBlocks W blk (xs.length / W) c xs).2 (xs.drop (W * (xs.length / W)))).1,
   (scalarScan step (scanBlocks W blk (xs.length / W) c xs).2 (xs.drop (W * (xs.length / W)))).2)

/-! ### reduce (carry only) -/

def foldBlocks {σ α : Type} (W : Nat) (blk : σ → List α → σ) : Nat → σ → List α → σ
  | 0, c, _ => c
  | k + 1, c, xs => foldBlocks W blk k (blk c (xs.take W)) (xs.drop W)

def blockedFold {σ α : Type} (W : Nat) (blk tail : σ → List α → σ) (c : σ) (xs : List α) : σ :=
  tail (foldBlocks W blk (xs.length / W) c xs) (xs.drop (W * (xs.length / W)))

/-! ### search (early exit) -/

/-- index of the first element satisfying `p`; the length if there is none (the scalar loop) -/
def firstIdx {α : Type} (p : α → Bool) : List α → Nat
  | [] => 0
  | x :: xs => if p x then 0 else firstIdx p xs + 1

/-- `blk b = some j`: the block contains a hit, the first one at `j`; `none`: no hit.
`i` is the element offset of the block. -/
def searchBlocks {α : Type} (W : Nat) (blk : List α → Option Nat) : Nat → Nat → List α → Option Nat
  | 0, _, _ => none
  | k + 1, i, xs =>
    match blk (xs.take W) with
    | some j => some (i + j)
    | none => searchBlocks W blk k (i + W) (xs.drop W)

def blockedSearch {α : Type} (W : Nat) (blk : List α → Option Nat) (p : α → Bool) (xs : List α) : Nat :=
  match searchBlocks W blk (xs.length / W) 0 xs with
  | some r => r
  | none => W * (xs.length / W) + firstIdx p (xs.drop (W * (xs.length / W)))

/-! ### accesses as data -/

/-- element ranges (offset, length) touched for a count of `n`: one range of `W` per vector
iteration, then one element per scalar iteration -/
def accesses (W n : Nat) : List (Nat × Nat) :=
  (List.range (n / W)).map (fun j => (W * j, W)) ++
  (List.range (n - W * (n / W))).map (fun t => (W * (n / W) + t, 1))

/-- ranges touched by a search that stops in block `j` (or runs to the end) -/
def searchAccesses (W n : Nat) (stopBlock : Option Nat) : List (Nat × Nat) :=
  match stopBlock with
  | some j => (List.range (j + 1)).map (fun t => (W * t, W))
  | none => accesses W n

end Carquet.Impl.Simd
