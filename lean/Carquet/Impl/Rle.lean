import Carquet.Impl.Varint
import Carquet.Impl.Bitpack
/-
Model of src/encoding/rle.c — the RLE / bit-packed hybrid — **as repaired** by
fixes/F1-rle-partial-group.patch, fixes/F30-rle-run-header-wrap.patch,
fixes/F31-rle-empty-run-value.patch and fixes/F33-rle-prefix-length-wrap.patch.  The pinned (pre-fix) functions are kept in
Impl/RlePreFix.lean together with their counterexamples.

Encoder  : carquet_rle_encoder_init/put/put_repeat/flush, flush_rle, flush_bitpack,
           complete_bitpack_group (added by F1), carquet_rle_encode_all, carquet_rle_encode_levels
Decoder  : carquet_rle_decoder_init/has_next/get/get_batch/skip, start_new_run,
           fill_bitpack_buffer, carquet_rle_decode_all,
           carquet_rle_decode_levels (separate fast path), carquet_rle_decode_levels_prefixed

Fidelity: exact, with these representation choices (all stated in NOTES_rle.md):
* `(data, size, pos)` is the unread suffix `rest` (`pos = size - rest.length`);
* `bitpack_buffer[bitpack_pos .. bitpack_count)` of the decoder is the list `bp`; the encoder's
  `bitpack_buffer[0 .. bitpack_count)` is the list `buf`;
* uint32 values are `Nat` (callers pass values < 2^32; explicit `% 2^32` where C truncates);
  `int64_t repeat_count / run_remaining` are `Nat` (never negative in the C code);
* the nested loops of get_batch / skip are flattened into one loop whose iteration is
  "make sure a run is open – make sure the group buffer is filled – move one chunk"; the
  `break`s of the C code all lead to the loop exit because `has_next` is false after an error;
* the encoder never fails: `carquet_buffer_append` results are ignored by the C code
  (allocation failure is outside this model), `enc->status` is always OK.
Decoder widths above 32 are refused by the repaired code (F80, fixes/F80-rle-decoder-bit-width.patch:
`carquet_rle_decoder_init` sets INVALID_RLE, `carquet_rle_decode_levels` returns 0); the pinned
behaviour (shifts of a 32-bit value by 32 and more, undefined) is `Impl.RlePreFix.readRunValuePreF80`.
Encoder widths above 32 are outside the model (stack buffers of 4 / 32 bytes in C, see NOTES_rle).
-/
namespace Carquet.Impl.Rle
open Carquet.Impl

/-- `int value_bytes = (bit_width + 7) / 8` -/
def valueBytes (w : Nat) : Nat := (w + 7) / 8

/-- `value_mask = bit_width >= 32 ? ~0U : (1U << bit_width) - 1` -/
def valueMask (w : Nat) : Nat := if w ≥ 32 then 0xFFFFFFFF else (1 <<< w) - 1

/-! ## Encoder -/

/-- `carquet_rle_encoder_t` (without `buffer*`, `status`): `out` is the buffer content -/
structure Enc where
  width : Nat
  out : List UInt8
  prev : Nat
  rep : Nat
  hasPrev : Bool
  buf : List Nat
  total : Nat
  deriving DecidableEq, Repr

/-- `carquet_rle_encoder_init` on an empty buffer -/
def Enc.init (w : Nat) : Enc := ⟨w, [], 0, 0, false, [], 0⟩

/-- `INT32_MAX`, the longest run one header can carry (F30) -/
def maxRun : Nat := 2147483647

/-- the value bytes written by `flush_rle`: `bytes[i] = (uint8_t)(prev_value >> (i*8))` -/
def valueLE (w v : Nat) : List UInt8 :=
  (List.range (valueBytes w)).map (fun i => UInt8.ofNat (v >>> (i * 8)))

/-- one iteration of the `while` in `flush_rle`: header `(uint32_t)(run << 1)` and value -/
def rleRunBytes (w v run : Nat) : List UInt8 :=
  Varint.writeVarint32 ((run <<< 1) % 2 ^ 32) ++ valueLE w v

/-- `flush_rle`: `while (repeat_count > 0) { run = min(repeat_count, INT32_MAX); … }` -/
def flushRleLoop : Nat → Enc → Enc
  | 0, e => e
  | f + 1, e =>
    if e.rep > 0 then
      flushRleLoop f { e with out := e.out ++ rleRunBytes e.width e.prev (min e.rep maxRun),
                              rep := e.rep - min e.rep maxRun }
    else e

/-- `flush_rle(enc)` (fuel = number of iterations, `rep / INT32_MAX + 1` suffices) -/
def flushRle (e : Enc) : Enc := flushRleLoop (e.rep / maxRun + 1) e

/-- the `for (g < num_groups)` loop of `flush_bitpack`: the same packed group each time -/
def groupsBytes (w : Nat) (buf8 : List Nat) : Nat → List UInt8
  | 0 => []
  | g + 1 => (Bitpack.pack8 w buf8).take w ++ groupsBytes w buf8 g

/-- `flush_bitpack(enc)`: pad the group with zeros, header `(num_groups << 1) | 1`, data -/
def flushBitpack (e : Enc) : Enc :=
  if e.buf.length = 0 then e
  else
    { e with
      out := e.out ++ Varint.writeVarint32 (((((e.total + 7) / 8) <<< 1) ||| 1) % 2 ^ 32) ++
               groupsBytes e.width (e.buf ++ List.replicate (8 - e.buf.length) 0) ((e.total + 7) / 8),
      buf := [], total := 0 }

/-- `complete_bitpack_group(enc)` (F1): fill a pending partial group with values of the run -/
def completeGroup (e : Enc) : Enc :=
  if e.buf.length = 0 then e
  else
    flushBitpack { e with buf := e.buf ++ List.replicate (8 - e.buf.length) e.prev,
                          total := e.total + (8 - e.buf.length),
                          rep := e.rep - (8 - e.buf.length) }

/-- body of `for (i < repeat_count)`: push `prev_value`, flush the group at 8 -/
def push1 (e : Enc) : Enc :=
  if (e.buf ++ [e.prev]).length = 8 then
    flushBitpack { e with buf := e.buf ++ [e.prev], total := e.total + 1 }
  else { e with buf := e.buf ++ [e.prev], total := e.total + 1 }

/-- `for (i = 0; i < repeat_count; i++) …` -/
def pushRun : Nat → Enc → Enc
  | 0, e => e
  | n + 1, e => pushRun n (push1 e)

/-- the "value changed" part of `put` up to (not including) `prev_value = value` -/
def endRun (e : Enc) : Enc :=
  if e.rep ≥ 8 then flushRle (completeGroup e)
  else { pushRun e.rep e with rep := 0 }

/-- `carquet_rle_encoder_put(enc, value)` -/
def put (e : Enc) (v : Nat) : Enc :=
  if e.hasPrev = false then { e with prev := v, rep := 1, hasPrev := true }
  else if v = e.prev then { e with rep := e.rep + 1 }
  else { endRun e with prev := v, rep := 1 }

/-- `carquet_rle_encoder_put_repeat(enc, value, count)` -/
def putRepeat (e : Enc) (v : Nat) : Nat → Enc
  | 0 => e
  | n + 1 => putRepeat (put e v) v n

/-- `carquet_rle_encoder_flush(enc)` -/
def flush (e : Enc) : Enc :=
  if e.rep ≥ 8 then flushRle (completeGroup e)
  else if e.rep > 0 then
    if ({ pushRun e.rep e with rep := 0 } : Enc).buf.length > 0 then
      flushBitpack { pushRun e.rep e with rep := 0 }
    else { pushRun e.rep e with rep := 0 }
  else e

/-- `carquet_rle_encode_all(input, count, bit_width, output)` on an empty output buffer:
everything the encoder emits for the sequence (put* then flush) -/
def encode (w : Nat) (vals : List Nat) : List UInt8 :=
  (flush (vals.foldl put (Enc.init w))).out

/-! ### Encoder histories: any sequence of `put` / `put_repeat` / `flush` calls -/

/-- one call on a `carquet_rle_encoder_t` -/
inductive EncOp
  | put (v : Nat)
  | rep (v n : Nat)
  | flush
  deriving DecidableEq, Repr

/-- the encoder after a history of calls -/
def runEncOps (e : Enc) : List EncOp → Enc
  | [] => e
  | .put v :: ops => runEncOps (put e v) ops
  | .rep v n :: ops => runEncOps (putRepeat e v n) ops
  | .flush :: ops => runEncOps (flush e) ops

/-- number of zero values `carquet_rle_encoder_flush` adds to the stream in state `e`: a pending
run of 1..7 values goes to the group buffer and the group is padded to 8 with zeros; a run of 8 or
more completes the group from the run (F1) and needs none; with nothing pending nothing is written -/
def flushPad (e : Enc) : Nat :=
  if 0 < e.rep ∧ e.rep < 8 then (8 - (e.buf.length + e.rep) % 8) % 8 else 0

/-- the padding counts of the flushes of a history, in order -/
def flushPads : Enc → List EncOp → List Nat
  | _, [] => []
  | e, .put v :: ops => flushPads (put e v) ops
  | e, .rep v n :: ops => flushPads (putRepeat e v n) ops
  | e, .flush :: ops => flushPad e :: flushPads (flush e) ops

/-- the values a history puts, in order -/
def histValues : List EncOp → List Nat
  | [] => []
  | .put v :: ops => v :: histValues ops
  | .rep v n :: ops => List.replicate n v ++ histValues ops
  | .flush :: ops => histValues ops

/-- what a stream written by a history denotes, given the number of padding zeros at each flush:
the values put, in order, with `pads[i]` zeros after the values that precede the i-th flush -/
def denoteWith : List Nat → List EncOp → List Nat
  | _, [] => []
  | ps, .put v :: ops => v :: denoteWith ps ops
  | ps, .rep v n :: ops => List.replicate n v ++ denoteWith ps ops
  | k :: ps, .flush :: ops => List.replicate k 0 ++ denoteWith ps ops
  | [], .flush :: ops => denoteWith [] ops

/-- `(uint32_t)input[i]` for `int16_t input[i]` -/
def u32OfI16 (x : Int) : Nat := (x % 4294967296).toNat

/-- `carquet_rle_encode_levels(input, count, bit_width, output)` -/
def encodeLevels (w : Nat) (levels : List Int) : List UInt8 :=
  encode w (levels.map u32OfI16)

/-! ## Decoder -/

/-- the two values `dec->status` takes in rle.c -/
inductive Status
  | ok
  | invalidRle
  deriving DecidableEq, Repr

/-- `carquet_rle_decoder_t` -/
structure Dec where
  width : Nat
  rest : List UInt8
  inRle : Bool
  runRemaining : Nat
  rleValue : Nat
  bp : List Nat
  status : Status
  deriving DecidableEq, Repr

/-- the widths the decoders accept (F80): `!(bit_width < 0 || bit_width > 32)` -/
def maxWidth : Nat := 32

/-- `carquet_rle_decoder_init(dec, data, size, bit_width)`; a width above 32 leaves the decoder in
status INVALID_RLE (fixes/F80-rle-decoder-bit-width.patch): it never delivers a value -/
def Dec.init (w : Nat) (data : List UInt8) : Dec :=
  ⟨w, data, false, 0, 0, [], if w ≤ maxWidth then .ok else .invalidRle⟩

/-- `start_new_run(dec)` (recursion on empty runs; each level consumes ≥ 1 byte, fuel below).
Order of the checks in the RLE branch as repaired by F31: header, value bytes, then the
test for an empty run. -/
def startNewRunF : Nat → Dec → Bool × Dec
  | 0, d => (false, d)
  | f + 1, d =>
    if d.rest.length = 0 then (false, d)
    else
      match Varint.readVarintRle d.rest with
      | none => (false, { d with status := .invalidRle })
      | some (h, rest) =>
        if h &&& 1 = 0 then
          if rest.length < valueBytes d.width then
            (false, { d with rest := rest, inRle := true, runRemaining := h >>> 1, status := .invalidRle })
          else if h >>> 1 = 0 then
            startNewRunF f { d with rest := rest.drop (valueBytes d.width), inRle := true, runRemaining := 0,
                                    rleValue := Bitpack.leNat (rest.take (valueBytes d.width)) &&& valueMask d.width }
          else
            (true, { d with rest := rest.drop (valueBytes d.width), inRle := true, runRemaining := h >>> 1,
                            rleValue := Bitpack.leNat (rest.take (valueBytes d.width)) &&& valueMask d.width })
        else
          if (h >>> 1) * 8 = 0 then
            startNewRunF f { d with rest := rest, inRle := false, runRemaining := 0 }
          else
            (true, { d with rest := rest, inRle := false, runRemaining := (h >>> 1) * 8, bp := [] })

def startNewRun (d : Dec) : Bool × Dec := startNewRunF (d.rest.length + 1) d

/-- `fill_bitpack_buffer(dec)` -/
def fill (d : Dec) : Bool × Dec :=
  if d.runRemaining = 0 then (false, d)
  else if d.rest.length < d.width then (false, { d with status := .invalidRle })
  else (true, { d with bp := Bitpack.unpack8 d.width d.rest, rest := d.rest.drop d.width })

/-- `carquet_rle_decoder_has_next(dec)` -/
def hasNext (d : Dec) : Bool :=
  if d.status ≠ .ok then false
  else if d.runRemaining > 0 then true
  else d.rest.length > 0

/-- `if (dec->run_remaining <= 0) { if (!start_new_run(dec)) … }` -/
def ensureRun (d : Dec) : Bool × Dec :=
  if d.runRemaining = 0 then startNewRun d else (true, d)

/-- in a bit-packed run: `if (bitpack_pos >= bitpack_count) { if (!fill_bitpack_buffer(dec)) … }` -/
def ensureBuf (d : Dec) : Bool × Dec :=
  if d.inRle = true then (true, d)
  else if d.bp.length = 0 then fill d
  else (true, d)

/-- run open and (for a bit-packed run) group buffer non-empty, or failure -/
def prep (d : Dec) : Bool × Dec :=
  if (ensureRun d).1 = true then ensureBuf (ensureRun d).2 else (false, (ensureRun d).2)

/-- `return dec->rle_value` / `return dec->bitpack_buffer[dec->bitpack_pos++]` with `run_remaining--` -/
def pop (d : Dec) : Nat × Dec :=
  if d.inRle = true then (d.rleValue, { d with runRemaining := d.runRemaining - 1 })
  else (d.bp.headD 0, { d with bp := d.bp.tail, runRemaining := d.runRemaining - 1 })

/-- `carquet_rle_decoder_get(dec)`: the value (0 when there is none) and the new state -/
def get (d : Dec) : Nat × Dec :=
  if d.status ≠ .ok then (0, d)
  else if (prep d).1 = true then pop (prep d).2
  else (0, (prep d).2)

/-- number of values one chunk moves: RLE `min(count - read, run_remaining)`, bit-packed
`min(count - read, bitpack_count - bitpack_pos, run_remaining)` -/
def chunkLen (d : Dec) (want : Nat) : Nat :=
  if d.inRle = true then min want d.runRemaining
  else min want (min d.bp.length d.runRemaining)

/-- the values of one chunk -/
def chunkVals (d : Dec) (want : Nat) : List Nat :=
  if d.inRle = true then List.replicate (chunkLen d want) d.rleValue
  else d.bp.take (chunkLen d want)

/-- the state after one chunk -/
def chunkDec (d : Dec) (want : Nat) : Dec :=
  if d.inRle = true then { d with runRemaining := d.runRemaining - chunkLen d want }
  else { d with bp := d.bp.drop (chunkLen d want), runRemaining := d.runRemaining - chunkLen d want }

/-- loop of `carquet_rle_decoder_get_batch` (flattened, see header); fuel `count` suffices:
every completed iteration stores at least one value -/
def batchLoop : Nat → Dec → Nat → List Nat × Dec
  | 0, d, _ => ([], d)
  | f + 1, d, want =>
    if want = 0 then ([], d)
    else if hasNext d = false then ([], d)
    else if (prep d).1 = false then ([], (prep d).2)
    else
      (chunkVals (prep d).2 want ++
         (batchLoop f (chunkDec (prep d).2 want) (want - chunkLen (prep d).2 want)).1,
       (batchLoop f (chunkDec (prep d).2 want) (want - chunkLen (prep d).2 want)).2)

/-- `carquet_rle_decoder_get_batch(dec, output, count)`: the values stored (their number is
the return value) and the new state -/
def getBatch (d : Dec) (count : Nat) : List Nat × Dec := batchLoop count d count

/-- loop of `carquet_rle_decoder_skip` (same shape, nothing stored) -/
def skipLoop : Nat → Dec → Nat → Nat × Dec
  | 0, d, _ => (0, d)
  | f + 1, d, want =>
    if want = 0 then (0, d)
    else if hasNext d = false then (0, d)
    else if (prep d).1 = false then (0, (prep d).2)
    else
      (chunkLen (prep d).2 want +
         (skipLoop f (chunkDec (prep d).2 want) (want - chunkLen (prep d).2 want)).1,
       (skipLoop f (chunkDec (prep d).2 want) (want - chunkLen (prep d).2 want)).2)

/-- `carquet_rle_decoder_skip(dec, count)`: number skipped and the new state -/
def skip (d : Dec) (count : Nat) : Nat × Dec := skipLoop count d count

/-- `carquet_rle_decode_all(input, input_size, bit_width, output, max_values)`: the values
written to `output` (the return value is their number; the C function never returns −1, a
malformed or short input just yields fewer values — the decoder's status is local and lost). -/
def decodeAll (w : Nat) (bytes : List UInt8) (count : Nat) : List Nat :=
  (getBatch (Dec.init w bytes) count).1

/-- what a caller of `carquet_rle_decode_all` that needs `count` values can observe -/
inductive Err
  | short (got : Nat)     -- fewer than `count` values were returned
  deriving DecidableEq, Repr

/-- One-shot decode as seen by a caller that compares the returned count with the requested
one (`carquet_rle_decode_all` itself has no error result). -/
def decode (w : Nat) (bytes : List UInt8) (count : Nat) : Except Err (List Nat) :=
  if (decodeAll w bytes count).length = count then .ok (decodeAll w bytes count)
  else .error (.short (decodeAll w bytes count).length)

/-! ### Streaming interface as a state machine -/

inductive Op
  | get
  | getBatch (k : Nat)
  | skip (k : Nat)
  deriving DecidableEq, Repr

/-- what the caller sees of one call -/
inductive Obs
  | val (v : Nat)              -- return value of `get`
  | vals (vs : List Nat)       -- `output[0..ret)` of `get_batch`
  | skipped (n : Nat)          -- return value of `skip`
  deriving DecidableEq, Repr

def step (d : Dec) : Op → Obs × Dec
  | .get => (.val (get d).1, (get d).2)
  | .getBatch k => (.vals (getBatch d k).1, (getBatch d k).2)
  | .skip k => (.skipped (skip d k).1, (skip d k).2)

def runOps (d : Dec) : List Op → List Obs
  | [] => []
  | op :: ops => (step d op).1 :: runOps (step d op).2 ops

/-- Reference list cursor: the abstract machine the streaming decoder refines
(`C11_rle_stream_eq_oneshot`).  `r` is what is left of the one-shot decode; `get` past the
end returns 0 exactly as `carquet_rle_decoder_get` does. -/
def cursorOps (r : List Nat) : List Op → List Obs
  | [] => []
  | .get :: ops => .val (r.headD 0) :: cursorOps (r.drop 1) ops
  | .getBatch k :: ops => .vals (r.take k) :: cursorOps (r.drop k) ops
  | .skip k :: ops => .skipped (min k r.length) :: cursorOps (r.drop k) ops

/-- number of values a history asks for -/
def demand : List Op → Nat
  | [] => 0
  | .get :: ops => 1 + demand ops
  | .getBatch k :: ops => k + demand ops
  | .skip k :: ops => k + demand ops

/-! ## Levels (int16) -/

/-- `(int16_t)x` for a `uint32_t x` (truncation) -/
def truncI16 (v : Nat) : Int :=
  if v % 65536 < 32768 then ((v % 65536 : Nat) : Int) else ((v % 65536 : Nat) : Int) - 65536

/-- one lane of `_mm_packs_epi32`: the `uint32_t` read as `int32_t`, saturated to int16 -/
def satI16 (v : Nat) : Int :=
  if v % 4294967296 < 2147483648 then
    (if v % 4294967296 > 32767 then 32767 else ((v % 4294967296 : Nat) : Int))
  else
    (if v % 4294967296 < 4294934528 then -32768 else ((v % 4294967296 : Nat) : Int) - 4294967296)

/-- store of one unpacked group in `carquet_rle_decode_levels`: all 8 through the SSE2
saturating pack, a partial group through scalar truncation -/
def storeGroup (temp : List Nat) (want : Nat) : List Int :=
  if want ≥ 8 then temp.map satI16 else (temp.take want).map truncI16

/-- `for (g = 0; g < num_groups && count < max_values; g++)`: values stored and unread input
(a truncated group ends this loop; whether it did is `groupsCut`) -/
def levelsGroups (w : Nat) : Nat → List UInt8 → Nat → List Int × List UInt8
  | 0, rest, _ => ([], rest)
  | g + 1, rest, want =>
    if want = 0 then ([], rest)
    else if rest.length < w then ([], rest)
    else
      (storeGroup (Bitpack.unpack8 w rest) want ++ (levelsGroups w g (rest.drop w) (want - min 8 want)).1,
       (levelsGroups w g (rest.drop w) (want - min 8 want)).2)

/-- the loop BEFORE repair F58: a bit-packed group that is cut short only `break`s the group loop,
and the leftover bytes are parsed as the next run header (kept for `C11_regression_F58` and as the
stepping stone of the completeness proof, Proofs/RleLevels.lean) -/
def levelsLoopPreF58 (w : Nat) : Nat → List UInt8 → Nat → List Int
  | 0, _, _ => []
  | f + 1, bs, want =>
    if want = 0 then []
    else if bs.length = 0 then []
    else if (Varint.readHeaderLevels bs).1 &&& 1 = 0 then
      if (Varint.readHeaderLevels bs).2.length < valueBytes w then []
      else if (Varint.readHeaderLevels bs).1 >>> 1 = 0 then
        levelsLoopPreF58 w f ((Varint.readHeaderLevels bs).2.drop (valueBytes w)) want
      else
        List.replicate (min ((Varint.readHeaderLevels bs).1 >>> 1) want)
            (truncI16 (Bitpack.leNat ((Varint.readHeaderLevels bs).2.take (valueBytes w)) &&& valueMask w)) ++
          levelsLoopPreF58 w f ((Varint.readHeaderLevels bs).2.drop (valueBytes w))
            (want - min ((Varint.readHeaderLevels bs).1 >>> 1) want)
    else
      if ((Varint.readHeaderLevels bs).1 >>> 1) * 8 = 0 then
        levelsLoopPreF58 w f (Varint.readHeaderLevels bs).2 want
      else
        (levelsGroups w ((Varint.readHeaderLevels bs).1 >>> 1) (Varint.readHeaderLevels bs).2 want).1 ++
          levelsLoopPreF58 w f
            (levelsGroups w ((Varint.readHeaderLevels bs).1 >>> 1) (Varint.readHeaderLevels bs).2 want).2
            (want - (levelsGroups w ((Varint.readHeaderLevels bs).1 >>> 1) (Varint.readHeaderLevels bs).2 want).1.length)

/-- the group loop of a bit-packed run stopped because fewer than `w` bytes were left for a group
(`if (pos + bit_width > input_size) return count;` after F58) -/
def groupsCut (w : Nat) : Nat → List UInt8 → Nat → Bool
  | 0, _, _ => false
  | g + 1, rest, want =>
    if want = 0 then false
    else if rest.length < w then true
    else groupsCut w g (rest.drop w) (want - min 8 want)

/-- `while (count < max_values && pos < input_size)` of `carquet_rle_decode_levels`
(every iteration consumes ≥ 1 byte; fuel `input_size + 1`).  RLE branch as repaired by F31;
a bit-packed group that is cut short ends the decoding (repair F58: `return count`). -/
def levelsLoop (w : Nat) : Nat → List UInt8 → Nat → List Int
  | 0, _, _ => []
  | f + 1, bs, want =>
    if want = 0 then []
    else if bs.length = 0 then []
    else if (Varint.readHeaderLevels bs).1 &&& 1 = 0 then
      if (Varint.readHeaderLevels bs).2.length < valueBytes w then []
      else if (Varint.readHeaderLevels bs).1 >>> 1 = 0 then
        levelsLoop w f ((Varint.readHeaderLevels bs).2.drop (valueBytes w)) want
      else
        List.replicate (min ((Varint.readHeaderLevels bs).1 >>> 1) want)
            (truncI16 (Bitpack.leNat ((Varint.readHeaderLevels bs).2.take (valueBytes w)) &&& valueMask w)) ++
          levelsLoop w f ((Varint.readHeaderLevels bs).2.drop (valueBytes w))
            (want - min ((Varint.readHeaderLevels bs).1 >>> 1) want)
    else
      if ((Varint.readHeaderLevels bs).1 >>> 1) * 8 = 0 then
        levelsLoop w f (Varint.readHeaderLevels bs).2 want
      else if groupsCut w ((Varint.readHeaderLevels bs).1 >>> 1) (Varint.readHeaderLevels bs).2 want then
        (levelsGroups w ((Varint.readHeaderLevels bs).1 >>> 1) (Varint.readHeaderLevels bs).2 want).1
      else
        (levelsGroups w ((Varint.readHeaderLevels bs).1 >>> 1) (Varint.readHeaderLevels bs).2 want).1 ++
          levelsLoop w f
            (levelsGroups w ((Varint.readHeaderLevels bs).1 >>> 1) (Varint.readHeaderLevels bs).2 want).2
            (want - (levelsGroups w ((Varint.readHeaderLevels bs).1 >>> 1) (Varint.readHeaderLevels bs).2 want).1.length)

/-- `carquet_rle_decode_levels` before repair F58 -/
def decodeLevelsPreF58 (w : Nat) (bytes : List UInt8) (maxValues : Nat) : List Int :=
  levelsLoopPreF58 w (bytes.length + 1) bytes maxValues

/-- `carquet_rle_decode_levels(input, input_size, bit_width, output, max_values)`: the levels
stored (their number is the return value; never an error), as repaired by F58; no levels at a width
above 32 (F80: `if (bit_width < 0 || bit_width > 32) return 0;`) -/
def decodeLevels (w : Nat) (bytes : List UInt8) (maxValues : Nat) : List Int :=
  if w ≤ maxWidth then levelsLoop w (bytes.length + 1) bytes maxValues else []

/-- results of `carquet_rle_decode_levels_prefixed` other than success (both return −1 and
set `*bytes_consumed = 0`) -/
inductive PrefixErr
  | tooShort               -- `input_size < 4`
  | lengthExceedsInput     -- `rle_length > input_size - 4`
  deriving DecidableEq, Repr

/-- `carquet_rle_decode_levels_prefixed(input, input_size, bit_width, output, max_values,
&bytes_consumed)`: levels and `bytes_consumed`, as repaired by
fixes/F33-rle-prefix-length-wrap.patch (the pinned test is in Impl/RlePreFix.lean). -/
def decodeLevelsPrefixed (w : Nat) (bytes : List UInt8) (maxValues : Nat) :
    Except PrefixErr (List Int × Nat) :=
  if bytes.length < 4 then .error .tooShort
  else if Bitpack.leNat (bytes.take 4) > bytes.length - 4 then .error .lengthExceedsInput
  else
    .ok (decodeLevels w ((bytes.drop 4).take (Bitpack.leNat (bytes.take 4))) maxValues,
         4 + Bitpack.leNat (bytes.take 4))

/-- the framing a caller (page writer) puts around a level block: 4-byte little-endian length -/
def withLengthPrefix (payload : List UInt8) : List UInt8 :=
  Bitpack.leBytes 4 payload.length ++ payload

-- tests of the transcription against bytes produced by the repaired C code
example : encode 1 [1, 0, 1, 1, 1, 1, 1, 1, 1, 1, 1, 1, 0] = [0x03, 0xFD, 0x08, 0x01, 0x03, 0x00] := by decide
example : decodeAll 1 [0x03, 0xFD, 0x08, 0x01, 0x03, 0x00] 13 = [1, 0, 1, 1, 1, 1, 1, 1, 1, 1, 1, 1, 0] := by decide
example : encode 3 [] = [] := by decide
example : decodeAll 3 [0x00, 0x05, 0x02, 0x03] 1 = [3] := by decide

-- quirks of the two decoders on malformed / out-of-range input (checked against the C code by the harness)
-- a truncated bit-packed group stops `decode_all` (status INVALID_RLE, nothing returned); before F58 it
-- only `break`s the group loop of `decode_levels`, which went on parsing the leftover bytes as a
-- header; after F58 `decode_levels` stops there too:
example : decodeAll 8 [0x03, 0x02, 0x05] 4 = [] ∧ decodeLevelsPreF58 8 [0x03, 0x02, 0x05] 4 = [5] ∧
    decodeLevels 8 [0x03, 0x02, 0x05] 4 = [] := by decide
-- width 16, value 40000: a whole group of 8 goes through the saturating SSE2 pack (32767), a partial
-- group and an RLE run through truncation (40000 − 65536):
example : decodeLevels 16 ([0x03] ++ (List.replicate 8 [0x40, 0x9C]).flatten) 8 = List.replicate 8 32767 := by decide
example : decodeLevels 16 ([0x03] ++ (List.replicate 8 [0x40, 0x9C]).flatten) 7 = List.replicate 7 (-25536) := by decide
example : decodeLevels 16 [0x10, 0x40, 0x9C] 8 = List.replicate 8 (-25536) := by decide

end Carquet.Impl.Rle
