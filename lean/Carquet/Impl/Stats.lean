import Carquet.Spec.Order
/-
Models of carquet's statistics code, function by function.

  src/metadata/statistics.c   comparators, statistics builder, build, compare, range_overlaps
  src/writer/page_writer.c    running min/max of the page writer (page-header statistics)
  src/reader/statistics.c     column_statistics, row_group_matches, filter_row_groups
  src/metadata/page_index.c   column index builder add_page, page_might_match

The models mirror the code AFTER the fixes fixes/F18a..e, F19a..c.  For every repaired function
the pre-fix version is kept as `…PreFix`; the counterexamples showing that the property fails
for it are in `Properties/C16/Stats.lean` (`C16_regression_*`).

Fidelity: exact for everything observable through the APIs (status, flags, emitted bytes,
counts).  Values are byte strings as they lie in memory (little-endian host).  Typed reads are
`readU n` = the first `n` bytes; the C code may only be called with buffers that long (the
harness guarantees it; where lengths come from a file the model has the explicit guards the
code has).  Not modelled: NULL arguments, allocation failure inside `build`/`add_page`
(C19's subject), physical-type values outside the enum.
-/
namespace Carquet.Impl.Stats
open Carquet.Spec.Order (PType leNat FFmt f32 f64 Op)

/-- `carquet_status_t` values that these functions return (class only). -/
inductive Status where
  | ok | invalidArgument | rowGroupNotFound | columnNotFound | notImplemented
  deriving DecidableEq, Repr, Inhabited

/-- What a pre-fix function does to memory it does not own. -/
inductive Fault where
  | bufferOverflow   -- write past the end of a fixed-size field
  | overread         -- read past the end of a value
  deriving DecidableEq, Repr

/-! ## Reads and comparators -/

/-- `*(const uintN_t*)p` on a little-endian host: the first `n` bytes. -/
def readU (n : Nat) (bs : List UInt8) : Nat := leNat (bs.take n)

/-- reinterpretation of a `w`-bit pattern as two's complement -/
def toSigned (w : Nat) (n : Nat) : Int := if n < 2 ^ (w - 1) then (n : Int) else (n : Int) - 2 ^ w

/-- C `(va > vb) - (va < vb)` -/
def sgn3 (gt lt : Bool) : Int := (if gt then 1 else 0) - (if lt then 1 else 0)

/-- `compare_boolean` (metadata/statistics.c, and reader/statistics.c after F19b) -/
def cmpBool (a b : List UInt8) : Int :=
  sgn3 (decide (readU 1 a > readU 1 b)) (decide (readU 1 a < readU 1 b))

/-- `compare_int32` -/
def cmpI32 (a b : List UInt8) : Int :=
  sgn3 (decide (toSigned 32 (readU 4 a) > toSigned 32 (readU 4 b)))
       (decide (toSigned 32 (readU 4 a) < toSigned 32 (readU 4 b)))

/-- `compare_int64` -/
def cmpI64 (a b : List UInt8) : Int :=
  sgn3 (decide (toSigned 64 (readU 8 a) > toSigned 64 (readU 8 b)))
       (decide (toSigned 64 (readU 8 a) < toSigned 64 (readU 8 b)))

/-- `va[i]` of `compare_int96`: the i-th little-endian 32-bit word -/
def word (bs : List UInt8) (i : Nat) : Nat := leNat ((bs.drop (4 * i)).take 4)

/-- `compare_int96`: words 2, 1, 0, first difference decides -/
def cmpI96 (a b : List UInt8) : Int :=
  if word a 2 ≠ word b 2 then sgn3 (decide (word a 2 > word b 2)) (decide (word a 2 < word b 2))
  else if word a 1 ≠ word b 1 then sgn3 (decide (word a 1 > word b 1)) (decide (word a 1 < word b 1))
  else if word a 0 ≠ word b 0 then sgn3 (decide (word a 0 > word b 0)) (decide (word a 0 < word b 0))
  else 0

/-! Hardware floating-point comparison on bit patterns.  The usual integer formulation:
strip the sign, NaN iff what is left exceeds the pattern of infinity, otherwise compare
sign-magnitude integers.  (The Spec defines the same relation from the represented numbers;
`Proofs/StatsOrder.lean` proves the two equal.) -/

/-- bit pattern without the sign bit -/
def fAbs (f : FFmt) (x : Nat) : Nat := x % 2 ^ (f.ebits + f.mbits)
/-- sign bit set -/
def fNeg (f : FFmt) (x : Nat) : Bool := x / 2 ^ (f.ebits + f.mbits) % 2 = 1
/-- `isnan(v)` / `v != v` -/
def fNan (f : FFmt) (x : Nat) : Bool := fAbs f x > (2 ^ f.ebits - 1) * 2 ^ f.mbits
def fKey (f : FFmt) (x : Nat) : Int := if fNeg f x then - (fAbs f x : Int) else (fAbs f x : Int)
/-- C `a < b` on floats / doubles -/
def fLt (f : FFmt) (a b : Nat) : Bool := !fNan f a && !fNan f b && decide (fKey f a < fKey f b)

/-- `compare_float` / `compare_double` of metadata/statistics.c: NaN sorts after everything -/
def cmpFloatB (f : FFmt) (a b : Nat) : Int :=
  if fNan f a && fNan f b then 0
  else if fNan f a then 1
  else if fNan f b then -1
  else sgn3 (fLt f b a) (fLt f a b)

/-- `compare_float` / `compare_double` of reader/statistics.c: `<` then `>` then 0, so a NaN
compares equal to everything -/
def cmpFloatR (f : FFmt) (a b : Nat) : Int :=
  if fLt f a b then -1 else if fLt f b a then 1 else 0

/-- `memcmp(a, b, n)`, sign only -/
def memcmp : List UInt8 → List UInt8 → Nat → Int
  | a :: as, b :: bs, n + 1 => if a < b then -1 else if b < a then 1 else memcmp as bs n
  | _, _, _ => 0

/-- `compare_byte_array` / `compare_bytes`: memcmp over the common length, then the lengths -/
def cmpBytes (a b : List UInt8) : Int :=
  if memcmp a b (min a.length b.length) ≠ 0 then memcmp a b (min a.length b.length)
  else sgn3 (decide (a.length > b.length)) (decide (a.length < b.length))

/-- `carquet_statistics_compare_values` (added by F18d): the builder's comparators by type;
also the switch of `carquet_statistics_compare` -/
def cmpTyped : PType → List UInt8 → List UInt8 → Int
  | .boolean, a, b => cmpBool a b
  | .int32, a, b => cmpI32 a b
  | .int64, a, b => cmpI64 a b
  | .int96, a, b => cmpI96 a b
  | .float, a, b => cmpFloatB f32 (readU 4 a) (readU 4 b)
  | .double, a, b => cmpFloatB f64 (readU 8 a) (readU 8 b)
  | .byteArray, a, b => cmpBytes a b
  | .flba, a, b => cmpBytes a b

/-! ## Statistics builder (metadata/statistics.c) -/

/-- `sizeof(builder->min_value)`; tied to the source by `Gen.StatsConstants.builderValueCap`. -/
def cap : Nat := 256

/-- `carquet_statistics_builder_t` (`minV` is `min_value[0 .. min_len)`). -/
structure Builder where
  type : PType
  typeLength : Int
  hasMin : Bool := false
  hasMax : Bool := false
  nullCount : Int := 0
  distinctCount : Int := 0
  numValues : Int := 0
  minV : List UInt8 := []
  maxV : List UInt8 := []
  skippedOversized : Bool := false     -- field added by F18b
  deriving Repr, DecidableEq

/-- `carquet_statistics_builder_create` -/
def create (t : PType) (typeLength : Int) : Builder := { type := t, typeLength := typeLength }

/-- `carquet_statistics_builder_reset` -/
def reset (b : Builder) : Builder := { type := b.type, typeLength := b.typeLength }

/-- `get_value_size` (`(size_t)type_length` for FLBA: a negative length becomes huge) -/
def valueSize (t : PType) (typeLength : Int) : Nat :=
  match t with
  | .boolean => 1 | .int32 => 4 | .int64 => 8 | .int96 => 12 | .float => 4 | .double => 8
  | .flba => if typeLength < 0 then (2 ^ 64 - typeLength.natAbs) else typeLength.toNat
  | .byteArray => 0

/-- `carquet_statistics_add_nulls` -/
def addNulls (b : Builder) (count : Int) : Builder := { b with nullCount := b.nullCount + count }

/-- the two `switch (builder->type)` of `carquet_statistics_add_values` (`default: break`
leaves 0; FLBA compares `value_size` bytes of both) -/
def cmpFixed : PType → List UInt8 → List UInt8 → Int
  | .byteArray, _, _ => 0
  | t, a, b => cmpTyped t a b

/-- one iteration of the `for` loop of `carquet_statistics_add_values` -/
def stepFixed (t : PType) (b : Builder) (val : List UInt8) : Builder :=
  { b with
    minV := if b.hasMin = false ∨ cmpFixed t val b.minV < 0 then val else b.minV
    hasMin := true
    maxV := if b.hasMax = false ∨ cmpFixed t val b.maxV > 0 then val else b.maxV
    hasMax := true }

/-- the `num_values` consecutive `vs`-byte values of a flat buffer -/
def slices (vs : Nat) : Nat → List UInt8 → List (List UInt8)
  | 0, _ => []
  | n + 1, d => d.take vs :: slices vs n (d.drop vs)

def bumpNum (b : Builder) (n : Int) : Builder := { b with numValues := b.numValues + n }

/-- `carquet_statistics_add_values` (with the F18c guard) -/
def addValues (b : Builder) (data : List UInt8) (n : Int) : Status × Builder :=
  if n ≤ 0 then (.invalidArgument, b)
  else if valueSize b.type b.typeLength = 0 then (.invalidArgument, b)
  else if valueSize b.type b.typeLength > cap then (.invalidArgument, b)
  else (.ok, bumpNum ((slices (valueSize b.type b.typeLength) n.toNat data).foldl (stepFixed b.type) b) n)

/-- before F18c: `memcpy(builder->min_value, val, value_size)` with `value_size > 256` -/
def addValuesPreFix (b : Builder) (data : List UInt8) (n : Int) : Except Fault (Status × Builder) :=
  if n ≤ 0 then .ok (.invalidArgument, b)
  else if valueSize b.type b.typeLength = 0 then .ok (.invalidArgument, b)
  else if valueSize b.type b.typeLength > cap then .error .bufferOverflow
  else .ok (.ok, bumpNum ((slices (valueSize b.type b.typeLength) n.toNat data).foldl (stepFixed b.type) b) n)

/-- one iteration of the loop of `carquet_statistics_add_byte_arrays` (with F18b) -/
def stepBA (b : Builder) (val : List UInt8) : Builder :=
  if val.length > cap then { b with skippedOversized := true }
  else
    { b with
      minV := if b.hasMin = false ∨ cmpBytes val b.minV < 0 then val else b.minV
      hasMin := true
      maxV := if b.hasMax = false ∨ cmpBytes val b.maxV > 0 then val else b.maxV
      hasMax := true }

/-- before F18b: an oversized value is skipped without trace -/
def stepBAPreFix (b : Builder) (val : List UInt8) : Builder :=
  if val.length > cap then b
  else
    { b with
      minV := if b.hasMin = false ∨ cmpBytes val b.minV < 0 then val else b.minV
      hasMin := true
      maxV := if b.hasMax = false ∨ cmpBytes val b.maxV > 0 then val else b.maxV
      hasMax := true }

/-- `carquet_statistics_add_byte_arrays` -/
def addByteArrays (b : Builder) (vals : List (List UInt8)) : Status × Builder :=
  if vals.length = 0 then (.invalidArgument, b)
  else if b.type ≠ .byteArray then (.invalidArgument, b)
  else (.ok, bumpNum (vals.foldl stepBA b) vals.length)

def addByteArraysPreFix (b : Builder) (vals : List (List UInt8)) : Status × Builder :=
  if vals.length = 0 then (.invalidArgument, b)
  else if b.type ≠ .byteArray then (.invalidArgument, b)
  else (.ok, bumpNum (vals.foldl stepBAPreFix b) vals.length)

/-- `parquet_statistics_t` (thrift `Statistics`; a binary field is `some` iff pointer non-NULL) -/
structure PStats where
  maxDeprecated : Option (List UInt8) := none
  minDeprecated : Option (List UInt8) := none
  nullCount : Option Int := none
  distinctCount : Option Int := none
  maxValue : Option (List UInt8) := none
  minValue : Option (List UInt8) := none
  isMaxValueExact : Option Bool := none
  isMinValueExact : Option Bool := none
  deriving Repr, DecidableEq

/-- `carquet_statistics_build` (allocation assumed to succeed) -/
def build (b : Builder) : PStats :=
  { nullCount := some b.nullCount
    distinctCount := if b.distinctCount > 0 then some b.distinctCount else none
    minValue := if b.hasMin = true ∧ b.minV.length > 0 ∧ b.skippedOversized = false then some b.minV else none
    isMinValueExact := if b.hasMin = true ∧ b.minV.length > 0 ∧ b.skippedOversized = false then some true else none
    maxValue := if b.hasMax = true ∧ b.maxV.length > 0 ∧ b.skippedOversized = false then some b.maxV else none
    isMaxValueExact := if b.hasMax = true ∧ b.maxV.length > 0 ∧ b.skippedOversized = false then some true else none }

/-- before F18b -/
def buildPreFix (b : Builder) : PStats :=
  { nullCount := some b.nullCount
    distinctCount := if b.distinctCount > 0 then some b.distinctCount else none
    minValue := if b.hasMin = true ∧ b.minV.length > 0 then some b.minV else none
    isMinValueExact := if b.hasMin = true ∧ b.minV.length > 0 then some true else none
    maxValue := if b.hasMax = true ∧ b.maxV.length > 0 then some b.maxV else none
    isMaxValueExact := if b.hasMax = true ∧ b.maxV.length > 0 then some true else none }

/-- builder API calls -/
inductive BOp where
  | nulls (count : Int)
  | values (data : List UInt8) (n : Int)
  | byteArrays (vals : List (List UInt8))
  deriving Repr

def runOp (b : Builder) : BOp → Status × Builder
  | .nulls c => (.ok, addNulls b c)
  | .values d n => addValues b d n
  | .byteArrays vs => addByteArrays b vs

def runOps (b : Builder) (ops : List BOp) : Builder := ops.foldl (fun b o => (runOp b o).2) b

/-! ## `carquet_statistics_compare`, `carquet_statistics_range_overlaps` -/

/-- `ptr && len > 0` -/
def present : Option (List UInt8) → Option (List UInt8)
  | some v => if v.length > 0 then some v else none
  | none => none

/-- `carquet_statistics_compare`: -1 below min, 1 above max, 0 in range.  `value` is the
`value_len` bytes of the probe (fixed-width types read their own width). -/
def statsCompare (s : PStats) (t : PType) (value : List UInt8) : Status × Int :=
  match present s.minValue, present s.maxValue with
  | some lo, some hi =>
      if cmpTyped t value lo < 0 then (.ok, -1) else if cmpTyped t value hi > 0 then (.ok, 1) else (.ok, 0)
  | some lo, none => if cmpTyped t value lo < 0 then (.ok, -1) else (.ok, 0)
  | none, some hi => if cmpTyped t value hi > 0 then (.ok, 1) else (.ok, 0)
  | none, none => (.ok, 0)

/-- the switches of `carquet_statistics_range_overlaps`: INT32, INT64, INT96 (F18e), FLOAT,
DOUBLE typed, everything else (BOOLEAN, BYTE_ARRAY, FLBA) by bytes with `value_len` -/
def cmpRange : PType → List UInt8 → List UInt8 → Int
  | .boolean, a, b => cmpBytes a b
  | t, a, b => cmpTyped t a b

/-- before F18e INT96 fell into the byte-wise default -/
def cmpRangePreFix : PType → List UInt8 → List UInt8 → Int
  | .boolean, a, b => cmpBytes a b
  | .int96, a, b => cmpBytes a b
  | t, a, b => cmpTyped t a b

/-- `carquet_statistics_range_overlaps` (query bounds `none` = unbounded) -/
def rangeOverlapsWith (cmp : PType → List UInt8 → List UInt8 → Int)
    (s : PStats) (t : PType) (qmin qmax : Option (List UInt8)) : Status × Bool :=
  match qmax, present s.minValue with
  | some q, some lo =>
      if cmp t q lo < 0 then (.ok, false)
      else
        match qmin, present s.maxValue with
        | some q', some hi => if cmp t q' hi > 0 then (.ok, false) else (.ok, true)
        | _, _ => (.ok, true)
  | _, _ =>
      match qmin, present s.maxValue with
      | some q', some hi => if cmp t q' hi > 0 then (.ok, false) else (.ok, true)
      | _, _ => (.ok, true)

def rangeOverlaps := rangeOverlapsWith cmpRange
def rangeOverlapsPreFix := rangeOverlapsWith cmpRangePreFix

/-! ## Page writer running statistics (writer/page_writer.c) -/

/-- the statistics-related fields of `carquet_page_writer_t` -/
structure PageW where
  type : PType
  maxDef : Int
  numValues : Int := 0
  numNulls : Int := 0
  hasMinMax : Bool := false
  minV : List UInt8 := []
  maxV : List UInt8 := []
  writeStatistics : Bool := true
  deriving Repr, DecidableEq

/-- `v < min_v` replaced by the F18a condition for FLOAT / DOUBLE; plain signed `<` for ints -/
def pwLess (t : PType) (v cur : List UInt8) : Bool :=
  match t with
  | .int32 => decide (toSigned 32 (readU 4 v) < toSigned 32 (readU 4 cur))
  | .int64 => decide (toSigned 64 (readU 8 v) < toSigned 64 (readU 8 cur))
  | .float => fLt f32 (readU 4 v) (readU 4 cur) || (fNan f32 (readU 4 cur) && !fNan f32 (readU 4 v))
  | .double => fLt f64 (readU 8 v) (readU 8 cur) || (fNan f64 (readU 8 cur) && !fNan f64 (readU 8 v))
  | _ => false

def pwGreater (t : PType) (v cur : List UInt8) : Bool :=
  match t with
  | .int32 => decide (toSigned 32 (readU 4 v) > toSigned 32 (readU 4 cur))
  | .int64 => decide (toSigned 64 (readU 8 v) > toSigned 64 (readU 8 cur))
  | .float => fLt f32 (readU 4 cur) (readU 4 v) || (fNan f32 (readU 4 v) && !fNan f32 (readU 4 cur))
  | .double => fLt f64 (readU 8 cur) (readU 8 v) || (fNan f64 (readU 8 v) && !fNan f64 (readU 8 cur))
  | _ => false

/-- before F18a: `if (v < min_v)`, `if (v > max_v)` -/
def pwLessPreFix (t : PType) (v cur : List UInt8) : Bool :=
  match t with
  | .float => fLt f32 (readU 4 v) (readU 4 cur)
  | .double => fLt f64 (readU 8 v) (readU 8 cur)
  | t => pwLess t v cur

def pwGreaterPreFix (t : PType) (v cur : List UInt8) : Bool :=
  match t with
  | .float => fLt f32 (readU 4 cur) (readU 4 v)
  | .double => fLt f64 (readU 8 cur) (readU 8 v)
  | t => pwGreater t v cur

/-- does `carquet_page_writer_add_values` call an `update_statistics_*` for this type -/
def pwTracked : PType → Bool
  | .int32 | .int64 | .float | .double => true
  | _ => false

/-- loop body of `update_statistics_{i32,i64,float,double}` -/
def pwStepWith (less greater : PType → List UInt8 → List UInt8 → Bool) (t : PType) (w : PageW)
    (v : List UInt8) : PageW :=
  if w.hasMinMax = false then { w with minV := v, maxV := v, hasMinMax := true }
  else { w with minV := if less t v w.minV then v else w.minV
                maxV := if greater t v w.maxV then v else w.maxV }

/-- one `write_batch`: `num_values` rows, the dense non-null values, optional def levels -/
structure Batch where
  data : List UInt8
  numValues : Nat
  defs : Option (List Int)
  deriving Repr

/-- the "Count nulls and non-null values" block -/
def numNonNull (w : PageW) (bt : Batch) : Nat :=
  match bt.defs with
  | some d => if w.maxDef > 0 then ((d.take bt.numValues).filter (· = w.maxDef)).length else bt.numValues
  | none => bt.numValues

def pwWidth (t : PType) : Nat := (t.width).getD 0

/-- `carquet_page_writer_add_values`, statistics side -/
def pwAddWith (less greater : PType → List UInt8 → List UInt8 → Bool) (w : PageW) (bt : Batch) :
    Status × PageW :=
  (if w.type = .int96 then .notImplemented else .ok,
   { (if pwTracked w.type then
        (slices (pwWidth w.type) (numNonNull w bt) bt.data).foldl (pwStepWith less greater w.type) w
      else w) with
     numNulls := w.numNulls + ((bt.numValues : Int) - (numNonNull w bt : Int))
     numValues := w.numValues + bt.numValues })

def pwAdd := pwAddWith pwLess pwGreater
def pwAddPreFix := pwAddWith pwLessPreFix pwGreaterPreFix

def pwRun (w : PageW) (bs : List Batch) : PageW := bs.foldl (fun w b => (pwAdd w b).2) w
def pwRunPreFix (w : PageW) (bs : List Batch) : PageW := bs.foldl (fun w b => (pwAddPreFix w b).2) w

/-- `carquet_page_writer_get_statistics`: (min, max, value_size, null_count) -/
def pwGetStatistics (w : PageW) : Option (List UInt8 × List UInt8 × Nat × Int) :=
  if w.hasMinMax then some (w.minV, w.maxV, pwWidth w.type, w.numNulls) else none

/-- what `carquet_page_writer_finalize` puts into DataPageHeader.statistics (fields 3, 5, 6),
`none` when the struct is not written -/
def pwHeaderStats (w : PageW) : Option PStats :=
  if w.writeStatistics = true ∧ w.hasMinMax = true then
    some { nullCount := some w.numNulls, maxValue := some w.maxV, minValue := some w.minV }
  else none

/-! ## Reader API (reader/statistics.c) -/

structure ColMeta where
  numValues : Int
  statistics : Option PStats      -- `has_statistics`
  deriving Repr

structure Chunk where
  metaData : Option ColMeta       -- `has_metadata`
  deriving Repr

structure RowGroup where
  columns : List Chunk
  deriving Repr

/-- what the functions look at in `carquet_reader_t`: the row groups of the footer and, per
leaf column, the schema element's type (`none` = `has_type` false) -/
structure Reader where
  rowGroups : List RowGroup
  leaves : List (Option PType)
  deriving Repr

/-- `carquet_column_statistics_t` (`*_size` are the lengths) -/
structure ColStats where
  hasMinMax : Bool := false
  hasNullCount : Bool := false
  hasDistinctCount : Bool := false
  nullCount : Int := 0
  distinctCount : Int := 0
  numValues : Int := 0
  minValue : List UInt8 := []
  maxValue : List UInt8 := []
  deriving Repr, DecidableEq

/-- "Min/max values - prefer new format, fall back to deprecated" -/
def pickMinMax (p : PStats) : Option (List UInt8 × List UInt8) :=
  match present p.minValue, present p.maxValue with
  | some lo, some hi => some (lo, hi)
  | _, _ =>
    match present p.minDeprecated, present p.maxDeprecated with
    | some lo, some hi => some (lo, hi)
    | _, _ => none

def fillStats (m : ColMeta) : ColStats :=
  match m.statistics with
  | none => { numValues := m.numValues }
  | some p =>
    { numValues := m.numValues
      hasNullCount := p.nullCount.isSome
      nullCount := p.nullCount.getD 0
      hasDistinctCount := p.distinctCount.isSome
      distinctCount := p.distinctCount.getD 0
      hasMinMax := (pickMinMax p).isSome
      minValue := match pickMinMax p with | some mm => mm.1 | none => []
      maxValue := match pickMinMax p with | some mm => mm.2 | none => [] }

/-- `carquet_reader_column_statistics` (on an error the output struct is not meaningful; the
model returns the zeroed one) -/
def columnStatistics (r : Reader) (rg col : Int) : Status × ColStats :=
  if rg < 0 ∨ rg ≥ r.rowGroups.length then (.rowGroupNotFound, {})
  else if col < 0 ∨ col ≥ r.leaves.length then (.columnNotFound, {})
  else
    match r.rowGroups[rg.toNat]? with
    | none => (.rowGroupNotFound, {})
    | some g =>
      match g.columns[col.toNat]? with
      | none => (.columnNotFound, {})          -- `column_index >= rg->num_columns`
      | some ch =>
        match ch.metaData with
        | none => (.ok, {})
        | some m => (.ok, fillStats m)

/-- `elem->has_type ? elem->type : CARQUET_PHYSICAL_BYTE_ARRAY` -/
def leafType (r : Reader) (col : Int) : PType :=
  match r.leaves[col.toNat]? with
  | some (some t) => t
  | _ => .byteArray

/-- `get_compare_fn` ≠ NULL together with `get_compare_width` (F19b, F19c): the width a typed
comparison reads, `none` = byte comparison -/
def cmpWidth : PType → Option Nat
  | .boolean => some 1 | .int32 => some 4 | .int64 => some 8 | .int96 => some 12
  | .float => some 4 | .double => some 8
  | .byteArray => none | .flba => none

/-- the function `get_compare_fn` returns (after F19b, F19c) -/
def cmpReader : PType → List UInt8 → List UInt8 → Int
  | .boolean, a, b => cmpBool a b
  | .int32, a, b => cmpI32 a b
  | .int64, a, b => cmpI64 a b
  | .int96, a, b => cmpI96 a b
  | .float, a, b => cmpFloatR f32 (readU 4 a) (readU 4 b)
  | .double, a, b => cmpFloatR f64 (readU 8 a) (readU 8 b)
  | .byteArray, a, b => cmpBytes a b
  | .flba, a, b => cmpBytes a b

/-- `is_nan_value` (F19a) -/
def isNanValue : PType → List UInt8 → Bool
  | .float, v => fNan f32 (readU 4 v)
  | .double, v => fNan f64 (readU 8 v)
  | _, _ => false

/-- the `switch (op)` of `carquet_reader_row_group_matches`: might_match from the two
comparisons of the probe with min and with max -/
def opTable : Op → Int → Int → Bool
  | .eq, cmin, cmax => !(decide (cmin < 0) || decide (cmax > 0))
  | .ne, cmin, cmax => !(decide (cmin = 0) && decide (cmax = 0))
  | .lt, cmin, _ => !decide (cmin ≤ 0)
  | .le, cmin, _ => !decide (cmin < 0)
  | .gt, _, cmax => !decide (cmax ≥ 0)
  | .ge, _, cmax => !decide (cmax > 0)

/-- the part of `carquet_reader_row_group_matches` after the statistics were fetched -/
def decideMatch (t : PType) (op : Op) (value : List UInt8) (st : ColStats) : Bool :=
  match cmpWidth t with
  | some w =>
      if value.length ≠ w ∨ st.minValue.length ≠ w ∨ st.maxValue.length ≠ w then true
      else if isNanValue t value ∨ isNanValue t st.minValue ∨ isNanValue t st.maxValue then true
      else opTable op (cmpReader t value st.minValue) (cmpReader t value st.maxValue)
  | none => opTable op (cmpBytes value st.minValue) (cmpBytes value st.maxValue)

/-- `carquet_reader_row_group_matches`: status and `*might_match` (true on every error path) -/
def rowGroupMatches (r : Reader) (rg col : Int) (op : Op) (value : List UInt8) : Status × Bool :=
  match columnStatistics r rg col with
  | (.ok, st) => if st.hasMinMax = false then (.ok, true) else (.ok, decideMatch (leafType r col) op value st)
  | (s, _) => (s, true)

/-! ### the reader before F19a/b/c -/

/-- BOOLEAN went to `compare_int32`; INT96 had no typed comparator -/
def cmpWidthPreFix : PType → Option Nat
  | .boolean => some 4 | .int32 => some 4 | .int64 => some 8
  | .float => some 4 | .double => some 8
  | .int96 => none | .byteArray => none | .flba => none

def cmpReaderPreFix : PType → List UInt8 → List UInt8 → Int
  | .boolean, a, b => cmpI32 a b
  | .int96, a, b => cmpBytes a b
  | t, a, b => cmpReader t a b

/-- no size check and no NaN check: a typed comparison of a probe or bound shorter than the
width it reads is an out-of-bounds read -/
def decideMatchPreFix (t : PType) (op : Op) (value : List UInt8) (st : ColStats) : Except Fault Bool :=
  match cmpWidthPreFix t with
  | some w =>
      if value.length < w ∨ st.minValue.length < w ∨ st.maxValue.length < w then .error .overread
      else .ok (opTable op (cmpReaderPreFix t value st.minValue) (cmpReaderPreFix t value st.maxValue))
  | none => .ok (opTable op (cmpBytes value st.minValue) (cmpBytes value st.maxValue))

def rowGroupMatchesPreFix (r : Reader) (rg col : Int) (op : Op) (value : List UInt8) :
    Except Fault (Status × Bool) :=
  match columnStatistics r rg col with
  | (.ok, st) =>
      if st.hasMinMax = false then .ok (.ok, true)
      else (decideMatchPreFix (leafType r col) op value st).map (fun b => (.ok, b))
  | (s, _) => .ok (s, true)

/-! ### filter_row_groups -/

/-- the `for` loop: `i` runs over the row group indices while fewer than `max` were written -/
def filterLoop (pred : Nat → Bool) (max : Nat) : List Nat → List Nat → List Nat
  | [], acc => acc
  | i :: is, acc =>
      if acc.length < max then
        (if pred i then filterLoop pred max is (acc ++ [i]) else filterLoop pred max is acc)
      else acc

/-- loop body: "On error, include row group (conservative)" -/
def groupPred (r : Reader) (col : Int) (op : Op) (value : List UInt8) (i : Nat) : Bool :=
  match rowGroupMatches r (i : Int) col op value with
  | (.ok, b) => b
  | (_, _) => true

/-- `carquet_reader_filter_row_groups`: return value and the indices written -/
def filterRowGroups (r : Reader) (col : Int) (op : Op) (value : List UInt8) (maxIdx : Int) :
    Int × List Nat :=
  if maxIdx ≤ 0 then (-1, [])
  else
    (((filterLoop (groupPred r col op value) maxIdx.toNat (List.range r.rowGroups.length) []).length : Nat),
     filterLoop (groupPred r col op value) maxIdx.toNat (List.range r.rowGroups.length) [])

/-! ## Column index builder and page filter (metadata/page_index.c) -/

/-- one page of `carquet_column_index_builder`: `minV = none` when `min_values[i] == NULL` -/
structure PageEntry where
  nullCount : Int
  minV : Option (List UInt8)
  maxV : Option (List UInt8)
  nullPage : Bool
  deriving Repr, DecidableEq

structure ColumnIndex where
  type : PType
  typeLength : Int
  pages : List PageEntry := []
  deriving Repr

/-- `carquet_column_index_add_page` (`min_value && min_value_len > 0`, allocation succeeds) -/
def addPage (ci : ColumnIndex) (nullCount : Int) (minV maxV : Option (List UInt8)) (isNull : Bool) :
    Status × ColumnIndex :=
  (.ok, { ci with pages := ci.pages ++ [{ nullCount := nullCount, minV := present minV,
                                          maxV := present maxV, nullPage := isNull }] })

/-- `fixed_width` (F18d) -/
def fixedWidth : PType → Nat
  | .boolean => 1 | .int32 => 4 | .int64 => 8 | .int96 => 12 | .float => 4 | .double => 8
  | .byteArray => 0 | .flba => 0

/-- can the stored bound be compared: `width == 0 || len == width` -/
def boundUsable (t : PType) (b : List UInt8) : Bool := fixedWidth t = 0 || b.length = fixedWidth t

/-- body of `carquet_column_index_page_might_match` for one page (after F18d).  The probes
are the `value_len` bytes at `min_value` / `max_value`. -/
def pageDecide (t : PType) (p : PageEntry) (qmin qmax : Option (List UInt8)) : Bool :=
  if p.nullPage then false
  else
    match qmax, p.minV with
    | some q, some lo =>
        if boundUsable t lo ∧ cmpTyped t q lo < 0 then false
        else
          match qmin, p.maxV with
          | some q', some hi => if boundUsable t hi ∧ cmpTyped t q' hi > 0 then false else true
          | _, _ => true
    | _, _ =>
        match qmin, p.maxV with
        | some q', some hi => if boundUsable t hi ∧ cmpTyped t q' hi > 0 then false else true
        | _, _ => true

/-- before F18d: `memcmp` + length tie-break whatever the type (that is `cmpBytes`) -/
def pageDecidePreFix (p : PageEntry) (qmin qmax : Option (List UInt8)) : Bool :=
  if p.nullPage then false
  else
    match qmax, p.minV with
    | some q, some lo =>
        if cmpBytes q lo < 0 then false
        else
          match qmin, p.maxV with
          | some q', some hi => if cmpBytes q' hi > 0 then false else true
          | _, _ => true
    | _, _ =>
        match qmin, p.maxV with
        | some q', some hi => if cmpBytes q' hi > 0 then false else true
        | _, _ => true

/-- `carquet_column_index_page_might_match` -/
def pageMightMatch (ci : ColumnIndex) (pageIdx : Int) (qmin qmax : Option (List UInt8)) : Status × Bool :=
  if pageIdx < 0 ∨ pageIdx ≥ ci.pages.length then (.invalidArgument, true)
  else
    match ci.pages[pageIdx.toNat]? with
    | none => (.invalidArgument, true)
    | some p => (.ok, pageDecide ci.type p qmin qmax)

def pageMightMatchPreFix (ci : ColumnIndex) (pageIdx : Int) (qmin qmax : Option (List UInt8)) : Status × Bool :=
  if pageIdx < 0 ∨ pageIdx ≥ ci.pages.length then (.invalidArgument, true)
  else
    match ci.pages[pageIdx.toNat]? with
    | none => (.invalidArgument, true)
    | some p => (.ok, pageDecidePreFix p qmin qmax)

/-! ## What a history of calls means (used by the property statements)

The rows a call contributes are those of a call that returned OK; a refused call leaves the
builder / writer untouched and contributes nothing. -/

open Carquet.Spec.Order (Row Stats)

/-- rows contributed by one builder call made in state `b` -/
def rowsOfOp (b : Builder) : BOp → List Row
  | .nulls c => List.replicate c.toNat none
  | .values d n =>
      if (addValues b d n).1 = .ok then (slices (valueSize b.type b.typeLength) n.toNat d).map some else []
  | .byteArrays vs => if (addByteArrays b vs).1 = .ok then vs.map some else []

/-- all rows a history of builder calls describes -/
def rowsOf (b : Builder) : List BOp → List Row
  | [] => []
  | o :: os => rowsOfOp b o ++ rowsOf (runOp b o).2 os

/-- the only requirement on a history: null counts are not negative -/
def WfOp : BOp → Prop
  | .nulls c => 0 ≤ c
  | _ => True

/-- the min / max / null_count a Statistics struct carries -/
def toStats (p : PStats) : Stats := { min := p.minValue, max := p.maxValue, nullCount := p.nullCount }

/-- a page-writer batch is well formed when the caller passes one definition level per row -/
def WfBatch (b : Batch) : Prop :=
  match b.defs with
  | some d => d.length = b.numValues
  | none => True

/-- dense values placed at the rows whose definition level is the maximum -/
def placeRows (maxDef : Int) : List Int → List (List UInt8) → List Row
  | [], _ => []
  | d :: ds, vals =>
    if d = maxDef then
      match vals with
      | v :: vs => some v :: placeRows maxDef ds vs
      | [] => none :: placeRows maxDef ds []
    else none :: placeRows maxDef ds vals

/-- logical rows of one batch written to a page writer of type `t` -/
def batchRows (w : PageW) (bt : Batch) : List Row :=
  match bt.defs with
  | some d =>
      if w.maxDef > 0 then placeRows w.maxDef (d.take bt.numValues) (slices (pwWidth w.type) (numNonNull w bt) bt.data)
      else (slices (pwWidth w.type) bt.numValues bt.data).map some
  | none => (slices (pwWidth w.type) bt.numValues bt.data).map some

/-- rows of a history of batches -/
def pwRows (w : PageW) : List Batch → List Row
  | [] => []
  | b :: bs => batchRows w b ++ pwRows (pwAdd w b).2 bs

/-- statistics the page writer hands out / writes into the page header -/
def pwStats (w : PageW) : Stats :=
  match pwGetStatistics w with
  | some (mn, mx, _, nc) => { min := some mn, max := some mx, nullCount := some nc }
  | none => {}

end Carquet.Impl.Stats
