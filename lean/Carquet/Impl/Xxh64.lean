import Carquet.Gen.Constants
/-
Model of src/util/xxhash.c (`carquet_xxhash64`).  Fidelity: exact — same helper functions, same
loops, same order of operations, 64-bit wrap-around arithmetic (`BitVec 64`).

Pointers: the C function walks a pointer `p` from `data` to `end = data + length`.  The model
carries the bytes `[p, end)` that are still ahead of `p` as a list; "`p + k <= end`" is "the
list has at least `k` elements", which is what the cons-patterns below test, and `p += k` drops
`k` elements.  A read through `p` therefore never goes past `end` by construction; that the C
code does not either is observed by the harness (exact-size buffers under ASan).
-/
namespace Carquet.Impl.Xxh64
open Carquet

/-- `XXH_PRIME64_1 … 5`, re-extracted from the source on every run (`Gen/Constants`). -/
def prime1 : BitVec 64 := BitVec.ofNat 64 Gen.xxhPrime1
def prime2 : BitVec 64 := BitVec.ofNat 64 Gen.xxhPrime2
def prime3 : BitVec 64 := BitVec.ofNat 64 Gen.xxhPrime3
def prime4 : BitVec 64 := BitVec.ofNat 64 Gen.xxhPrime4
def prime5 : BitVec 64 := BitVec.ofNat 64 Gen.xxhPrime5

/-- `xxh64_rotl(x, r) = (x << r) | (x >> (64 - r))` (called with `0 < r < 64` only). -/
def rotl (x : BitVec 64) (r : Nat) : BitVec 64 := (x <<< r) ||| (x >>> (64 - r))

/-- `xxh64_round` -/
def round (acc input : BitVec 64) : BitVec 64 :=
  rotl (acc + input * prime2) 31 * prime1

/-- `xxh64_merge_round` -/
def mergeRound (acc val : BitVec 64) : BitVec 64 :=
  (acc ^^^ round 0#64 val) * prime1 + prime4

/-- `(uint64_t)p[i]` -/
def u64 (b : UInt8) : BitVec 64 := b.toBitVec.setWidth 64

/-- `read64_le(p)` on the eight bytes at `p`. -/
def read64le (b0 b1 b2 b3 b4 b5 b6 b7 : UInt8) : BitVec 64 :=
  u64 b0 ||| (u64 b1 <<< 8) ||| (u64 b2 <<< 16) ||| (u64 b3 <<< 24) |||
  (u64 b4 <<< 32) ||| (u64 b5 <<< 40) ||| (u64 b6 <<< 48) ||| (u64 b7 <<< 56)

/-- `(uint32_t)p[i]` -/
def u32 (b : UInt8) : BitVec 32 := b.toBitVec.setWidth 32

/-- `read32_le(p)` on the four bytes at `p` (a `uint32_t`). -/
def read32le (b0 b1 b2 b3 : UInt8) : BitVec 32 :=
  u32 b0 ||| (u32 b1 <<< 8) ||| (u32 b2 <<< 16) ||| (u32 b3 <<< 24)

/-- The four lane accumulators `v1 … v4`. -/
structure V4 where
  v1 : BitVec 64
  v2 : BitVec 64
  v3 : BitVec 64
  v4 : BitVec 64
deriving DecidableEq, Repr

/-- Loop skeleton `while (p + 32 <= end) { s = body(s, p[0..31]); p += 32; }` over the bytes
ahead of `p`; returns the state and the bytes still ahead of `p`.  (The skeletons are generic in
the body so that the recursive definitions contain no 64-bit constants.) -/
def while32 {σ : Type} (body : σ → UInt8 → UInt8 → UInt8 → UInt8 → UInt8 → UInt8 → UInt8 → UInt8 → UInt8 → UInt8 → UInt8 → UInt8 → UInt8 → UInt8 → UInt8 → UInt8 → UInt8 → UInt8 → UInt8 → UInt8 → UInt8 → UInt8 → UInt8 → UInt8 → UInt8 → UInt8 → UInt8 → UInt8 → UInt8 → UInt8 → UInt8 → UInt8 → σ) : σ → List UInt8 → σ × List UInt8
  | s, b0 :: b1 :: b2 :: b3 :: b4 :: b5 :: b6 :: b7 :: b8 :: b9 :: b10 :: b11 :: b12 :: b13 :: b14 :: b15 :: b16 :: b17 :: b18 :: b19 :: b20 :: b21 :: b22 :: b23 :: b24 :: b25 :: b26 :: b27 :: b28 :: b29 :: b30 :: b31 :: rest =>
      while32 body (body s b0 b1 b2 b3 b4 b5 b6 b7 b8 b9 b10 b11 b12 b13 b14 b15 b16 b17 b18 b19 b20 b21 b22 b23 b24 b25 b26 b27 b28 b29 b30 b31) rest
  | s, short => (s, short)

/-- Loop skeleton `while (p + 8 <= end) { s = body(s, p[0..7]); p += 8; }`. -/
def while8 {σ : Type} (body : σ → UInt8 → UInt8 → UInt8 → UInt8 → UInt8 → UInt8 → UInt8 → UInt8 → σ) :
    σ → List UInt8 → σ × List UInt8
  | s, b0 :: b1 :: b2 :: b3 :: b4 :: b5 :: b6 :: b7 :: rest =>
      while8 body (body s b0 b1 b2 b3 b4 b5 b6 b7) rest
  | s, short => (s, short)

/-- Loop skeleton `while (p < end) { s = body(s, *p); p++; }`. -/
def while1 {σ : Type} (body : σ → UInt8 → σ) : σ → List UInt8 → σ
  | s, b :: rest => while1 body (body s b) rest
  | s, [] => s

/-- body of the stripe loop:
`v1 = round(v1, read64_le(p)); p += 8; v2 = …; p += 8; v3 = …; p += 8; v4 = …; p += 8;` -/
def stripeBody (v : V4) (b0 b1 b2 b3 b4 b5 b6 b7 b8 b9 b10 b11 b12 b13 b14 b15 b16 b17 b18 b19 b20 b21 b22 b23 b24 b25 b26 b27 b28 b29 b30 b31 : UInt8) : V4 :=
  ⟨round v.v1 (read64le b0 b1 b2 b3 b4 b5 b6 b7), round v.v2 (read64le b8 b9 b10 b11 b12 b13 b14 b15),
   round v.v3 (read64le b16 b17 b18 b19 b20 b21 b22 b23), round v.v4 (read64le b24 b25 b26 b27 b28 b29 b30 b31)⟩

/-- The loop `do { … } while (p <= limit)` with `limit = end - 32`.  The C code enters it only
under `if (length >= 32)`, so the first test of `p <= limit` (i.e. "32 more bytes ahead of `p`")
would succeed as well and the do-while coincides with the while-loop on the same condition.
Returns the accumulators and the bytes still ahead of `p`. -/
def stripeLoop (v : V4) (p : List UInt8) : V4 × List UInt8 := while32 stripeBody v p

/-- the four `xxh64_merge_round` calls after the loop -/
def mergeAll (v : V4) : BitVec 64 :=
  mergeRound (mergeRound (mergeRound (mergeRound
    (rotl v.v1 1 + rotl v.v2 7 + rotl v.v3 12 + rotl v.v4 18) v.v1) v.v2) v.v3) v.v4

/-- body of `while (p + 8 <= end)`: `k1 = round(0, read64_le(p)); h64 ^= k1; h64 = rotl(h64,27)*P1 + P4; p += 8;` -/
def tail8Body (h : BitVec 64) (b0 b1 b2 b3 b4 b5 b6 b7 : UInt8) : BitVec 64 :=
  rotl (h ^^^ round 0#64 (read64le b0 b1 b2 b3 b4 b5 b6 b7)) 27 * prime1 + prime4

/-- `while (p + 8 <= end) { … }` -/
def tail8 (h : BitVec 64) (p : List UInt8) : BitVec 64 × List UInt8 := while8 tail8Body h p

/-- body of `if (p + 4 <= end)`: `h64 ^= (uint64_t)read32_le(p) * P1; h64 = rotl(h64,23)*P2 + P3; p += 4;` -/
def tail4Body (h : BitVec 64) (b0 b1 b2 b3 : UInt8) : BitVec 64 :=
  rotl (h ^^^ (read32le b0 b1 b2 b3).setWidth 64 * prime1) 23 * prime2 + prime3

/-- `if (p + 4 <= end) { … }` -/
def tail4 : BitVec 64 → List UInt8 → BitVec 64 × List UInt8
  | h, b0 :: b1 :: b2 :: b3 :: rest => (tail4Body h b0 b1 b2 b3, rest)
  | h, short => (h, short)

/-- body of `while (p < end)`: `h64 ^= (uint64_t)(*p) * P5; h64 = rotl(h64,11)*P1; p++;` -/
def tail1Body (h : BitVec 64) (b : UInt8) : BitVec 64 :=
  rotl (h ^^^ u64 b * prime5) 11 * prime1

/-- `while (p < end) { … }` -/
def tail1 (h : BitVec 64) (p : List UInt8) : BitVec 64 := while1 tail1Body h p

/-- "Final mix" -/
def finalMix (h : BitVec 64) : BitVec 64 :=
  ((((h ^^^ (h >>> 33)) * prime2) ^^^ (((h ^^^ (h >>> 33)) * prime2) >>> 29)) * prime3) ^^^
  (((((h ^^^ (h >>> 33)) * prime2) ^^^ (((h ^^^ (h >>> 33)) * prime2) >>> 29)) * prime3) >>> 32)

/-- the `if (length >= 32) { … } else { h64 = seed + P5; }` part: `h64` and the bytes ahead of `p` -/
def start (data : List UInt8) (seed : BitVec 64) : BitVec 64 × List UInt8 :=
  if 32 ≤ data.length then
    (mergeAll (stripeLoop ⟨seed + prime1 + prime2, seed + prime2, seed + 0#64, seed - prime1⟩ data).1,
     (stripeLoop ⟨seed + prime1 + prime2, seed + prime2, seed + 0#64, seed - prime1⟩ data).2)
  else (seed + prime5, data)

/-- everything after `h64 += (uint64_t)length` -/
def finish (h : BitVec 64) (p : List UInt8) : BitVec 64 :=
  finalMix (tail1 (tail4 (tail8 h p).1 (tail8 h p).2).1 (tail4 (tail8 h p).1 (tail8 h p).2).2)

/-- `carquet_xxhash64(data, length, seed)`; `length` is `data.length` (a `size_t`, converted to
`uint64_t` — the same width on this platform). -/
def xxh64 (data : List UInt8) (seed : BitVec 64) : BitVec 64 :=
  finish ((start data seed).1 + BitVec.ofNat 64 data.length) (start data seed).2

end Carquet.Impl.Xxh64
