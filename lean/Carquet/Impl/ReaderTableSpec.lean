import Carquet.Impl.Reader
import Carquet.Spec.File.Write
/-
How carquet hands out the content of a table of the Spec (`Spec.File.Table`: schema tree + per row
group, per leaf column, the entries `(repetition level, definition level, optional value)`):

* `carquet_reader_num_rows`: the sum of the row groups' `num_rows`, which for a specification-following
  file is the number of rows of the first column of each group (`Spec.File.groupRows`: entries for a
  column without repeated ancestors, entries with repetition level 0 otherwise);
* per row group, per leaf column (`carquet_column_read_batch` on the column reader of the chunk): one
  definition level per entry, one repetition level per entry, and the DENSE array of the values of the
  entries that carry one (definition level = maximum), as the bytes PLAIN stores for them (BOOLEAN: one
  byte 0/1; BYTE_ARRAY: the content the pointer/length pair designates).

`readerTableOfSpec` is the right-hand side of `C06_impl_reads_reference`
(Properties/C06/ImplReads.lean) and what the driver's `refread` verdict renders the real reader's
output against (Driver/Ops/RefRead.lean).  `Impl.Reader.Table` carries definition levels and values
(`readAll` passes a `def_levels` array and no `rep_levels` array, as harness/ops_file.c does); the
repetition levels of the same reads are `readerRepsOfSpec` (theorem `C06_impl_reads_reference_levels`).
-/
namespace Carquet.Impl.Reader

/-- one column chunk as the reader returns it: definition level per entry, dense values -/
def columnDataOfSpec (es : Carquet.Spec.File.Chunk) : ColumnData := ⟨es.map (·.dl), es.filterMap (·.val)⟩

/-- the row groups of a Spec table as lists of `ColumnData` -/
def rowGroupsOfSpec (t : Carquet.Spec.File.Table) : List (List ColumnData) :=
  t.rowGroups.map (fun g => g.chunks.map columnDataOfSpec)

/-- `num_rows` of the footer a specification-following writer produces for the table -/
def numRowsOfSpec (t : Carquet.Spec.File.Table) : Nat :=
  match Carquet.Spec.File.columnsOf t.schema with
  | .error _ => 0
  | .ok leaves => (t.rowGroups.map (Carquet.Spec.File.groupRows leaves)).sum

/-- **a Spec table as carquet's reader hands it out** -/
def readerTableOfSpec (t : Carquet.Spec.File.Table) : Table := ⟨(numRowsOfSpec t : Int), rowGroupsOfSpec t⟩

/-- the repetition levels of the same reads: per row group, per leaf column, one per entry -/
def readerRepsOfSpec (t : Carquet.Spec.File.Table) : List (List (List Nat)) :=
  t.rowGroups.map (fun g => g.chunks.map (fun es => es.map (·.rep)))

end Carquet.Impl.Reader
