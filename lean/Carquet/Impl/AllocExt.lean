import Carquet.Impl.AllocFlow
/-
C19, second wave: structural models of the allocation-bearing code that carquet's own writer/reader
pair does not reach, plus a page-by-page model of the column reader (several pages per chunk, partial
progress, `carquet_column_skip`).

* metadata builders: Bloom filter (metadata/bloom_filter.c), statistics builder (metadata/statistics.c),
  column index / offset index builders (metadata/page_index.c).  The index builders own many heap blocks;
  their model tracks every pointer field as `null / live / dangling` and counts the live blocks
  (resources as data), so that "no use of a freed block, nothing leaked" is a statement about the model.
* reader: dictionary page load, data pages with dictionary indices, the decode buffers, the retired-page list,
  the page loop of `carquet_column_read_batch` and `carquet_column_skip`.  These functions return the reader
  state also when they fail (the client keeps using the handle), hence the shape `σ → Oracle → Status × σ × Oracle`.

`checked = false` mirrors the code before the repairs F20h (statistics_build), F20i (index builder growth),
F20j (index serialisers).
-/
namespace Carquet.Impl.Alloc.Ext
open Carquet.Impl.Alloc
open Carquet.Impl.Alloc.Flow
open Carquet.Impl.Alloc.Buffer (Buf)

/-! ## Schema builder: groups (src/metadata/schema.c) -/

/-- carquet_schema_add_group (root children only): room for one more element, a copy of the name; a group is not a
leaf.  The schema is returned also on failure (the caller keeps the handle). -/
def schemaAddGroupS (s : Schema) (name : List UInt8) (repetition : Nat) (o : Oracle) : Status × Schema × Oracle :=
  match schemaEnsureCapacityS s (s.elems.length + 1) o with
  | (.ok, s1, o1) =>
    match Arena.strdup s1.arena name.length 8 o1 with
    | (some _, ar', o2) => (.ok, { s1 with arena := ar', elems := s1.elems ++ [⟨some name, repetition⟩] }, o2)
    | (none, ar', o2) => (.oom, { s1 with arena := ar' }, o2)
  | (st, s1, o1) => (st, s1, o1)

/-! ## Bloom filter (src/metadata/bloom_filter.c) -/

/-- carquet_bloom_filter_create / _create_with_ndv / _from_data / _read: the struct, then the bit array; the struct
is freed again when the array cannot be had.  (insert / check / write / merge do not allocate.) -/
def bloomCreate : M Unit := M.bind req fun _ => req

/-! ## Statistics builder (src/metadata/statistics.c) -/

/-- carquet_statistics_builder_create -/
def statsBuilderCreate : M Unit := req

/-- one copy made by carquet_statistics_build: into the arena (carquet_arena_memdup) or with malloc -/
def statsCopy (ar : Option Arena.Arena) (len : Nat) : M (Option Arena.Arena × Bool) :=
  match ar with
  | some a => M.bind (arenaU a len 16) fun r => M.pure (some r.1, r.2)
  | none => M.bind reqU fun got => M.pure (none, got)

/-- what carquet_statistics_build hands out: is there a minimum, a maximum -/
structure BuiltStats where
  hasMin : Bool
  hasMax : Bool
deriving DecidableEq, Repr

/-- carquet_statistics_build for a builder that has a minimum of `minLen` and a maximum of `maxLen` bytes
(0: none).  `checked = false` is the code before F20h: a copy that cannot be made is silently left out and the
call reports OK. -/
def statisticsBuild (checked : Bool) (ar : Option Arena.Arena) (minLen maxLen : Nat) : M (Option Arena.Arena × BuiltStats) :=
  M.bind (if minLen > 0 then statsCopy ar minLen else M.pure (ar, false)) fun mn =>
  guardGot (checked && decide (minLen > 0)) mn.2 <|
  M.bind (if maxLen > 0 then statsCopy mn.1 maxLen else M.pure (mn.1, false)) fun mx =>
  guardGot (checked && decide (maxLen > 0)) mx.2 <|
  M.pure (mx.1, ⟨mn.2, mx.2⟩)

/-! ## Column index / offset index builders (src/metadata/page_index.c) -/

/-- a pointer field of a builder -/
inductive Ptr where
  | null
  | live        -- points to a block the builder owns
  | dangling    -- points to a block that has been freed (by a realloc that moved it)
deriving DecidableEq, Repr

/-- allocator bookkeeping: how many blocks are live, and whether a freed block was touched -/
structure Mem where
  liveBlocks : Nat
  crashed : Bool        -- free / realloc of a dangling pointer (double free, use after free)
deriving DecidableEq, Repr

/-- malloc / calloc -/
def mallocP (m : Mem) (o : Oracle) : Ptr × Mem × Oracle :=
  if o.grant then (.live, { m with liveBlocks := m.liveBlocks + 1 }, o.rest) else (.null, m, o.rest)

/-- free -/
def freeP (p : Ptr) (m : Mem) : Mem :=
  match p with
  | .null => m
  | .live => { m with liveBlocks := m.liveBlocks - 1 }
  | .dangling => { m with crashed := true }

/-- realloc(p, n): `some m'` = granted (the old block is gone, the result is a live block), `none` = refused
(the old block stays as it is).  A dangling argument is undefined behaviour. -/
def reallocP (p : Ptr) (m : Mem) (o : Oracle) : Bool × Mem × Oracle :=
  if o.grant then
    (true, (match p with
            | .null => { m with liveBlocks := m.liveBlocks + 1 }
            | .live => m
            | .dangling => { m with crashed := true }), o.rest)
  else (false, (match p with | .dangling => { m with crashed := true } | _ => m), o.rest)

/-- carquet_column_index_builder_t: the six parallel arrays (null_counts, min_values, min_value_lens, max_values,
max_value_lens, null_pages), the per-page copies of min and max, the capacity.  `num_pages = pages.length`. -/
structure ColIdx where
  arrays : List Ptr
  pages : List (Ptr × Ptr)
  capacity : Nat
deriving DecidableEq, Repr

/-- make `n` allocations in a row (all of them are requested before any is tested) -/
def mallocN : Nat → Mem → Oracle → List Ptr × Mem × Oracle
  | 0, m, o => ([], m, o)
  | n + 1, m, o => ((mallocP m o).1 :: (mallocN n (mallocP m o).2.1 (mallocP m o).2.2).1,
                    (mallocN n (mallocP m o).2.1 (mallocP m o).2.2).2)

def freeAll : List Ptr → Mem → Mem
  | [], m => m
  | p :: ps, m => freeAll ps (freeP p m)

/-- carquet_column_index_builder_destroy: the copies of the pages, the arrays, the builder itself -/
def colIdxDestroy (b : ColIdx) (m : Mem) : Mem :=
  freeP .live (freeAll b.arrays (freeAll (b.pages.map (·.2)) (freeAll (b.pages.map (·.1)) m)))

/-- carquet_column_index_builder_create: calloc of the builder, then six callocs tested together; on failure the
builder is destroyed (which frees the arrays that were obtained) and NULL is returned -/
def colIdxCreate (m : Mem) (o : Oracle) : Option ColIdx × Mem × Oracle :=
  if !o.grant then (none, m, o.rest)
  else
    if (mallocN 6 { m with liveBlocks := m.liveBlocks + 1 } o.rest).1.all (· == .live) then
      (some ⟨(mallocN 6 { m with liveBlocks := m.liveBlocks + 1 } o.rest).1, [], 16⟩,
       (mallocN 6 { m with liveBlocks := m.liveBlocks + 1 } o.rest).2.1, (mallocN 6 { m with liveBlocks := m.liveBlocks + 1 } o.rest).2.2)
    else
      (none, colIdxDestroy ⟨(mallocN 6 { m with liveBlocks := m.liveBlocks + 1 } o.rest).1, [], 16⟩
               (mallocN 6 { m with liveBlocks := m.liveBlocks + 1 } o.rest).2.1,
       (mallocN 6 { m with liveBlocks := m.liveBlocks + 1 } o.rest).2.2)

/-- ensure_capacity before F20i: every array is passed to realloc, the results are tested together, and on failure
*none* of them is stored: an array that realloc did move is left behind as a dangling pointer (and its new block is
lost).  Result: per array the new pointer state. -/
def growAllPreFix : List Ptr → Mem → Oracle → List (Ptr × Bool) × Mem × Oracle
  | [], m, o => ([], m, o)
  | p :: ps, m, o =>
    (((if (reallocP p m o).1 then Ptr.dangling else p), (reallocP p m o).1) ::
        (growAllPreFix ps (reallocP p m o).2.1 (reallocP p m o).2.2).1,
     (growAllPreFix ps (reallocP p m o).2.1 (reallocP p m o).2.2).2)

/-- ensure_capacity after F20i: one array after the other, each result stored at once, the first refusal returns.
Result: the arrays (those already regrown are live) and whether all were regrown. -/
def growSeq : List Ptr → Mem → Oracle → List Ptr × Bool × Mem × Oracle
  | [], m, o => ([], true, m, o)
  | p :: ps, m, o =>
    if (reallocP p m o).1 then
      (Ptr.live :: (growSeq ps (reallocP p m o).2.1 (reallocP p m o).2.2).1,
       (growSeq ps (reallocP p m o).2.1 (reallocP p m o).2.2).2)
    else (p :: ps, false, (reallocP p m o).2.1, (reallocP p m o).2.2)

/-- ensure_capacity of the column index builder -/
def colIdxEnsure (checked : Bool) (b : ColIdx) (m : Mem) (o : Oracle) : Status × ColIdx × Mem × Oracle :=
  if b.pages.length < b.capacity then (.ok, b, m, o)
  else if checked then
    (if (growSeq b.arrays m o).2.1 then
      (.ok, { b with arrays := (growSeq b.arrays m o).1, capacity := b.capacity * 2 }, (growSeq b.arrays m o).2.2)
     else (.oom, { b with arrays := (growSeq b.arrays m o).1 }, (growSeq b.arrays m o).2.2))
  else
    (if (growAllPreFix b.arrays m o).1.all (·.2) then
      (.ok, { b with arrays := b.arrays.map (fun _ => Ptr.live), capacity := b.capacity * 2 }, (growAllPreFix b.arrays m o).2)
     else
      -- the new blocks of the arrays that did move are lost, the builder keeps the stale pointers
      (.oom, { b with arrays := (growAllPreFix b.arrays m o).1.map (·.1) }, (growAllPreFix b.arrays m o).2))

/-- carquet_column_index_add_page (`hasMin` / `hasMax`: the page carries a minimum / maximum to be copied) -/
def colIdxAddPage (checked : Bool) (b : ColIdx) (hasMin hasMax : Bool) (m : Mem) (o : Oracle) : Status × ColIdx × Mem × Oracle :=
  match colIdxEnsure checked b m o with
  | (.ok, b1, m1, o1) =>
    if hasMin && (mallocP m1 o1).1 != .live then (.oom, b1, (mallocP m1 o1).2)
    else
      -- (mn, m2, o2): state after the copy of the minimum
      (fun (r : Ptr × Mem × Oracle) =>
        if hasMax && (mallocP r.2.1 r.2.2).1 != .live then
          (Status.oom, b1, freeP r.1 (mallocP r.2.1 r.2.2).2.1, (mallocP r.2.1 r.2.2).2.2)     -- free(min_values[idx])
        else if hasMax then
          (.ok, { b1 with pages := b1.pages ++ [(r.1, Ptr.live)] }, (mallocP r.2.1 r.2.2).2)
        else (.ok, { b1 with pages := b1.pages ++ [(r.1, Ptr.null)] }, r.2))
      (if hasMin then mallocP m1 o1 else (Ptr.null, m1, o1))
  | (st, b1, m1, o1) => (st, b1, m1, o1)

/-- a client that adds pages until a call fails (what the harness does), then destroys the builder.
Result: the statuses of the calls made, the final bookkeeping, the rest of the oracle. -/
def colIdxSession (checked : Bool) : List (Bool × Bool) → ColIdx → Mem → Oracle → List Status × Mem × Oracle
  | [], b, m, o => ([], colIdxDestroy b m, o)
  | pg :: pgs, b, m, o =>
    match colIdxAddPage checked b pg.1 pg.2 m o with
    | (.ok, b1, m1, o1) =>
      (Status.ok :: (colIdxSession checked pgs b1 m1 o1).1, (colIdxSession checked pgs b1 m1 o1).2)
    | (st, b1, m1, o1) => ([st], colIdxDestroy b1 m1, o1)

/-- carquet_offset_index_builder_t: offsets, compressed_sizes, first_row_indices and (optionally) uncompressed_sizes -/
structure OffIdx where
  arrays : List Ptr          -- the three mandatory arrays
  unc : Ptr                  -- uncompressed_sizes (null when not tracked)
  track : Bool
  numPages : Nat
  capacity : Nat
deriving DecidableEq, Repr

def offIdxDestroy (b : OffIdx) (m : Mem) : Mem := freeP .live (freeP b.unc (freeAll b.arrays m))

/-- carquet_offset_index_builder_create -/
def offIdxCreate (track : Bool) (m : Mem) (o : Oracle) : Option OffIdx × Mem × Oracle :=
  if !o.grant then (none, m, o.rest)
  else
    (fun (r : List Ptr × Mem × Oracle) (u : Ptr × Mem × Oracle) =>
      if r.1.all (· == .live) && (!track || u.1 == .live) then (some ⟨r.1, u.1, track, 0, 16⟩, u.2)
      else (none, offIdxDestroy ⟨r.1, u.1, track, 0, 16⟩ u.2.1, u.2.2))
    (mallocN 3 { m with liveBlocks := m.liveBlocks + 1 } o.rest)
    (if track then mallocP (mallocN 3 { m with liveBlocks := m.liveBlocks + 1 } o.rest).2.1 (mallocN 3 { m with liveBlocks := m.liveBlocks + 1 } o.rest).2.2
     else (Ptr.null, (mallocN 3 { m with liveBlocks := m.liveBlocks + 1 } o.rest).2))

/-- the part of an ensure-capacity function that regrows a group of arrays tested together (before F20i) or one by
one (after it) -/
def growArrays (checked : Bool) (arrays : List Ptr) (m : Mem) (o : Oracle) : Status × List Ptr × Mem × Oracle :=
  if checked then
    (if (growSeq arrays m o).2.1 then (Status.ok, (growSeq arrays m o).1, (growSeq arrays m o).2.2)
     else (Status.oom, (growSeq arrays m o).1, (growSeq arrays m o).2.2))
  else
    (if (growAllPreFix arrays m o).1.all (·.2) then (Status.ok, arrays.map (fun _ => Ptr.live), (growAllPreFix arrays m o).2)
     else (Status.oom, (growAllPreFix arrays m o).1.map (·.1), (growAllPreFix arrays m o).2))

/-- offset_ensure_capacity when the capacity is reached: the three mandatory arrays, then (if tracked) the
uncompressed sizes, each realloc of which is stored at once; `capacity` is raised last -/
def offIdxGrow (checked : Bool) (b : OffIdx) (m : Mem) (o : Oracle) : Status × OffIdx × Mem × Oracle :=
  match growArrays checked b.arrays m o with
  | (.ok, arrs, m1, o1) =>
    if b.track then
      (if (reallocP b.unc m1 o1).1 then
         (.ok, { b with arrays := arrs, unc := Ptr.live, capacity := b.capacity * 2 }, (reallocP b.unc m1 o1).2)
       else (.oom, { b with arrays := arrs }, (reallocP b.unc m1 o1).2))
    else (.ok, { b with arrays := arrs, capacity := b.capacity * 2 }, m1, o1)
  | (st, arrs, m1, o1) => (st, { b with arrays := arrs }, m1, o1)

/-- carquet_offset_index_add_page (the page itself needs no allocation) -/
def offIdxAddPage (checked : Bool) (b : OffIdx) (m : Mem) (o : Oracle) : Status × OffIdx × Mem × Oracle :=
  if b.numPages < b.capacity then (.ok, { b with numPages := b.numPages + 1 }, m, o)
  else
    match offIdxGrow checked b m o with
    | (.ok, b1, m1, o1) => (.ok, { b1 with numPages := b1.numPages + 1 }, m1, o1)
    | r => r

def offIdxSession (checked : Bool) : Nat → OffIdx → Mem → Oracle → List Status × Mem × Oracle
  | 0, b, m, o => ([], offIdxDestroy b m, o)
  | n + 1, b, m, o =>
    match offIdxAddPage checked b m o with
    | (.ok, b1, m1, o1) => (Status.ok :: (offIdxSession checked n b1 m1 o1).1, (offIdxSession checked n b1 m1 o1).2)
    | (st, b1, m1, o1) => ([st], offIdxDestroy b1 m1, o1)

/-- carquet_column_index_serialize / carquet_offset_index_serialize: a Thrift encoder writes into the caller's
buffer; after F20j the encoder's latch is the return value, before it the call returned OK regardless. -/
def indexSerialize (checked : Bool) (out : Buf) (chunks : List (List UInt8)) : M Buf :=
  if checked then encodeChecked out chunks else encodeUnchecked out chunks

/-! ## Column reader, page by page (src/reader/page_reader.c, src/reader/column_reader.c) -/

/-- what the loader needs to know about a page -/
structure PageD where
  rows : Nat                 -- num_values of the page header
  nonNull : Nat              -- values actually stored (dictionary indices to decode)
  dictEncoded : Bool         -- RLE_DICTIONARY / PLAIN_DICTIONARY
deriving DecidableEq, Repr

/-- what is fixed for a column chunk -/
structure ChunkD where
  mode : IoMode
  compressed : Bool          -- codec ≠ UNCOMPRESSED
  zeroCopy : Bool            -- uncompressed ∧ fixed width ∧ no levels: PLAIN pages are views (mmap / buffer modes)
  byteArray : Bool           -- BYTE_ARRAY (PLAIN pages of such a column are retained)
  dict : Bool                -- has_dictionary_page_offset
  dictAtData : Bool := false -- no dictionary_page_offset, but the page at data_page_offset is a dictionary page
deriving DecidableEq, Repr

/-- carquet_column_reader_t, as far as page loading is concerned -/
structure CR where
  capacity : Nat             -- decoded_capacity
  view : Bool                -- decoded_ownership = VIEW
  loaded : Bool              -- page_loaded
  pageRows : Nat             -- page_num_values
  pageRead : Nat             -- page_values_read
  remaining : Nat            -- values_remaining
  hasDict : Bool             -- has_dictionary
  indicesCap : Nat           -- indices_capacity
  retiredNum : Nat           -- num_retired_page_data
  retiredCap : Nat           -- retired_page_data_capacity
  hasPageData : Bool         -- page_data_for_values ≠ NULL
  hasWindow : Bool := false  -- page_buffer holds the 256-byte page header window (fread path)
deriving DecidableEq, Repr

/-- carquet_reader_get_column (one calloc) -/
def CR.fresh (rows : Nat) : CR := ⟨0, false, false, 0, 0, rows, false, 0, 0, 0, false, false⟩

/-- a step of the loader: may fail, always returns the reader state -/
abbrev Step := CR → Oracle → Status × CR × Oracle

def Step.andThen (a b : Step) : Step := fun s o =>
  match a s o with
  | (.ok, s', o') => b s' o'
  | r => r

def Step.skip : Step := fun s o => (.ok, s, o)

/-- a state update that cannot fail -/
def Step.map (f : CR → CR) : Step := fun s o => (.ok, f s, o)

/-- steps in sequence; the first failure returns -/
def Step.seq : List Step → Step
  | [] => Step.skip
  | a :: as => Step.andThen a (Step.seq as)

/-- `n` requests made in a row and tested together; `onOk` / `onFail` say what the reader state becomes -/
def Step.reqN (n : Nat) (onOk onFail : CR → CR) : Step := fun s o =>
  if (o.take n).all id then (.ok, onOk s, o.drop n) else (.oom, onFail s, o.drop n)

/-- one checked request -/
def Step.req1 (onOk onFail : CR → CR) : Step := Step.reqN 1 onOk onFail

def Step.when (c : Bool) (a : Step) : Step := if c then a else Step.skip

/-- carquet_read_dictionary_page: BYTE_ARRAY dictionaries are copied and get an offset table (second malloc, the
copy is freed again if it fails), fixed-width dictionaries are copied -/
def readDictionaryPage (c : ChunkD) : Step :=
  Step.seq [Step.req1 id id, Step.when c.byteArray (Step.req1 id id), Step.map (fun s => { s with hasDict := true })]

/-- read_page_header_fread: the page header is read through a window kept in `reader->page_buffer`, (re)allocated when
it is smaller than the window (256 bytes; headers of the modelled files are shorter, so the window never doubles) -/
def headerWindow (c : ChunkD) : Step := fun s o =>
  if c.mode = .fread && !s.hasWindow then Step.req1 (fun s => { s with hasWindow := true }) id s o else (.ok, s, o)

/-- load_dictionary_page_fread / _mmap -/
def loadDictionaryPage (c : ChunkD) : Step :=
  Step.seq [headerWindow c,
            Step.when (c.mode = .fread) (Step.req1 id id),          -- malloc(compressed_page_size)
            Step.when c.compressed (Step.req1 id id),               -- malloc(uncompressed_page_size)
            readDictionaryPage c]

/-- "Load dictionary if needed" at the head of load_next_page_* -/
def dictIfNeeded (c : ChunkD) : Step := fun s o =>
  if c.dict && !s.hasDict then loadDictionaryPage c s o else (.ok, s, o)

/-- the first page of the chunk turns out to be a dictionary page (no dictionary_page_offset in the metadata) -/
def dictAtData (c : ChunkD) : Step := fun s o =>
  if c.dictAtData && !s.hasDict then loadDictionaryPage c s o else (.ok, s, o)

/-- the three decode buffers (values, definition levels, repetition levels) -/
def decodeBuffers3 (rows : Nat) : Step := fun s o =>
  if rows > s.capacity then Step.reqN 3 (fun s => { s with capacity := rows }) (fun s => { s with capacity := 0 }) s o
  else (.ok, s, o)

/-- the indices buffer of carquet_read_data_page_v1 -/
def indicesBuffer (p : PageD) : Step := fun s o =>
  if p.dictEncoded && decide (p.nonNull > s.indicesCap) then
    Step.req1 (fun s => { s with indicesCap := p.nonNull }) (fun s => { s with indicesCap := 0 }) s o
  else (.ok, s, o)

/-- retire_page_data followed by `page_data_for_values = page_data` -/
def retirePage : Step := fun s o =>
  if !s.hasPageData then (.ok, { s with hasPageData := true }, o)
  else if s.retiredNum = s.retiredCap then
    Step.req1 (fun s => { s with retiredCap := if s.retiredCap > 0 then s.retiredCap * 2 else 4, retiredNum := s.retiredNum + 1 }) id s o
  else (.ok, { s with retiredNum := s.retiredNum + 1 }, o)

/-- the page has been decoded -/
def pageReady (p : PageD) : Step := Step.map (fun s => { s with loaded := true, pageRows := p.rows, pageRead := 0 })

/-- the two level buffers of the zero-copy branch -/
def levelBuffers2 (rows : Nat) : Step := fun s o =>
  if rows > s.capacity then Step.reqN 2 (fun s => { s with capacity := rows }) (fun s => { s with capacity := 0 }) s o
  else (.ok, s, o)

/-- load_next_page_fread -/
def loadPageFread (c : ChunkD) (p : PageD) : Step :=
  Step.seq [dictIfNeeded c,
            headerWindow c,
            dictAtData c,
            Step.req1 id id,                                        -- malloc(compressed_page_size)
            Step.when c.compressed (Step.req1 id id),               -- malloc(uncompressed_page_size)
            Step.map (fun s => { s with view := false }),
            decodeBuffers3 p.rows,
            indicesBuffer p,
            Step.when (c.byteArray && !p.dictEncoded) retirePage,
            pageReady p]

/-- load_next_page_mmap (memory-mapped file or caller's buffer) -/
def loadPageMmap (c : ChunkD) (p : PageD) : Step :=
  if c.zeroCopy && !p.dictEncoded then
    -- zero-copy: the values are a view; the two level buffers are (re)allocated when the page is bigger
    Step.seq [dictIfNeeded c, dictAtData c, Step.map (fun s => { s with view := true }), levelBuffers2 p.rows, pageReady p]
  else
    Step.seq [dictIfNeeded c,
              dictAtData c,
              Step.when c.compressed (Step.req1 id id),             -- malloc(uncompressed_page_size)
              Step.map (fun s => if s.view then { s with capacity := 0, view := false } else s),
              decodeBuffers3 p.rows,
              indicesBuffer p,
              Step.when (c.compressed && c.byteArray && !p.dictEncoded) retirePage,
              pageReady p]

/-- load_next_page -/
def loadPageD (c : ChunkD) (p : PageD) : Step :=
  if c.mode = .fread then loadPageFread c p else loadPageMmap c p

/-- the rows carquet_read_next_page hands out of the current page -/
def takeRows (s : CR) (want : Nat) : Nat :=
  if s.loaded && decide (s.pageRead < s.pageRows) then min want (min (s.pageRows - s.pageRead) s.remaining) else 0

def consume (s : CR) (n : Nat) : CR := { s with pageRead := s.pageRead + n, remaining := s.remaining - n }

/-- the page loop of carquet_column_read_batch: `total` rows delivered so far, `max` wanted.  Pages still to be loaded
are the list argument.  Result: rows delivered (`none`: −1, an error before anything was delivered), reader, pages
left, oracle. -/
def readLoop (c : ChunkD) : List PageD → CR → Nat → Nat → Oracle → Option Nat × CR × List PageD × Oracle
  | pages, s, total, max, o =>
    if total + takeRows s (max - total) ≥ max ∨ (consume s (takeRows s (max - total))).remaining = 0 then
      (some (total + takeRows s (max - total)), consume s (takeRows s (max - total)), pages, o)
    else
      match pages with
      | [] =>    -- values remain but the chunk has no further page: the page header read fails
        ((if total + takeRows s (max - total) > 0 then some (total + takeRows s (max - total)) else none),
         { consume s (takeRows s (max - total)) with loaded := false }, [], o)
      | p :: ps =>
        match loadPageD c p { consume s (takeRows s (max - total)) with loaded := false } o with
        | (.ok, s2, o2) => readLoop c ps s2 (total + takeRows s (max - total)) max o2
        | (_, s2, o2) =>
          ((if total + takeRows s (max - total) > 0 then some (total + takeRows s (max - total)) else none), s2, p :: ps, o2)

/-- carquet_column_read_batch(reader, values, max, …) for `max > 0` -/
def readBatch (c : ChunkD) (pages : List PageD) (s : CR) (max : Nat) (o : Oracle) : Option Nat × CR × List PageD × Oracle :=
  if s.remaining = 0 then (some 0, { s with retiredNum := 0 }, pages, o)
  else readLoop c pages { s with retiredNum := 0 } 0 max o

/-- carquet_column_read_batch(reader, NULL, 0, …): load a page if none is loaded; the status is dropped -/
def peek (c : ChunkD) (pages : List PageD) (s : CR) (o : Oracle) : CR × List PageD × Oracle :=
  if s.remaining > 0 && !s.loaded then
    match pages with
    | [] => ({ s with retiredNum := 0 }, [], o)
    | p :: ps =>
      match loadPageD c p { s with retiredNum := 0 } o with
      | (.ok, s2, o2) => (s2, ps, o2)
      | (_, s2, o2) => (s2, p :: ps, o2)
  else ({ s with retiredNum := 0 }, pages, o)

/-- the loop of carquet_column_skip: read and discard at most 1024 values at a time -/
def skipLoop (c : ChunkD) : Nat → List PageD → CR → Nat → Nat → Oracle → Nat × CR × List PageD × Oracle
  | 0, pages, s, total, _, o => (total, s, pages, o)
  | fuel + 1, pages, s, total, n, o =>
    if total ≥ n ∨ s.remaining = 0 then (total, s, pages, o)
    else
      match readBatch c pages s (min (n - total) 1024) o with
      | (some got, s2, ps2, o2) => if got = 0 then (total, s2, ps2, o2) else skipLoop c fuel ps2 s2 (total + got) n o2
      | (none, s2, ps2, o2) => (total, s2, ps2, o2)

/-- carquet_column_skip: a temporary buffer (its refusal makes the call return 0), then the loop -/
def skip (c : ChunkD) (pages : List PageD) (s : CR) (n : Nat) (o : Oracle) : Nat × CR × List PageD × Oracle :=
  if n = 0 ∨ s.remaining = 0 then (0, s, pages, o)
  else if !o.grant then (0, s, pages, o.rest)
  else skipLoop c n pages s 0 n o.rest

/-! ## Batch reader over the page-by-page column reader (src/reader/batch_reader.c) -/

/-- a column of the batch reader: its chunk, whether it has definition levels, the reader state, the pages to come -/
structure BCol where
  chunk : ChunkD
  nullable : Bool           -- max_def_level > 0
  cr : CR
  pages : List PageD
deriving DecidableEq, Repr

/-- the per-column body of carquet_batch_reader_next (`rows` = rows of this batch, `mmapInfo`: the file is memory-mapped,
which enables the zero-copy probe).  Any failure sets `read_error`: the batch fails with CARQUET_ERROR_DECODE. -/
def batchColumnD (mmapInfo : Bool) (rows : Nat) (b : BCol) (o : Oracle) : Status × BCol × Oracle :=
  -- the zero-copy probe: a page load whose status is dropped
  (fun (p : CR × List PageD × Oracle) =>
    if p.1.loaded && p.1.view && p.1.pageRead == 0 && p.1.pageRows == rows && !b.nullable then
      -- zero-copy: only the (all-zero) null bitmap is allocated
      (if p.2.2.grant then
        (.ok, { b with cr := { p.1 with pageRead := p.1.pageRows, remaining := p.1.remaining - p.1.pageRows }, pages := p.2.1 }, p.2.2.rest)
       else (.other, { b with cr := p.1, pages := p.2.1 }, p.2.2.rest))
    else if !p.2.2.grant then (.other, { b with cr := p.1, pages := p.2.1 }, p.2.2.rest)                    -- col_data->data
    else if !p.2.2.rest.grant then (.other, { b with cr := p.1, pages := p.2.1 }, p.2.2.rest.rest)          -- null_bitmap
    else if b.nullable && !p.2.2.rest.rest.grant then (.other, { b with cr := p.1, pages := p.2.1 }, p.2.2.rest.rest.rest)   -- def_levels
    else
      match readBatch b.chunk p.2.1 p.1 rows (if b.nullable then p.2.2.rest.rest.rest else p.2.2.rest.rest) with
      | (some got, s2, ps2, o2) =>
        if got < rows then (.other, { b with cr := s2, pages := ps2 }, o2)              -- a ragged batch is refused
        else if b.chunk.byteArray then
          (if o2.grant then (.ok, { b with cr := s2, pages := ps2 }, o2.rest)            -- byte_array_storage
           else (.other, { b with cr := s2, pages := ps2 }, o2.rest))
        else (.ok, { b with cr := s2, pages := ps2 }, o2)
      | (none, s2, ps2, o2) => (.other, { b with cr := s2, pages := ps2 }, o2))
  (if mmapInfo && !b.nullable && !b.cr.loaded then peek b.chunk b.pages b.cr o else (b.cr, b.pages, o))

/-- the prefetch loop: one ignored page load per column that has no page loaded -/
def prefetchAll : List BCol → Oracle → List BCol × Oracle
  | [], o => ([], o)
  | b :: bs, o =>
    ({ b with cr := (peek b.chunk b.pages b.cr o).1, pages := (peek b.chunk b.pages b.cr o).2.1 } ::
        (prefetchAll bs (peek b.chunk b.pages b.cr o).2.2).1,
     (prefetchAll bs (peek b.chunk b.pages b.cr o).2.2).2)

/-- the main loop: after the first column error the remaining columns are skipped -/
def batchColumnsD (mmapInfo : Bool) (rows : Nat) : List BCol → Oracle → Status × List BCol × Oracle
  | [], o => (.ok, [], o)
  | b :: bs, o =>
    match batchColumnD mmapInfo rows b o with
    | (.ok, b', o') =>
      match batchColumnsD mmapInfo rows bs o' with
      | (st, bs', o'') => (st, b' :: bs', o'')
    | (st, b', o') => (st, b' :: bs, o')

/-- carquet_batch_reader_next for a row group that has just been opened (`cols`: fresh column readers are created
first, one calloc each), then the batch, its arena, the prefetch, the columns -/
def batchNextD (mmapInfo : Bool) (rows : Nat) (cols : List BCol) : M Unit :=
  M.bind (forEach cols () (fun _ _ => req)) fun _ =>                  -- open_row_group_readers
  M.bind req fun _ =>                                                -- calloc batch
  M.bind (arenaInitM Gen.arenaDefaultBlockSize) fun _ =>             -- batch arena (the columns array fits its first block)
  fun o =>
    match batchColumnsD mmapInfo rows (prefetchAll cols o).1 (prefetchAll cols o).2 with
    | (.ok, _, o') => (.ok (), o')
    | (_, _, o') => (.error .other, o')

/-! ## The allocation sites these models account for -/

def siteTableExt : List (String × String) :=
  [ ("carquet_bloom_filter_create", "bloomCreate"), ("carquet_bloom_filter_from_data", "bloomCreate"),
    ("carquet_statistics_builder_create", "statsBuilderCreate"), ("carquet_statistics_build", "statisticsBuild"),
    ("carquet_column_index_builder_create", "colIdxCreate"), ("ensure_capacity", "colIdxEnsure"),
    ("carquet_column_index_add_page", "colIdxAddPage"), ("carquet_offset_index_builder_create", "offIdxCreate"),
    ("offset_ensure_capacity", "offIdxAddPage"), ("carquet_column_index_serialize", "indexSerialize"),
    ("carquet_offset_index_serialize", "indexSerialize"),
    ("carquet_read_dictionary_page", "readDictionaryPage"), ("load_dictionary_page_fread", "loadDictionaryPage"),
    ("load_dictionary_page_mmap", "loadDictionaryPage"), ("carquet_column_skip", "skip"),
    ("read_page_header_fread", "headerWindow"), ("parse_key_value", "strAlloc"),
    -- requests made by a codec LIBRARY on behalf of decompress_page (zstd's per-thread decompression context, created on the
    -- first use in a thread, so only seen when the fault is delivered in a fresh process): the wrapper absorbs the failure
    -- (falls back to the one-shot API: same effect) or reports a decompression error; the structural models do not count
    -- library-internal requests, the tie judges such a case by the property alone (no crash, no leak, error or same effect)
    ("decompress_page", "libraryInternal") ]

def modelledSiteExt (fn : String) : Bool :=
  siteTableExt.any (fun p => p.1 == ((fn.splitOn "._omp_fn").headD fn))

end Carquet.Impl.Alloc.Ext
