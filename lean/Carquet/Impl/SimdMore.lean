import Carquet.Impl.Simd
/-
Second part of the models of `src/simd/x86/{sse,avx2,avx512}_ops.c` and of the scalar fallbacks
of `src/simd/dispatch.c`: the dictionary gathers (with the address arithmetic of the hardware
gather instructions), BYTE_STREAM_SPLIT for doubles, the LZ77 match helpers, the memset / memcpy
helpers, the fixed-width bit unpackers, and every `scalar_*` fallback the dispatch table installs.

Conventions as in `Impl/Simd.lean`: a register is a list of lanes (lane 0 = lowest address), the
loop skeletons are those of `Impl/SimdBlocked.lean` (a `while (n >= W)` loop runs `n / W` times
just like `for (; i + W <= count; i += W)`), a comment above each def names the C function.
Fidelity: exact for the block steps; structural for the loop skeleton and for the memory model
(element offsets relative to the base pointer, `none` = outside the object).
-/
namespace Carquet.Impl.Simd
open Carquet

/-! ## dictionary gathers

The dictionary is seen through its base pointer: `mem i` is the element at *signed element
offset* `i` from `dict`, `none` if that address is outside the dictionary object (reading it is
undefined behaviour: foreign memory or a fault).  The scalar code indexes with a `uint32_t`
(zero-extended); `vpgatherdd` / `vpgatherdq` compute `base + SignExtend(index) * scale`. -/

abbrev DictMem (α : Type) := Int → Option α

/-- the memory of a dictionary of `d.length` elements starting at the base pointer -/
def memOf {α : Type} (d : List α) : DictMem α := fun i => if 0 ≤ i then d[i.toNat]? else none

/-- `dict[indices[i]]` with `indices[i]` a `uint32_t`: the index is zero-extended -/
def loadZx {α : Type} (mem : DictMem α) (i : BitVec 32) : Option α := mem (Int.ofNat i.toNat)

/-- `_mm256_i32gather_epi32(base, vindex, 4)`, `_mm256_i32gather_epi64(base, vindex, 8)`,
`_mm512_i32gather_epi32(vindex, base, 4)`, `_mm512_i32gather_epi64(vindex, base, 8)` (Intel SDM,
VPGATHERDD/VPGATHERDQ: `DATA_ADDR := BASE_ADDR + SignExtend(VINDEX[i]) * SCALE`): lane `j` loads
the element at signed offset `vindex[j]` -/
def i32gather {α : Type} (mem : DictMem α) (vindex : List (BitVec 32)) : List (Option α) :=
  vindex.map fun i => mem i.toInt

/-- `_mm_set_epi32(e3, e2, e1, e0)` / `_mm_set_ps`: the last argument is lane 0 -/
def setEpi32 {α : Type} (e3 e2 e1 e0 : α) : List α := [e0, e1, e2, e3]
/-- `_mm_set_epi64x(e1, e0)` / `_mm_set_pd` -/
def setEpi64x {α : Type} (e1 e0 : α) : List α := [e0, e1]

/-- every lane was read inside the dictionary object -/
def allLoaded {α : Type} : List (Option α) → Option (List α)
  | [] => some []
  | none :: _ => none
  | some x :: r => (allLoaded r).map (x :: ·)

/-- the remainder loop of every gather and the scalar fallbacks: `output[i] = dict[indices[i]]` -/
def gatherTail {α : Type} (mem : DictMem α) (t : List (BitVec 32)) : List (Option α) := t.map (loadZx mem)

/-- `scalar_gather_i32 / _i64 / _float / _double` (dispatch.c) -/
def scalarGather {α : Type} (mem : DictMem α) (idx : List (BitVec 32)) : Option (List α) :=
  allLoaded (gatherTail mem idx)

/-- four scalar loads `v0..v3 = dict[indices[i + o + 0..3]]` packed by `_mm_set_epi32(v3, v2, v1, v0)` -/
def sseLoad4 {α : Type} (mem : DictMem α) (b : List (BitVec 32)) (o : Nat) : List (Option α) :=
  setEpi32 (loadZx mem (lane b (o + 3))) (loadZx mem (lane b (o + 2))) (loadZx mem (lane b (o + 1)))
    (loadZx mem (lane b o))

/-- first loop body of `carquet_sse_gather_i32` / `_float` (8 indices: two stores of 4; the
prefetches have no architectural effect) -/
def sseGather32Blk8 {α : Type} (mem : DictMem α) (b : List (BitVec 32)) : List (Option α) :=
  sseLoad4 mem b 0 ++ sseLoad4 mem b 4

/-- second loop body of `carquet_sse_gather_i32` / `_float` (4 indices) -/
def sseGather32Blk4 {α : Type} (mem : DictMem α) (b : List (BitVec 32)) : List (Option α) := sseLoad4 mem b 0

/-- `carquet_sse_gather_i32`, `carquet_sse_gather_float`: 8 at a time, then 4 at a time, then one -/
def sseGather32 {α : Type} (mem : DictMem α) (idx : List (BitVec 32)) : Option (List α) :=
  allLoaded (blockedMap 8 (sseGather32Blk8 mem) (blockedMap 4 (sseGather32Blk4 mem) (gatherTail mem)) idx)

/-- loop body of `carquet_sse_gather_i64` / `_double` (4 indices: `_mm_set_epi64x(v1, v0)`,
`_mm_set_epi64x(v3, v2)`) -/
def sseGather64Blk {α : Type} (mem : DictMem α) (b : List (BitVec 32)) : List (Option α) :=
  setEpi64x (loadZx mem (lane b 1)) (loadZx mem (lane b 0)) ++
  setEpi64x (loadZx mem (lane b 3)) (loadZx mem (lane b 2))

/-- `carquet_sse_gather_i64`, `carquet_sse_gather_double` -/
def sseGather64 {α : Type} (mem : DictMem α) (idx : List (BitVec 32)) : Option (List α) :=
  allLoaded (blockedMap 4 (sseGather64Blk mem) (gatherTail mem) idx)

/-- `carquet_avx2_gather_i32` (and `_float`, which calls it): `_mm256_i32gather_epi32`, 8 lanes -/
def avx2Gather32 {α : Type} (mem : DictMem α) (idx : List (BitVec 32)) : Option (List α) :=
  allLoaded (blockedMap 8 (i32gather mem) (gatherTail mem) idx)

/-- `carquet_avx2_gather_i64` (and `_double`): `_mm256_i32gather_epi64`, 4 lanes -/
def avx2Gather64 {α : Type} (mem : DictMem α) (idx : List (BitVec 32)) : Option (List α) :=
  allLoaded (blockedMap 4 (i32gather mem) (gatherTail mem) idx)

/-- `carquet_avx512_gather_i32` (and `_float`): `_mm512_i32gather_epi32` on 16 lanes, then the
AVX2 gather on 8, then the scalar loop -/
def avx512Gather32 {α : Type} (mem : DictMem α) (idx : List (BitVec 32)) : Option (List α) :=
  allLoaded (blockedMap 16 (i32gather mem) (blockedMap 8 (i32gather mem) (gatherTail mem)) idx)

/-- `carquet_avx512_gather_i64` (and `_double`): `_mm512_i32gather_epi64`, 8 lanes -/
def avx512Gather64 {α : Type} (mem : DictMem α) (idx : List (BitVec 32)) : Option (List α) :=
  allLoaded (blockedMap 8 (i32gather mem) (gatherTail mem) idx)

/-! ## BYTE_STREAM_SPLIT for `k`-byte values (doubles: `k = 8`)

A value is kept as the row of its `k` little-endian bytes; `streamsK` is the address arithmetic
`output[b * count + i]`. -/

/-- the `k` little-endian bytes of a value (`src + i * k`) -/
def bytesLE (k : Nat) (v : BitVec (8 * k)) : List UInt8 := (List.range k).map fun b => Spec.Kernels.byteOf v b

/-- stream `b` = byte `b` of every row; the `k` streams concatenated -/
def streamsK (k : Nat) (rows : List (List UInt8)) : List UInt8 :=
  (List.range k).flatMap fun b => rows.map fun r => r.getD b 0

/-- the remainder loop of the double encoders and `scalar_byte_split_encode_double`:
`output[b*count+i] = src[i*8+b]` -/
def bssEncRows (k : Nat) (vals : List (BitVec (8 * k))) : List (List UInt8) := vals.map (bytesLE k)

/-- `scalar_byte_split_encode_float` (dispatch.c) -/
def scalarBssEncodeFloat (vals : List (BitVec 32)) : List UInt8 := streamsOf (bssEncScalar vals)

/-- `scalar_byte_split_encode_double` (dispatch.c) -/
def scalarBssEncodeDouble (vals : List (BitVec 64)) : List UInt8 := streamsK 8 (bssEncRows 8 vals)

/-- row `j` of a block of doubles read as bytes: `((const uint8_t*)(src + i*8))[8*j + b]`, `b = 0..7` -/
def rowAt (src : List UInt8) (j : Nat) : List UInt8 := (List.range 8).map fun b => src.getD (8 * j + b) 0

/-- loop body of `carquet_sse_byte_stream_split_encode_double` (2 doubles, plain byte moves) -/
def sseBssEncDoubleBlk (vals : List (BitVec 64)) : List (List UInt8) :=
  [rowAt (vals.flatMap (bytesLE 8)) 0, rowAt (vals.flatMap (bytesLE 8)) 1]

/-- `carquet_sse_byte_stream_split_encode_double` -/
def sseBssEncodeDouble (vals : List (BitVec 64)) : List UInt8 :=
  streamsK 8 (blockedMap 2 sseBssEncDoubleBlk (bssEncRows 8) vals)

/-- loop body of `carquet_avx2_byte_stream_split_encode_double` (4 doubles; not installed in the table) -/
def avx2BssEncDoubleBlk (vals : List (BitVec 64)) : List (List UInt8) :=
  [rowAt (vals.flatMap (bytesLE 8)) 0, rowAt (vals.flatMap (bytesLE 8)) 1,
   rowAt (vals.flatMap (bytesLE 8)) 2, rowAt (vals.flatMap (bytesLE 8)) 3]

/-- `carquet_avx2_byte_stream_split_encode_double` -/
def avx2BssEncodeDouble (vals : List (BitVec 64)) : List UInt8 :=
  streamsK 8 (blockedMap 4 avx2BssEncDoubleBlk (bssEncRows 8) vals)

/-- the scalar decoders `scalar_byte_split_decode_float/_double`,
`carquet_sse_byte_stream_split_decode_double`, `carquet_avx2_byte_stream_split_decode_double`
(all four are the plain loop `dst[i*k+b] = data[b*count+i]`); a read outside `data` is `none` -/
def scalarBssDecode (k n : Nat) (data : List UInt8) : Option (List (BitVec (8 * k))) :=
  (List.range n).mapM fun i =>
    ((List.range k).mapM fun b => data[b * n + i]?).map fun bytes => Spec.Kernels.leValue k bytes

def scalarBssDecodeFloat := scalarBssDecode 4
def scalarBssDecodeDouble := scalarBssDecode 8
def sseBssDecodeDouble := scalarBssDecode 8
def avx2BssDecodeDouble := scalarBssDecode 8

/-! ## the other scalar fallbacks of dispatch.c -/

/-- `scalar_prefix_sum_i32 / _i64` (as repaired, FS3: unsigned wrapping add) -/
def scalarPrefixSum {w : Nat} (init : BitVec w) (vals : List (BitVec w)) : List (BitVec w) :=
  (scalarScan psStep init vals).1

/-- `scalar_unpack_bools`: `output[i] = (input[i / 8] >> (i % 8)) & 1`; a read outside `input` is `none` -/
def scalarUnpackBools (bytes : List UInt8) (count : Nat) : Option (List UInt8) :=
  (List.range count).mapM fun i => (bytes[i / 8]?).map fun x => (x >>> UInt8.ofNat (i % 8)) &&& 1

/-- `scalar_pack_bools`: per output byte, `if (input[i + j]) byte |= 1 << j` for `j < 8`, `i + j < count` -/
def scalarPackBools (xs : List UInt8) : List UInt8 := packScalar xs

/-- `scalar_find_run_length_i32`: 0 for an empty input; else the first `i ≥ 1` with
`values[i] != values[0]`, the count if there is none -/
def scalarFindRunLength : List (BitVec 32) → Nat
  | [] => 0
  | x :: xs => 1 + firstIdx (· != x) xs

/-- `scalar_count_non_nulls` -/
def scalarCountNonNulls (levels : List (BitVec 16)) (maxDef : BitVec 16) : Nat :=
  levels.foldl (cnnStep maxDef) 0

/-- `scalar_fill_def_levels` (`old` = previous contents, only its length matters) -/
def scalarFillDefLevels (old : List (BitVec 16)) (value : BitVec 16) : List (BitVec 16) := old.map fun _ => value

/-! ## LZ77 match helpers

`hist` = the bytes of the output buffer before `dst` (at least `offset` of them); `src = dst - offset`.
A copy appends to `hist`. -/

/-- `*dst++ = *src++` -/
def copyByte (offset : Nat) (hist : List UInt8) : List UInt8 :=
  hist ++ (hist.drop (hist.length - offset)).take 1

/-- `n` iterations of `while (len > 0) { *dst++ = *src++; len--; }` -/
def copyBytes (offset : Nat) : Nat → List UInt8 → List UInt8
  | 0, h => h
  | n + 1, h => copyBytes offset n (copyByte offset h)

/-- a `W`-byte load from `src` followed by a `W`-byte store to `dst` (`memcpy(dst, src, 8)`,
`_mm_storeu_si128(dst, _mm_loadu_si128(src))`, `_mm_storel_epi64(dst, _mm_loadl_epi64(src))`):
the load sees only bytes written before it -/
def copyBlock (W offset : Nat) (hist : List UInt8) : List UInt8 :=
  hist ++ (hist.drop (hist.length - offset)).take W

def copyBlocks (W offset : Nat) : Nat → List UInt8 → List UInt8
  | 0, h => h
  | k + 1, h => copyBlocks W offset k (copyBlock W offset h)

/-- `scalar_match_copy` (dispatch.c); `window` = the `offset` bytes before `dst`; the result is
what was written at `dst` -/
def scalarMatchCopy (window : List UInt8) (len : Nat) : List UInt8 :=
  if window.length ≥ 8 then
    (copyBytes window.length (len % 8) (copyBlocks 8 window.length (len / 8) window)).drop window.length
  else (copyBytes window.length len window).drop window.length

/-- `k` stores of a register holding `pat` repeated -/
def storeBlocks (pat : List UInt8) : Nat → List UInt8
  | 0 => []
  | k + 1 => pat ++ storeBlocks pat k

/-- the one 8-byte step `if (len >= 8) { _mm_storel_epi64(dst, _mm_loadl_epi64(src)); … }` -/
def copyBlockIf (c : Bool) (W offset : Nat) (hist : List UInt8) : List UInt8 :=
  if c then copyBlock W offset hist else hist

/-- `carquet_sse_match_copy`: five cases on `offset` -/
def sseMatchCopy (window : List UInt8) (len : Nat) : List UInt8 :=
  if window.length ≥ 16 then
    -- 16-byte copies, one 8-byte copy, bytes
    (copyBytes window.length (len % 16 % 8)
      (copyBlockIf (decide (len % 16 ≥ 8)) 8 window.length
        (copyBlocks 16 window.length (len / 16) window))).drop window.length
  else if window.length = 1 then
    -- `_mm_set1_epi8(*src)` stored len/16 times, then single bytes
    storeBlocks (set1 16 (window.getD 0 0)) (len / 16) ++ List.replicate (len % 16) (window.getD 0 0)
  else if window.length = 2 then
    -- `*dst++ = v0; *dst++ = v1;` len/2 times, `if (len) *dst = v0`
    storeBlocks [window.getD 0 0, window.getD 1 0] (len / 2) ++ (if len % 2 = 0 then [] else [window.getD 0 0])
  else if window.length = 4 then
    -- `_mm_set1_epi32(pattern)` stored len/16 times, `memcpy(dst, &pattern, 4)`, `dst[i] = src[i]`
    storeBlocks (window ++ window ++ window ++ window) (len / 16) ++
      storeBlocks window (len % 16 / 4) ++ window.take (len % 4)
  else (copyBytes window.length len window).drop window.length

/-- the pairs `(*p, *match)` the match-length loops compare: `match = buf`, `p = buf + off`,
`limit = buf + |buf|` -/
def matchPairs (buf : List UInt8) (off : Nat) : List (UInt8 × UInt8) := (buf.drop off).zip buf

/-- `scalar_match_length`: `while (p < limit && *p == *match) { p++; match++; }` -/
def scalarMatchLength (buf : List UInt8) (off : Nat) : Nat :=
  firstIdx (fun pm => pm.1 != pm.2) (matchPairs buf off)

/-- `_mm_cmpeq_epi8` -/
def cmpeqEpi8 (a b : List UInt8) : List UInt8 := List.zipWith (fun x y => if x == y then 0xFF else 0) a b

/-- loop body of `carquet_sse_match_length` (16 bytes): `cmpeq`, `movemask`, `mask != 0xFFFF`,
`__builtin_ctz(~mask)` -/
def sseMatchBlk (pm : List (UInt8 × UInt8)) : Option Nat :=
  let mask := movemaskEpi8 (cmpeqEpi8 (pm.map (·.1)) (pm.map (·.2)))
  if mask.all id then none else some (ctzNot mask)

/-- `carquet_sse_match_length` -/
def sseMatchLength (buf : List UInt8) (off : Nat) : Nat :=
  blockedSearch 16 sseMatchBlk (fun pm => pm.1 != pm.2) (matchPairs buf off)

/-! ## memset / memcpy helpers (`old` = previous contents of `dest`; only its length matters) -/

def memTail (v : UInt8) (t : List UInt8) : List UInt8 := t.map fun _ => v

/-- `carquet_sse_memset_small`: 4 x 16-byte stores while `n >= 64`, one while `n >= 16`, bytes -/
def sseMemset (old : List UInt8) (v : UInt8) : List UInt8 :=
  blockedMap 64 (fun _ => set1 16 v ++ set1 16 v ++ set1 16 v ++ set1 16 v)
    (blockedMap 16 (fun _ => set1 16 v) (memTail v)) old

/-- `carquet_avx2_memset`: 4 x 32 while `n >= 128`, 32, 16 (SSE), bytes -/
def avx2Memset (old : List UInt8) (v : UInt8) : List UInt8 :=
  blockedMap 128 (fun _ => set1 32 v ++ set1 32 v ++ set1 32 v ++ set1 32 v)
    (blockedMap 32 (fun _ => set1 32 v) (blockedMap 16 (fun _ => set1 16 v) (memTail v))) old

/-- `carquet_avx512_memset`: 4 x 64 while `n >= 256`, 64, 32, 16, bytes -/
def avx512Memset (old : List UInt8) (v : UInt8) : List UInt8 :=
  blockedMap 256 (fun _ => set1 64 v ++ set1 64 v ++ set1 64 v ++ set1 64 v)
    (blockedMap 64 (fun _ => set1 64 v)
      (blockedMap 32 (fun _ => set1 32 v) (blockedMap 16 (fun _ => set1 16 v) (memTail v)))) old

/-- four loads of `W` bytes at `s + 0, W, 2W, 3W` stored at `d + 0, W, 2W, 3W` -/
def copy4 (W : Nat) (b : List UInt8) : List UInt8 :=
  b.take W ++ (b.drop W).take W ++ (b.drop (2 * W)).take W ++ (b.drop (3 * W)).take W

/-- `carquet_sse_memcpy_small` -/
def sseMemcpy (src : List UInt8) : List UInt8 :=
  blockedMap 64 (copy4 16) (blockedMap 16 (fun b => b.take 16) id) src

/-- `carquet_avx2_memcpy` -/
def avx2Memcpy (src : List UInt8) : List UInt8 :=
  blockedMap 128 (copy4 32) (blockedMap 32 (fun b => b.take 32) (blockedMap 16 (fun b => b.take 16) id)) src

/-- `carquet_avx512_memcpy` -/
def avx512Memcpy (src : List UInt8) : List UInt8 :=
  blockedMap 256 (copy4 64)
    (blockedMap 64 (fun b => b.take 64)
      (blockedMap 32 (fun b => b.take 32) (blockedMap 16 (fun b => b.take 16) id))) src

end Carquet.Impl.Simd
