/-
The writer's interaction with its output stream (C18, second half): the sequence of
`fwrite` calls made by `file_writer.c`, the final `fflush`/`ferror` check and `fclose`, over an
abstract stdio stream whose sink may fail at any point.

The stream is the contract of a C `FILE*`, not glibc's algorithm: bytes handed to `fwrite`
are either delivered to the sink or still pending in the buffer; at any call stdio may try to
push any amount of pending bytes; a push the sink does not take completely makes the call
report failure and sets the sticky error indicator.  Which pushes happen, and whether the
sink takes them, is chosen by an oracle (`Outcome` per call) — the theorems quantify over all
oracles, i.e. over every buffering policy and every failure point.  After a failed push the
bytes not taken are either still pending (`fail`) or, wholly or in part, lost (`drop`).
-/
namespace Carquet.Impl.Sink

abbrev Bytes := List UInt8

structure Stream where
  delivered : Bytes := []     -- what the sink has taken
  pending : Bytes := []       -- accepted by fwrite, not yet pushed
  err : Bool := false         -- `ferror`
  deriving DecidableEq, Repr

/-- what stdio and the sink do during one call -/
inductive Outcome where
  /-- stdio pushes the first `k` pending bytes (after appending the new data) and the sink takes them -/
  | push (k : Nat)
  /-- stdio tries to push `k` bytes, the sink takes only `t` of them (`t < k`), or reports an error;
  everything not taken stays pending -/
  | fail (k t : Nat)
  /-- a failing push after which stdio does not keep what was left: the sink takes `t` bytes, of
  the rest only the first `m` stay pending, the others are discarded (C leaves the buffer
  contents after a write error unspecified; glibc resets the buffer: `m = 0`; bytes of a failed
  `fwrite` that were never accepted are gone in every implementation) -/
  | drop (t m : Nat)
  deriving DecidableEq, Repr

def Outcome.isFail : Outcome → Bool
  | .push _ => false
  | .fail _ _ => true
  | .drop _ _ => true

/-- `fwrite(data, 1, n, f) == n` ?  -/
def fwrite (s : Stream) (data : Bytes) : Outcome → Stream × Bool
  | .push k =>
    ({ delivered := s.delivered ++ (s.pending ++ data).take k,
       pending := (s.pending ++ data).drop k, err := s.err }, true)
  | .fail k t =>
    ({ delivered := s.delivered ++ (s.pending ++ data).take (min t k),
       pending := (s.pending ++ data).drop (min t k), err := true }, false)
  | .drop t m =>
    ({ delivered := s.delivered ++ (s.pending ++ data).take t,
       pending := ((s.pending ++ data).drop t).take m, err := true }, false)

/-- `fflush(f) == 0` ?  a successful flush pushes everything -/
def fflush (s : Stream) : Outcome → Stream × Bool
  | .push _ => ({ delivered := s.delivered ++ s.pending, pending := [], err := s.err }, true)
  | .fail _ t => ({ delivered := s.delivered ++ s.pending.take t, pending := s.pending.drop t, err := true }, false)
  | .drop t m => ({ delivered := s.delivered ++ s.pending.take t, pending := (s.pending.drop t).take m, err := true }, false)

/-- `fclose(f) == 0` ?  (flushes what is pending) -/
def fclose (s : Stream) (o : Outcome) : Stream × Bool := fflush s o

inductive Status where
  | ok | fileWrite
  deriving DecidableEq, Repr

/-- The oracle: what happens at the i-th stream operation of the session. -/
abbrev Oracle := Nat → Outcome

/-- One writer API call as the stream sees it: the `fwrite` calls it makes, in order; the
call stops at the first `fwrite` that does not return the full count and reports FILE_WRITE
(`write_magic`, `flush_row_group`, the three writes of `close`).  `i` counts stream operations. -/
def writes (o : Oracle) (s : Stream) (i : Nat) : List Bytes → Stream × Status × Nat
  | [] => (s, .ok, i)
  | d :: ds =>
    if (fwrite s d (o i)).2 then writes o (fwrite s d (o i)).1 (i + 1) ds
    else ((fwrite s d (o i)).1, .fileWrite, i + 1)

/-- `carquet_writer_close`: its own writes (pending row group, footer, length, magic); on
success `fflush` and the `ferror` check (fixes F17, F42); then, on every path, `fclose` for a
writer that owns the file, whose failure also fails the call (fix F17). -/
def closeCall (o : Oracle) (s : Stream) (i : Nat) (owns : Bool) (ws : List Bytes) : Stream × Status :=
  match writes o s i ws with
  | (s1, .ok, j) =>
    if owns then
      ((fclose (fflush s1 (o j)).1 (o (j + 1))).1,
       if (fflush s1 (o j)).2 && !(fflush s1 (o j)).1.err && (fclose (fflush s1 (o j)).1 (o (j + 1))).2
       then .ok else .fileWrite)
    else
      ((fflush s1 (o j)).1, if (fflush s1 (o j)).2 && !(fflush s1 (o j)).1.err then .ok else .fileWrite)
  | (s1, _, j) =>
    if owns then ((fclose s1 (o j)).1, .fileWrite) else (s1, .fileWrite)

/-- A whole history: every API call before close is the list of byte strings it writes (a
failed call returns; the caller may carry on); then close.  Returns the final stream, the
status of every call, and the status of close. -/
def session (o : Oracle) (owns : Bool) (closeWrites : List Bytes) :
    Stream → Nat → List (List Bytes) → Stream × List Status × Status
  | s, i, [] => ((closeCall o s i owns closeWrites).1, [], (closeCall o s i owns closeWrites).2)
  | s, i, call :: calls =>
    ((session o owns closeWrites (writes o s i call).1 (writes o s i call).2.2 calls).1,
     (writes o s i call).2.1 :: (session o owns closeWrites (writes o s i call).1 (writes o s i call).2.2 calls).2.1,
     (session o owns closeWrites (writes o s i call).1 (writes o s i call).2.2 calls).2.2)

end Carquet.Impl.Sink
