import Carquet.Impl.Simd
/-
Models of the ten fixed-width bit unpackers of `src/simd/x86/{sse,avx2,avx512}_ops.c`
(`carquet_<isa>_bitunpack<N>_<w>bit`: `N` values of `w` bits -> `N` x `uint32_t`).  None of them is
installed in the dispatch table or called by the library; they are exported symbols.
A register is the list of its bytes (lane 0 = lowest address); `input` is the list of the
`N * w / 8` input bytes.  Fidelity: exact (same sequence of intrinsics, same constants).
-/
namespace Carquet.Impl.Simd
open Carquet

/-- `_mm_setzero_si128()` -/
def zero16 : List UInt8 := List.replicate 16 0

/-- `_mm_srli_epi16(v, k)` on a register given as bytes: every little-endian 16-bit lane is shifted
right by `k`, zeros shifted in (bits of the high byte move into the low byte) -/
def srliEpi16 (k : Nat) : List UInt8 → List UInt8
  | lo :: hi :: r =>
    UInt8.ofNat ((lo.toNat + 256 * hi.toNat) >>> k % 256) ::
    UInt8.ofNat ((lo.toNat + 256 * hi.toNat) >>> k / 256) :: srliEpi16 k r
  | _ => []

/-- `_mm256_cvtepu8_epi32` (`n = 8`) / `_mm512_cvtepu8_epi32` (`n = 16`): the low `n` bytes
zero-extended to 32 bits -/
def cvtepu8Epi32 (n : Nat) (v : List UInt8) : List (BitVec 32) := (v.take n).map fun x => BitVec.ofNat 32 x.toNat

/-- little-endian 16-bit lanes zero-extended to 32 bits -/
def widen16 : List UInt8 → List (BitVec 32)
  | lo :: hi :: r => BitVec.ofNat 32 (lo.toNat + 256 * hi.toNat) :: widen16 r
  | _ => []

/-- `_mm256_cvtepu16_epi32` (`n = 8`) / `_mm512_cvtepu16_epi32` (`n = 16`) -/
def cvtepu16Epi32 (n : Nat) (v : List UInt8) : List (BitVec 32) := widen16 (v.take (2 * n))

/-- `_mm_unpackhi_epi64(a, b)` -/
def unpackhiEpi64 (a b : List UInt8) : List UInt8 := a.drop 8 ++ b.drop 8

/-- `_mm_srli_si128(v, k)` on byte lanes -/
def srliSi128Bytes (k : Nat) (v : List UInt8) : List UInt8 := v.drop k ++ List.replicate (min k v.length) 0

/-- the four stores of a 16-byte register of 0/1 (or small) bytes widened to 16 x 32 bits:
`unpacklo/hi_epi8(x, zero)` then `unpacklo/hi_epi16(·, zero)` -/
def widen16x (x : List UInt8) : List (BitVec 32) :=
  let lo8 := unpackloEpi8 x zero16
  let hi8 := unpackhiEpi8 x zero16
  dwords (unpackloEpi16 lo8 zero16) ++ dwords (unpackhiEpi16 lo8 zero16) ++
  dwords (unpackloEpi16 hi8 zero16) ++ dwords (unpackhiEpi16 hi8 zero16)

/-- one half of `carquet_sse_bitunpack32_1bit`: input bytes `c0`, `c1` of the register -> 16 values -/
def sseBits16 (bytes : List UInt8) (c0 c1 : Nat) : List (BitVec 32) :=
  let expanded := pshufb bytes (List.replicate 8 (some c0) ++ List.replicate 8 (some c1))
  let masked := andBytes expanded (bitMaskBytes ++ bitMaskBytes)
  widen16x (minEpu8 masked (set1 16 1))

/-- `carquet_sse_bitunpack32_1bit` (4 bytes -> 32 values) -/
def sseBitunpack32x1 (input : List UInt8) : List (BitVec 32) :=
  sseBits16 (lowOf128 (input.take 4)) 0 1 ++ sseBits16 (lowOf128 (input.take 4)) 2 3

/-- low and high nibbles of every byte, interleaved low first: `and 0x0F`, `srli_epi16 4` + `and 0x0F`,
`unpacklo_epi8` (and `unpackhi_epi8` for the upper eight bytes) -/
def loNibbles (bytes : List UInt8) : List UInt8 := andBytes bytes (set1 16 0x0F)
def hiNibbles (bytes : List UInt8) : List UInt8 := andBytes (srliEpi16 4 bytes) (set1 16 0x0F)

/-- `carquet_sse_bitunpack8_4bit` (4 bytes -> 8 values) -/
def sseBitunpack8x4 (input : List UInt8) : List (BitVec 32) :=
  let bytes := lowOf128 (input.take 4)                       -- _mm_cvtsi32_si128
  let interleaved := unpackloEpi8 (loNibbles bytes) (hiNibbles bytes)
  let words := unpackloEpi8 interleaved zero16
  dwords (unpackloEpi16 words zero16) ++ dwords (unpackhiEpi16 words zero16)

/-- `carquet_sse_bitunpack8_8bit` (8 bytes -> 8 values) -/
def sseBitunpack8x8 (input : List UInt8) : List (BitVec 32) :=
  let words := unpackloEpi8 (lowOf128 (input.take 8)) zero16  -- _mm_loadl_epi64
  dwords (unpackloEpi16 words zero16) ++ dwords (unpackhiEpi16 words zero16)

/-- `carquet_avx2_bitunpack64_1bit` (8 bytes -> 64 values): two scalar loops -/
def avx2Bitunpack64x1 (input : List UInt8) : List (BitVec 32) :=
  (input.take 8).flatMap fun byteVal =>
    (List.range 8).map fun i => BitVec.ofNat 32 ((byteVal >>> UInt8.ofNat i) &&& 1).toNat

/-- `carquet_avx2_bitunpack16_4bit` (8 bytes -> 16 values) -/
def avx2Bitunpack16x4 (input : List UInt8) : List (BitVec 32) :=
  let bytes := lowOf128 (input.take 8)                       -- _mm_loadl_epi64
  let interleaved := unpackloEpi8 (loNibbles bytes) (hiNibbles bytes)
  cvtepu8Epi32 8 interleaved ++ cvtepu8Epi32 8 (unpackhiEpi64 interleaved interleaved)

/-- `carquet_avx2_bitunpack16_8bit` (16 bytes -> 16 values) -/
def avx2Bitunpack16x8 (input : List UInt8) : List (BitVec 32) :=
  cvtepu8Epi32 8 (input.take 16) ++ cvtepu8Epi32 8 (srliSi128Bytes 8 (input.take 16))

/-- `carquet_avx2_bitunpack8_16bit` (16 bytes -> 8 values) -/
def avx2Bitunpack8x16 (input : List UInt8) : List (BitVec 32) := cvtepu16Epi32 8 (input.take 16)

/-- `carquet_avx512_bitunpack32_8bit` (32 bytes -> 32 values) -/
def avx512Bitunpack32x8 (input : List UInt8) : List (BitVec 32) :=
  cvtepu8Epi32 16 (input.take 16) ++ cvtepu8Epi32 16 ((input.drop 16).take 16)

/-- `carquet_avx512_bitunpack16_16bit` (32 bytes -> 16 values) -/
def avx512Bitunpack16x16 (input : List UInt8) : List (BitVec 32) := cvtepu16Epi32 16 (input.take 32)

/-- `carquet_avx512_bitunpack32_4bit` (16 bytes -> 32 values) -/
def avx512Bitunpack32x4 (input : List UInt8) : List (BitVec 32) :=
  let bytes := input.take 16                                  -- _mm_loadu_si128
  cvtepu8Epi32 16 (unpackloEpi8 (loNibbles bytes) (hiNibbles bytes)) ++
  cvtepu8Epi32 16 (unpackhiEpi8 (loNibbles bytes) (hiNibbles bytes))

end Carquet.Impl.Simd
