import Carquet.Util
import Driver.Ops.Alloc
import Driver.Ops.ApiErr
import Driver.Ops.ApiMeta
import Driver.Ops.ApiSchema
import Driver.Ops.Bloom
import Driver.Ops.C08More
import Driver.Ops.CFun
import Driver.Ops.Crc
import Driver.Ops.Cursor
import Driver.Ops.Delta
import Driver.Ops.FileRead
import Driver.Ops.FileSpec
import Driver.Ops.FileWrite
import Driver.Ops.Lz4
import Driver.Ops.Par
import Driver.Ops.ParDict
import Driver.Ops.Plain
import Driver.Ops.RefRead
import Driver.Ops.Rle
import Driver.Ops.Schema
import Driver.Ops.Simd
import Driver.Ops.Sink
import Driver.Ops.Snappy
import Driver.Ops.Stats
import Driver.Ops.Thrift
import Driver.Ops.ThriftPageIndex
import Driver.Gen.ApiSchema
import Driver.Gen.CFun
import Driver.Gen.ParDict
import Driver.Gen.RefFiles
/-
Line-protocol driver.  One harness line in (operation, inputs, and what the real code
returned), one verdict line out.  See Carquet/Util.lean for the syntax.
-/
open Carquet.Util

def handlers : List (Line → Option Verdict) :=
  [ Driver.Ops.Alloc.handle,
    Driver.Ops.ApiErr.handle,
    Driver.Ops.ApiMeta.handle,
    Driver.Ops.ApiSchema.handle,
    Driver.Ops.Bloom.handle,
    Driver.Ops.C08More.handle,
    Driver.Ops.CFun.handle,
    Driver.Ops.Crc.handle,
    Driver.Ops.Cursor.handle,
    Driver.Ops.Delta.handle,
    Driver.Ops.FileRead.handle,
    Driver.Ops.FileSpec.handle,
    Driver.Ops.FileWrite.handle,
    Driver.Ops.Lz4.handle,
    Driver.Ops.Par.handle,
    Driver.Ops.ParDict.handle,
    Driver.Ops.Plain.handle,
    Driver.Ops.RefRead.handle,
    Driver.Ops.Rle.handle,
    Driver.Ops.Schema.handle,
    Driver.Ops.Simd.handle,
    Driver.Ops.Sink.handle,
    Driver.Ops.Snappy.handle,
    Driver.Ops.Stats.handle,
    Driver.Ops.Thrift.handle,
    Driver.Ops.ThriftPageIndex.handle ]

def stepLine (s : String) : String :=
  match parseLine s with
  | none => "BADLINE parse"
  | some l =>
    match handlers.findSome? (fun h => h l) with
    | some v => v.render
    | none => s!"BADLINE unknown-op {l.op}"

partial def loop (h : IO.FS.Stream) (out : IO.FS.Stream) : IO Unit := do
  let line ← h.getLine
  if line.isEmpty then return ()
  if line.trimAscii.toString.isEmpty || line.startsWith "#" then
    out.putStrLn "skip"
  else
    out.putStrLn (stepLine line)
  loop h out

/-- Generators (`driver --gen <name> <seed> <quick|thorough>`): the Lean side produces inputs for
the real code (reference-written files for C06); each returns the lines to hand to the harness. -/
def generators : List (String × (Nat → Bool → List String)) :=
  [ ("apischema", Driver.Gen.ApiSchema.gen),
    ("cfun", Driver.Gen.CFun.gen),
    ("pardict", Driver.Gen.ParDict.gen),
    ("reffiles", Driver.Gen.RefFiles.gen) ]

def main (args : List String) : IO Unit := do
  let out ← IO.getStdout
  match args with
  | ["--gen", name, seed, tier] =>
    match generators.find? (·.1 == name) with
    | some g => for l in g.2 seed.toNat! (tier == "thorough") do out.putStrLn l
    | none => IO.eprintln s!"unknown generator {name}"; IO.Process.exit 2
  | _ => loop (← IO.getStdin) out
  out.flush
