import Carquet.Util
import Carquet.Gen.CFun
/-
Input generator for the translator self-check (`driver --gen cfun <seed> <tier>`, component `cfun`).

For every function in `Carquet.Gen.CFun.table` (the definitions translated from the C source of this run) it emits
argument tuples as bit patterns together with the value of the generated `<f>_defined` predicate:

  cfun f=<name> a=<a0>,<a1>,... d=<0|1>

`d=0` tells the harness NOT to execute the call (it would be undefined behaviour in C).  Arguments: boundary values of
each parameter type (0, 1, -1, min/max, every power of two and its neighbours, small numbers), uniformly random
patterns, values next to another argument of the same call (guards compare arguments with each other), and, for
functions of several parameters, every third tuple entirely from 0..24 / -1 / -2 (relations between the arguments are
then hit densely).  One-parameter functions get every boundary value; the others get seeded tuples.
-/
namespace Driver.Gen.CFun
open Carquet.Gen.CFun (Entry table)

/-- splitmix64 -/
def next (s : UInt64) : UInt64 × UInt64 :=
  let s := s + 0x9E3779B97F4A7C15
  let z := (s ^^^ (s >>> 30)) * 0xBF58476D1CE4E5B9
  let z := (z ^^^ (z >>> 27)) * 0x94D049BB133111EB
  (z ^^^ (z >>> 31), s)

def below (s : UInt64) (n : Nat) : Nat × UInt64 :=
  let (r, s) := next s
  (if n = 0 then 0 else r.toNat % n, s)

/-- boundary bit patterns of a `w`-bit integer type (`w = 0`: `_Bool`) -/
def boundary (w : Nat) : List Nat :=
  if w = 0 then [0, 1] else
  let m := 2 ^ w
  let pows := (List.range w).flatMap (fun k => [2 ^ k - 1, 2 ^ k, 2 ^ k + 1])
  let negs := (List.range w).flatMap (fun k => [m - 2 ^ k, m - 2 ^ k - 1])       -- -(2^k), -(2^k)-1 as patterns
  ((List.range 18) ++ pows ++ negs ++ [m - 1, m - 2, m / 2, m / 2 - 1, m / 2 + 1, 100, 255, 1000, 16777216, 16777217]).map (· % m)
    |>.eraseDups

def clampW (w : Nat) (v : Nat) : Nat := if w = 0 then (if v % 2 = 0 then 0 else 1) else v % 2 ^ w

/-- the boundary sets, computed once -/
structure Bnd where
  b0 : Array Nat
  b8 : Array Nat
  b16 : Array Nat
  b32 : Array Nat
  b64 : Array Nat

def Bnd.mk' : Bnd := ⟨(boundary 0).toArray, (boundary 8).toArray, (boundary 16).toArray, (boundary 32).toArray, (boundary 64).toArray⟩

def Bnd.get (b : Bnd) (w : Nat) : Array Nat :=
  if w = 0 then b.b0 else if w = 8 then b.b8 else if w = 16 then b.b16 else if w = 32 then b.b32 else b.b64

/-- one argument: boundary / random / small / next to an earlier argument -/
def drawArg (bnd : Bnd) (w : Nat) (earlier : Array Nat) (s : UInt64) : Nat × UInt64 :=
  let (k, s) := below s 100
  if k < 45 then
    let b := bnd.get w
    let (i, s) := below s b.size
    (clampW w (b.getD i 0), s)
  else if k < 62 then
    let (r, s) := next s
    (clampW w r.toNat, s)
  else if k < 72 then
    let (r, s) := below s 13
    (clampW w r, s)
  else if k < 80 then
    let (r, s) := below s 70000
    (clampW w r, s)
  else if earlier.size = 0 then
    let (r, s) := next s
    (clampW w r.toNat, s)
  else
    let (i, s) := below s earlier.size
    let (d, s) := below s 5
    let base := earlier.getD i 0
    -- base - 2 .. base + 2, and occasionally the sum / difference of two earlier arguments
    let (j, s) := below s earlier.size
    let (m, s) := below s 8
    let other := earlier.getD j 0
    let v := if m = 0 then base + other else if m = 1 then base + 2 ^ 64 - other else base + 2 ^ 64 + d - 2
    (clampW w v, s)

/-- one argument of an "all small" tuple: 0..24, occasionally -1 / -2 (as bit patterns); relational guards between the
arguments (`a <= b - c`) are hit densely this way -/
def drawSmall (w : Nat) (s : UInt64) : Nat × UInt64 :=
  let (k, s) := below s 28
  (clampW w (if k < 25 then k else if k = 25 then 2 ^ 64 - 1 else if k = 26 then 2 ^ 64 - 2 else 100), s)

def drawArgsSmall (ws : List Nat) (s : UInt64) : Array Nat × UInt64 :=
  ws.foldl (fun (acc : Array Nat × UInt64) w =>
    let (v, s) := drawSmall w acc.2
    (acc.1.push v, s)) (#[], s)

def drawArgs (bnd : Bnd) (ws : List Nat) (s : UInt64) : Array Nat × UInt64 :=
  ws.foldl (fun (acc : Array Nat × UInt64) w =>
    let (v, s) := drawArg bnd w acc.1 acc.2
    (acc.1.push v, s)) (#[], s)

def lineOf (e : Entry) (a : List Nat) : Option String :=
  match e.eval a with
  | some (_, d) => some s!"cfun f={e.name} a={Carquet.Util.showList toString a} d={if d then 1 else 0}"
  | none => none

def thin (b : Array Nat) (r : Nat) : List Nat :=
  b.toList.zipIdx.filterMap (fun p => if p.2 % 3 = r || p.1 < 10 then some p.1 else none)

def genEntry (bnd : Bnd) (e : Entry) (n : Nat) (s : UInt64) (out : Array String) : Array String × UInt64 :=
  let ws := e.args.map (·.2.1)
  let exhaustive : List (List Nat) :=
    match ws with
    | [w] => (bnd.get w).toList.map (fun v => [v])
    | [w1, w2] =>
      -- pairs over thinned boundary sets when that fits the budget
      let b1 := thin (bnd.get w1) 0
      let b2 := thin (bnd.get w2) 1
      if b1.length * b2.length ≤ 2 * n then b1.flatMap (fun x => b2.map (fun y => [x, y])) else []
    | _ => []
  let out := exhaustive.foldl (fun (o : Array String) a => match lineOf e a with | some l => o.push l | none => o) out
  (List.range n).foldl (fun (acc : Array String × UInt64) i =>
    let (a, s) := if ws.length ≥ 2 && i % 3 = 0 then drawArgsSmall ws acc.2 else drawArgs bnd ws acc.2
    match lineOf e a.toList with
    | some l => (acc.1.push l, s)
    | none => (acc.1, s)) (out, s)

def gen (seed : Nat) (thorough : Bool) : List String :=
  let n := if thorough then 6000 else 500
  let bnd := Bnd.mk'
  let s0 : UInt64 := UInt64.ofNat (seed * 2654435761 + 12345)
  let (ls, _) := table.foldl (fun (acc : Array String × UInt64) e =>
    genEntry bnd e n acc.2 (acc.1.push s!"#fn {e.name} {e.file} {e.cname}")) (#[], s0)
  ls.toList

end Driver.Gen.CFun
