import Carquet.Util
import Carquet.Gen.CFun
/-
Input generator for the translator self-check (`driver --gen cfun <seed> <tier>`, component `cfun`).

For every function in `Carquet.Gen.CFun.table` (the definitions translated from the C source of this run) it emits
argument tuples as bit patterns together with the value of the generated `<f>_defined` predicate:

  cfun f=<name> a=<a0>,<a1>,... d=<0|1>

`d=0` tells the harness NOT to execute the call (it would be undefined behaviour in C).  Arguments: boundary values of
each parameter type (0, 1, -1, min/max, every power of two and its neighbours, small numbers), uniformly random
patterns, values next to another argument of the same call (guards compare arguments with each other), and, for
functions of several parameters, every third tuple entirely from 0..24 / -1 / -2 (relations between the arguments are
then hit densely).  One-parameter functions get every boundary value; the others get seeded tuples.
-/
namespace Driver.Gen.CFun
open Carquet.Gen.CFun (Entry table)

/-- splitmix64 -/
def next (s : UInt64) : UInt64 × UInt64 :=
  let s := s + 0x9E3779B97F4A7C15
  let z := (s ^^^ (s >>> 30)) * 0xBF58476D1CE4E5B9
  let z := (z ^^^ (z >>> 27)) * 0x94D049BB133111EB
  (z ^^^ (z >>> 31), s)

def below (s : UInt64) (n : Nat) : Nat × UInt64 :=
  let (r, s) := next s
  (if n = 0 then 0 else r.toNat % n, s)

/-- boundary bit patterns of a `w`-bit integer type (`w = 0`: `_Bool`) -/
def boundary (w : Nat) : List Nat :=
  if w = 0 then [0, 1] else
  let m := 2 ^ w
  let pows := (List.range w).flatMap (fun k => [2 ^ k - 1, 2 ^ k, 2 ^ k + 1])
  let negs := (List.range w).flatMap (fun k => [m - 2 ^ k, m - 2 ^ k - 1])       -- -(2^k), -(2^k)-1 as patterns
  ((List.range 18) ++ pows ++ negs ++ [m - 1, m - 2, m / 2, m / 2 - 1, m / 2 + 1, 100, 255, 1000, 16777216, 16777217]).map (· % m)
    |>.eraseDups

def clampW (w : Nat) (v : Nat) : Nat := if w = 0 then (if v % 2 = 0 then 0 else 1) else v % 2 ^ w

/-- the boundary sets, computed once -/
structure Bnd where
  b0 : Array Nat
  b8 : Array Nat
  b16 : Array Nat
  b32 : Array Nat
  b64 : Array Nat

def Bnd.mk' : Bnd := ⟨(boundary 0).toArray, (boundary 8).toArray, (boundary 16).toArray, (boundary 32).toArray, (boundary 64).toArray⟩

def Bnd.get (b : Bnd) (w : Nat) : Array Nat :=
  if w = 0 then b.b0 else if w = 8 then b.b8 else if w = 16 then b.b16 else if w = 32 then b.b32 else b.b64

/-- one argument: boundary / random / small / next to an earlier argument -/
def drawArg (bnd : Bnd) (w : Nat) (earlier : Array Nat) (s : UInt64) : Nat × UInt64 :=
  let (k, s) := below s 100
  if k < 45 then
    let b := bnd.get w
    let (i, s) := below s b.size
    (clampW w (b.getD i 0), s)
  else if k < 62 then
    let (r, s) := next s
    (clampW w r.toNat, s)
  else if k < 72 then
    let (r, s) := below s 13
    (clampW w r, s)
  else if k < 80 then
    let (r, s) := below s 70000
    (clampW w r, s)
  else if earlier.size = 0 then
    let (r, s) := next s
    (clampW w r.toNat, s)
  else
    let (i, s) := below s earlier.size
    let (d, s) := below s 5
    let base := earlier.getD i 0
    -- base - 2 .. base + 2, and occasionally the sum / difference of two earlier arguments
    let (j, s) := below s earlier.size
    let (m, s) := below s 8
    let other := earlier.getD j 0
    let v := if m = 0 then base + other else if m = 1 then base + 2 ^ 64 - other else base + 2 ^ 64 + d - 2
    (clampW w v, s)

/-- one argument of an "all small" tuple: 0..24, occasionally -1 / -2 (as bit patterns); relational guards between the
arguments (`a <= b - c`) are hit densely this way -/
def drawSmall (w : Nat) (s : UInt64) : Nat × UInt64 :=
  let (k, s) := below s 28
  (clampW w (if k < 25 then k else if k = 25 then 2 ^ 64 - 1 else if k = 26 then 2 ^ 64 - 2 else 100), s)

def drawArgsSmall (ws : List Nat) (s : UInt64) : Array Nat × UInt64 :=
  ws.foldl (fun (acc : Array Nat × UInt64) w =>
    let (v, s) := drawSmall w acc.2
    (acc.1.push v, s)) (#[], s)

def drawArgs (bnd : Bnd) (ws : List Nat) (s : UInt64) : Array Nat × UInt64 :=
  ws.foldl (fun (acc : Array Nat × UInt64) w =>
    let (v, s) := drawArg bnd w acc.1 acc.2
    (acc.1.push v, s)) (#[], s)

def lineOf (e : Entry) (a : List Nat) : Option String :=
  match e.eval a with
  | some (_, d) => some s!"cfun f={e.name} a={Carquet.Util.showList toString a} d={if d then 1 else 0}"
  | none => none

def thin (b : Array Nat) (r : Nat) : List Nat :=
  b.toList.zipIdx.filterMap (fun p => if p.2 % 3 = r || p.1 < 10 then some p.1 else none)

def genEntry (bnd : Bnd) (e : Entry) (n : Nat) (s : UInt64) (out : Array String) : Array String × UInt64 :=
  let ws := e.args.map (·.2.1)
  let exhaustive : List (List Nat) :=
    match ws with
    | [w] => (bnd.get w).toList.map (fun v => [v])
    | [w1, w2] =>
      -- pairs over thinned boundary sets when that fits the budget
      let b1 := thin (bnd.get w1) 0
      let b2 := thin (bnd.get w2) 1
      if b1.length * b2.length ≤ 2 * n then b1.flatMap (fun x => b2.map (fun y => [x, y])) else []
    | _ => []
  let out := exhaustive.foldl (fun (o : Array String) a => match lineOf e a with | some l => o.push l | none => o) out
  (List.range n).foldl (fun (acc : Array String × UInt64) i =>
    let (a, s) := if ws.length ≥ 2 && i % 3 = 0 then drawArgsSmall ws acc.2 else drawArgs bnd ws acc.2
    match lineOf e a.toList with
    | some l => (acc.1.push l, s)
    | none => (acc.1, s)) (out, s)

/-! ### stage 2: functions with array arguments (`cfun2 f=<name> a0=<v> a1=<v> … d=<0|1>`)

Arrays: lengths around every stripe / word / varint boundary (0..12, 15..17, 31..33, 63..65, …), contents random, all
zero, all ones, "continuation bytes" (high bit set, for the varint readers), small values.  Integer arguments whose name
says they are a length (`len`, `length`, `size`, `count`, `n`) are mostly the exact length of an array argument,
sometimes one less / one more / far off (the generated `_defined` then decides whether the call is executed at all);
`(p, end)` pairs likewise.  Arrays of a fixed length (global tables) get that length. -/

open Carquet.Impl.CSem (Val Kind)
open Carquet.Gen.CFun (Entry2 table2)

def lengths : Array Nat :=
  #[0, 1, 2, 3, 4, 5, 6, 7, 8, 9, 10, 11, 12, 13, 15, 16, 17, 20, 23, 24, 25, 31, 32, 33, 34, 39, 40, 41, 47, 48, 63, 64, 65, 71, 72,
    95, 96, 97, 100, 127, 128, 129, 200, 255, 256, 257]

def drawLen (thorough : Bool) (s : UInt64) : Nat × UInt64 :=
  let (k, s) := below s 100
  if k < 40 then below s 14
  else if k < 90 then
    let (i, s) := below s lengths.size
    (lengths.getD i 0, s)
  else below s (if thorough then 1500 else 320)

def drawElems (w : Nat) (n : Nat) (s : UInt64) : List Nat × UInt64 :=
  let (mode, s) := below s 8
  let m := 2 ^ w
  (List.range n).foldl (fun (acc : List Nat × UInt64) _ =>
    let (r, s) := next acc.2
    let v := if mode ≤ 2 then r.toNat % m
             else if mode = 3 then 0
             else if mode = 4 then m - 1
             else if mode = 5 then (if r.toNat % 4 = 0 then r.toNat / 8 % (m / 2) else m / 2 + r.toNat / 8 % (m / 2))   -- high bit mostly set
             else if mode = 6 then r.toNat % 4
             else (if r.toNat % 3 = 0 then m - 1 else r.toNat / 8 % m)
    (acc.1 ++ [v], s)) ([], s)

def isLenName (nm : String) : Bool :=
  ["len", "length", "size", "count", "n", "a_len", "b_len", "num_blocks"].contains nm

def showVal (k : Kind) (v : Val) : String :=
  match k, v with
  | .arr 8, .a xs => Carquet.Util.toHex (xs.map UInt8.ofNat)
  | _, .a xs => Carquet.Util.showList toString xs
  | _, .n x => toString x

def drawArgs2 (bnd : Bnd) (thorough : Bool) (e : Entry2) (s : UInt64) : List Val × UInt64 :=
  -- arrays first (their lengths steer the integer arguments), then the rest in order
  let (arrs, s) := e.args.foldl (fun (acc : List (String × List Nat) × UInt64) a =>
    match a.2 with
    | .arr w =>
      let (n, s) := match e.fixed.find? (·.1 == a.1) with
        | some (_, n) => (n, acc.2)
        | none => drawLen thorough acc.2
      let (xs, s) := drawElems w n s
      (acc.1 ++ [(a.1, xs)], s)
    | _ => acc) ([], s)
  let lens := (arrs.filter (fun a => (e.fixed.find? (·.1 == a.1)).isNone)).map (·.2.length)
  let (sm, s) := below s 3          -- every third tuple: all the other integers small (relations between them are hit densely)
  e.args.foldl (fun (acc : List Val × UInt64) a =>
    match a.2 with
    | .arr _ => (acc.1 ++ [Val.a (((arrs.find? (·.1 == a.1)).map (·.2)).getD [])], acc.2)
    | .off base =>
      let L := (((arrs.find? (·.1 == base)).map (·.2.length)).getD 0)
      let (k, s) := below acc.2 100
      let (r, s) := below s (L + 1)
      (acc.1 ++ [Val.n (if k < 70 then L else if k < 80 then L - 1 else if k < 90 then L + 1 else r)], s)
    | .int w _ =>
      let (k, s) := below acc.2 100
      let lenBias := if isLenName a.1 then 80 else 12
      if k < lenBias && !lens.isEmpty then
        let (i, s) := below s lens.length
        let L := lens.getD i 0
        let (m, s) := below s 20
        let v := if m < 13 then L else if m < 15 then L - 1 else if m < 17 then L + 1 else if m = 17 then L + 8 else if m = 18 then L / 2 else 0
        (acc.1 ++ [Val.n (clampW w v)], s)
      else if sm = 0 && !isLenName a.1 then
        let (v, s) := below s 7
        (acc.1 ++ [Val.n (clampW w v)], s)
      else if k < lenBias + 30 && !isLenName a.1 then
        -- small values: table indices, bit widths, shift counts
        let (v, s) := below s 41
        let (m, s) := below s 12
        (acc.1 ++ [Val.n (clampW w (if m = 0 then 2 ^ 64 - 1 else if m < 6 then v % 9 else v))], s)
      else
        let earlier := (acc.1.filterMap (fun v => match v with | .n x => some x | _ => none)).toArray
        let (v, s) := drawArg bnd w earlier s
        (acc.1 ++ [Val.n v], s)) ([], s)

/-! ### BEGIN cfunb: directed argument generation for the second batch of stage-2 functions (NOTES_cfunb.md)

The kernels of src/simd/dispatch.c and the array loops of the encodings take several arrays whose lengths are tied by a
`count`: the generic generator above rarely produces a call that is defined.  For these functions three quarters of the
tuples are drawn here: lengths from `lengths` (every block / word / vector boundary 0..13, 15..17, 31..34, 63..65, ...),
every array exactly as long as the contract says, and - with small probability each - one hostile deviation (count one
more / one less / negative / INT64_MIN, an output one element short, an index outside the dictionary, a `limit` beyond
the buffer, overlapping 8-byte copies).  The generated `_defined` verdict still decides whether the call is executed. -/

def drawCountB (n : Nat) (s : UInt64) : Nat × UInt64 :=
  let (k, s) := below s 40
  (if k < 33 then n else if k < 35 then n + 1 else if k < 37 then n - 1 else if k = 37 then 2 ^ 64 - 1
   else if k = 38 then 2 ^ 63 else 0, s)

def drawBytesB (n : Nat) (s : UInt64) : List Nat × UInt64 := drawElems 8 n s

/-- `n` elements below `m` (all 0 when `m = 0`) -/
def drawBelowB (m n : Nat) (s : UInt64) : List Nat × UInt64 :=
  let (a, s) := (List.range n).foldl (fun (acc : Array Nat × UInt64) _ =>
    let (r, s) := below acc.2 m
    (acc.1.push r, s)) (#[], s)
  (a.toList, s)

def shortenB (xs : List Nat) (s : UInt64) : List Nat × UInt64 :=
  let (k, s) := below s 16
  (if k = 0 then xs.dropLast else xs, s)

def drawArgsB (bnd : Bnd) (thorough : Bool) (e : Entry2) (s : UInt64) : Option (List Val × UInt64) :=
  let widthOf := fun (nm : String) => match (e.args.find? (·.1 == nm)).map (·.2) with
    | some (.arr w) => w
    | some (.int w _) => w
    | _ => 8
  match e.name with
  | "scalar_prefix_sum_i32" | "scalar_prefix_sum_i64" =>
    let w := widthOf "values"
    let (n, s) := drawLen thorough s
    let (xs, s) := drawElems w n s
    let (c, s) := drawCountB n s
    let (i, s) := drawArg bnd w #[] s
    some ([.a xs, .n c, .n i], s)
  | "scalar_gather_i32" | "scalar_gather_i64" | "scalar_gather_float" | "scalar_gather_double" =>
    let w := widthOf "dict"
    let (m, s) := below s 41
    let (m2, s) := below s 8
    let m := if m2 = 0 then m * 7 else m
    let (dict, s) := drawElems w m s
    let (n, s) := drawLen thorough s
    let (idx, s) := drawBelowB m n s
    let (h, s) := below s 8
    let (pos, s) := below s (n + 1)
    let (hv, s) := below s 4
    let bad := if hv = 0 then m else if hv = 1 then m + 1 else if hv = 2 then 2 ^ 31 else 2 ^ 32 - 1
    let idx := if h = 0 then idx.set pos bad else idx
    let (out, s) := drawElems w n s
    let (out, s) := shortenB out s
    let (c, s) := drawCountB n s
    some ([.a dict, .a idx, .n c, .a out], s)
  | "scalar_byte_split_encode_float" | "scalar_byte_split_decode_float" | "scalar_byte_split_encode_double"
  | "scalar_byte_split_decode_double" =>
    let k := if e.name.endsWith "float" then 4 else 8
    let (n, s) := drawLen false s
    let n := n % 90
    let (a, s) := drawBytesB (k * n) s
    let (a, s) := shortenB a s
    let (b, s) := drawBytesB (k * n) s
    let (b, s) := shortenB b s
    let (c, s) := drawCountB n s
    some ([.a a, .n c, .a b], s)
  | "scalar_unpack_bools" =>
    let (n, s) := drawLen thorough s
    let (a, s) := drawBytesB ((n + 7) / 8) s
    let (a, s) := shortenB a s
    let (b, s) := drawBytesB n s
    let (b, s) := shortenB b s
    let (c, s) := drawCountB n s
    some ([.a a, .a b, .n c], s)
  | "scalar_pack_bools" =>
    let (n, s) := drawLen thorough s
    let (mode, s) := below s 3
    let (a, s) := if mode = 0 then drawBytesB n s else drawBelowB 2 n s
    let (a, s) := shortenB a s
    let (b, s) := drawBytesB ((n + 7) / 8) s
    let (b, s) := shortenB b s
    let (c, s) := drawCountB n s
    some ([.a a, .a b, .n c], s)
  | "scalar_find_run_length_i32" =>
    let (n, s) := drawLen thorough s
    let (r, s) := below s (n + 1)
    let (v, s) := drawArg bnd 32 #[] s
    let (t, s) := drawElems 32 (n - r) s
    let (full, s) := below s 3
    let xs := if full = 0 then List.replicate n v else List.replicate r v ++ t
    let (c, s) := drawCountB n s
    some ([.a xs, .n c], s)
  | "scalar_match_copy" =>
    let (L, s) := drawLen thorough s
    let (oi, s) := below s 14
    let (orand, s) := below s (L + 1)
    let o := #[1, 2, 3, 4, 5, 7, 8, 9, 15, 16, 17, 31].getD oi orand
    let o := if o > L then L else o
    let (lk, s) := below s 10
    let (lr, s) := below s (L - o + 1)
    let len := if lk < 4 then L - o else if lk = 9 then L - o + 1 else lr
    let (buf, s) := drawBytesB L s
    let (hk, s) := below s 12
    -- hostile: an `offset` of 8 or more with `dst` closer than 8 to `src` (the 8-byte copies overlap)
    let (dst, off) := if hk = 0 then (o % 8, 9) else (o, o)
    some ([.n dst, .a buf, .n len, .n off], s)
  | "scalar_match_length" =>
    let (L, s) := drawLen thorough s
    let (off, s) := below s (L + 1)
    let (raw, s) := drawBytesB L s
    let (m, s) := below s (L + 1)
    -- periodic with period `off` for the first `m` bytes behind `off`, then whatever was drawn
    let buf := (List.range L).foldl (fun (acc : List Nat) i =>
      acc ++ [if off > 0 && i ≥ off && i < off + m then acc.getD (i - off) 0 else raw.getD i 0]) []
    let (lk, s) := below s 10
    let (lr, s) := below s (L + 1)
    let lim := if lk < 7 then L else if lk = 7 then L + 1 else lr
    some ([.n off, .a buf, .n lim], s)
  | "scalar_count_non_nulls" =>
    let (n, s) := drawLen thorough s
    let (mode, s) := below s 4
    let (xs, s) := if mode = 0 then drawElems 16 n s else drawBelowB 4 n s
    let (c, s) := drawCountB n s
    let (mx, s) := if mode = 0 then drawArg bnd 16 #[] s else below s 4
    some ([.a xs, .n c, .n mx], s)
  | "scalar_build_null_bitmap" =>
    let (n, s) := drawLen thorough s
    let (mode, s) := below s 4
    let (xs, s) := if mode = 0 then drawElems 16 n s else drawBelowB 4 n s
    let (c, s) := drawCountB n s
    let (mx, s) := if mode = 0 then drawArg bnd 16 #[] s else below s 4
    let (bm, s) := drawBytesB ((n + 7) / 8) s
    let (bm, s) := shortenB bm s
    some ([.a xs, .n c, .n mx, .a bm], s)
  | "scalar_fill_def_levels" =>
    let (n, s) := drawLen thorough s
    let (xs, s) := drawElems 16 n s
    let (c, s) := drawCountB n s
    let (v, s) := drawArg bnd 16 #[] s
    some ([.a xs, .n c, .n v], s)
  | "carquet_byte_stream_split_encode" =>
    let (n, s) := below s 41
    let (kk, s) := below s 12
    let k := if kk < 9 then kk + 1 else if kk = 9 then 16 else 0
    let (tlh, s) := below s 16
    let tl := if tlh = 0 then 2 ^ 32 - 1 else k            -- a negative type_length
    let (a, s) := drawBytesB (n * k) s
    let (a, s) := shortenB a s
    let (b, s) := drawBytesB (n * k) s
    let (b, s) := shortenB b s
    let (c, s) := drawCountB n s
    let (ck, s) := below s 8
    let cap := if ck = 0 then n * k - 1 else if ck = 1 then n * k + 5 else n * k
    let (bw, s) := below s 1000
    some ([.a a, .n c, .n tl, .a b, .n cap, .n bw], s)
  | "carquet_byte_stream_split_decode" =>
    let (n, s) := below s 41
    let (kk, s) := below s 12
    let k := if kk < 9 then kk + 1 else if kk = 9 then 16 else 0
    let (tlh, s) := below s 16
    let tl := if tlh = 0 then 2 ^ 32 - 1 else k
    let (a, s) := drawBytesB (n * k) s
    let (ex, s) := below s 6
    let (extra, s) := drawBytesB (if ex = 0 then 3 else 0) s
    let (a, s) := shortenB (a ++ extra) s
    let (b, s) := drawBytesB (n * k) s
    let (b, s) := shortenB b s
    let (c, s) := drawCountB n s
    let (dk, s) := below s 12
    let dsz := if dk = 0 then a.length + 1 else a.length      -- a data_size that overstates the input
    some ([.a a, .n dsz, .n tl, .a b, .n c], s)
  | "carquet_decode_plain_boolean" =>
    let (n, s) := drawLen thorough s
    let (a, s) := drawBytesB ((n + 7) / 8) s
    let (a, s) := shortenB a s
    let (b, s) := drawBytesB n s
    let (b, s) := shortenB b s
    let (c, s) := drawCountB n s
    let (dk, s) := below s 12
    let isz := if dk = 0 then a.length + 1 else a.length
    some ([.a a, .n isz, .a b, .n c], s)
  | "carquet_decode_plain_fixed_byte_array" =>
    let (n, s) := below s 41
    let (kk, s) := below s 12
    let k := if kk < 9 then kk + 1 else if kk = 9 then 16 else 0
    let (tlh, s) := below s 16
    let fl := if tlh = 0 then 2 ^ 32 - 1 else k
    let (a, s) := drawBytesB (n * k) s
    let (ex, s) := below s 6
    let (extra, s) := drawBytesB (if ex = 0 then 3 else 0) s
    let (a, s) := shortenB (a ++ extra) s
    let (b, s) := drawBytesB (n * k) s
    let (b, s) := shortenB b s
    let (c, s) := drawCountB n s
    let (dk, s) := below s 12
    let isz := if dk = 0 then a.length + 1 else a.length
    some ([.a a, .n isz, .a b, .n c, .n fl], s)
  | "write_uleb128" =>
    let (v, s) := drawArg bnd 64 #[] s
    let (lk, s) := below s 6
    let (lr, s) := below s 11
    let (buf, s) := drawBytesB (if lk = 0 then lr else 10) s
    some ([.a buf, .n v], s)
  | "snappy_write_varint" =>
    let (v, s) := drawArg bnd 32 #[] s
    let (lk, s) := below s 6
    let (lr, s) := below s 6
    let (buf, s) := drawBytesB (if lk = 0 then lr else 5) s
    some ([.a buf, .n v], s)
  | "bitunpack_wide" =>
    let (n, s) := below s 24
    let (wk, s) := below s 70
    let w := if wk < 64 then wk + 1 else if wk < 67 then 64 else 33
    let (a, s) := drawBytesB ((n * w + 7) / 8) s
    let (a, s) := shortenB a s
    let (b, s) := drawElems 64 n s
    let (b, s) := shortenB b s
    some ([.a a, .n n, .n w, .a b], s)
  | "bitpack_wide" =>
    let (n, s) := below s 24
    let (wk, s) := below s 70
    let w := if wk < 64 then wk + 1 else if wk < 67 then 64 else 33
    let (a, s) := drawElems 64 n s
    let (a, s) := shortenB a s
    let (b, s) := drawBytesB ((n * w + 7) / 8) s
    let (b, s) := shortenB b s
    some ([.a a, .n n, .n w, .a b], s)
  | "common_prefix_length" =>
    let (la, s) := drawLen false s
    let (lb, s) := drawLen false s
    let (m, s) := below s (min la lb + 1)
    let (a, s) := drawBytesB la s
    let (b0, s) := drawBytesB lb s
    let b := (List.range lb).map fun i => if i < m then a.getD i 0 else b0.getD i 0
    let (hk, s) := below s 12
    let alen := if hk = 0 then la + 1 else la
    let blen := if hk = 1 then lb + 1 else lb
    some ([.a a, .n alen, .a b, .n blen], s)
  | "snappy_emit_literal" =>
    let (li, s) := below s 40
    let (lr, s) := below s 300
    let len := #[1, 2, 59, 60, 61, 62, 63, 255, 256, 257, 258, 1000].getD li (if li = 39 then 65536 + lr % 3 - 1 else lr + 1)
    let hdr := if len ≤ 60 then 1 else if len ≤ 256 then 2 else if len ≤ 65536 then 3 else 4
    let (ok, s) := below s 10
    let (op, s) := drawBelowB 4 (if ok = 0 then hdr + len - 1 else if ok = 1 then hdr + len + 3 else hdr + len) s
    let (lk, s) := below s 14
    let (lit, s) := drawBelowB 251 (if lk = 0 then len - 1 else len) s
    some ([.a op, .a lit, .n len], s)
  | "snappy_emit_copy" =>
    let (li, s) := below s 30
    let (lr, s) := below s 400
    let len := #[4, 5, 11, 12, 13, 59, 60, 63, 64, 65, 66, 67, 68, 69, 71, 72, 127, 128, 131, 132, 133, 196, 3, 0].getD li (lr + 4)
    let (oi, s) := below s 16
    let (orr, s) := below s 70000
    let off := #[1, 2, 255, 256, 257, 2047, 2048, 2049, 65535, 32768].getD oi orr
    let need := 3 * (len / 64 + 2)
    let (ok, s) := below s 10
    let (op, s) := drawBelowB 4 (if ok = 0 then (if len < 12 && off < 2048 then 1 else 2) else need) s
    some ([.a op, .n off, .n len], s)
  | "lz4_count" =>
    let (L, s) := drawLen thorough s
    let L := L + 7
    let (off, s) := below s (L + 1)
    let (raw, s) := drawBytesB L s
    let (m, s) := below s (L + 1)
    let buf := (List.range L).foldl (fun (acc : List Nat) i =>
      acc ++ [if off > 0 && i ≥ off && i < off + m then acc.getD (i - off) 0 else raw.getD i 0]) []
    let (lk, s) := below s 10
    let (lr, s) := below s (L + 1)
    let lim := if lk < 7 then L else if lk = 7 then L + 1 else lr
    some ([.n off, .a buf, .n lim], s)
  | _ => none

/-- extra cost of a tuple of the second batch: the loop nests over lists evaluate in quadratic time (a list update per store),
so the functions that store a whole array get a fifth of the tuples (60 in the quick tier), the others half -/
def costB (name : String) : Nat :=
  if ["scalar_byte_split_encode_float", "scalar_byte_split_decode_float", "scalar_byte_split_encode_double",
      "scalar_byte_split_decode_double", "carquet_byte_stream_split_encode", "carquet_byte_stream_split_decode",
      "bitunpack_wide", "bitpack_wide", "carquet_decode_plain_boolean", "scalar_unpack_bools", "scalar_pack_bools",
      "scalar_build_null_bitmap", "scalar_match_copy"].contains name then 4
  else if name.startsWith "scalar_" || ["carquet_decode_plain_fixed_byte_array", "dict_hash", "common_prefix_length",
      "lz4_count", "snappy_read32", "lz4_read32", "write_uleb128"].contains name then 1
  else 0

/-- three quarters directed (where a directed generator exists), one quarter from the generic generator -/
def drawArgs2B (bnd : Bnd) (thorough : Bool) (e : Entry2) (s : UInt64) : List Val × UInt64 :=
  let (k, s) := below s 4
  -- loop nests whose trip counts are two independent integer arguments: a random 31-bit `type_length` with `count = 0` is a
  -- defined call that spins 2^31 times doing nothing (in C as well); these get directed tuples only
  let directedOnly := ["carquet_byte_stream_split_encode", "carquet_byte_stream_split_decode", "bitunpack_wide", "bitpack_wide"]
  if k = 0 && !directedOnly.contains e.name then drawArgs2 bnd thorough e s
  else match drawArgsB bnd thorough e s with
    | some r => r
    | none => drawArgs2 bnd thorough e s
/-! ### END cfunb -/

def lineOf2 (e : Entry2) (a : List Val) : Option String :=
  match e.eval a with
  | some (_, d) =>
    let parts := (e.args.zip a).zipIdx.map (fun p => s!"a{p.2}={showVal p.1.1.2 p.1.2}")
    some s!"cfun2 f={e.name} {" ".intercalate parts} d={if d then 1 else 0}"
  | none => none

def genEntry2 (bnd : Bnd) (thorough : Bool) (e : Entry2) (budget : Nat) (s : UInt64) (out : Array String) : Array String × UInt64 :=
  let cost := 1 + (e.fixed.foldl (fun acc f => acc + f.2) 0) / 48 + costB e.name        -- cfunb: see `costB`
  let n := max 8 (budget / cost)
  (List.range n).foldl (fun (acc : Array String × UInt64) _ =>
    let (a, s) := drawArgs2B bnd thorough e acc.2        -- cfunb: directed generators for the second batch
    match lineOf2 e a with
    | some l => (acc.1.push l, s)
    | none => (acc.1, s)) (out, s)

/-! ### stage 3: functions with struct arguments (`cfun3 f=<name> a0=<v> a1=<v> … d=<0|1>`)

A struct argument is the comma-separated list of its leaf values (`Entry3.layout`).  Array and integer arguments are drawn
as in stage 2.  Struct states: in two thirds of the tuples a state that satisfies the invariants the link theorems assume
(REACHABLE: the pointer field at the start of its array, `size` / `capacity` the length of that array, the cursor not
beyond it, a bit count in 0..64 with the accumulator below `2^bits`, a nesting level in 0..32, the error latch mostly
clear), otherwise one or several leaves are pushed out of it (UNREACHABLE: cursor beyond the end, negative bit count,
accumulator with stale high bits, a pointer into the middle of the array, status already set, random patterns); the
generated `_defined` decides whether such a call is executed at all. -/

open Carquet.Gen.CFun (Entry3 table3)

/-- the control values of one struct state -/
structure Ctl where
  off : Nat
  size : Nat
  pos : Nat
  bits : Nat
  buf : Nat
  lvl : Nat

def lastComp (nm : String) : String := ((nm.splitOn ".").getLast?).getD nm

/-- `good`: a state inside the invariants; otherwise each control value is independently likely to leave them -/
def drawCtl (L : Nat) (good : Bool) (s : UInt64) : Ctl × UInt64 :=
  let (k1, s) := below s 100
  let (r1, s) := below s 4
  let off := if good || k1 < 70 then 0 else r1
  let (k2, s) := below s 100
  let (r2, s) := next s
  let size := if good || k2 < 60 then L - off
              else if k2 < 70 then L - off - 1 else if k2 < 80 then L - off + 1 else if k2 < 88 then 0
              else if k2 < 94 then r2.toNat % 40 else r2.toNat
  let (k3, s) := below s 100
  let (r3, s) := below s (size % 100000 + 1)
  let (r3b, s) := next s
  let pos := if good then (if k3 < 25 then size else if k3 < 35 then 0 else r3)
             else if k3 < 45 then r3 else if k3 < 60 then size else if k3 < 80 then size + 1
             else if k3 < 90 then size + 1 + r3b.toNat % 9 else r3b.toNat
  let (k4, s) := below s 100
  let (r4, s) := below s 65
  let (r4b, s) := next s
  let bits := if good then (if k4 < 10 then 0 else if k4 < 18 then 64 else if k4 < 26 then 56 else if k4 < 34 then 32 else r4)
              else if k4 < 50 then r4 else if k4 < 60 then 2 ^ 32 - 1 else if k4 < 70 then 65 else if k4 < 78 then 2 ^ 32 - 8
              else if k4 < 86 then 72 else r4b.toNat % 2 ^ 32
  let (k5, s) := below s 100
  let (r5, s) := next s
  let buf := if good || k5 < 40 then (if bits ≥ 64 then r5.toNat else r5.toNat % 2 ^ bits) else r5.toNat
  let (k6, s) := below s 100
  let (r6, s) := below s 33
  let lvl := if good then (if k6 < 20 then 0 else if k6 < 30 then 32 else if k6 < 40 then 31 else if k6 < 60 then 1 else r6)
             else if k6 < 50 then r6 else if k6 < 65 then 33 else if k6 < 80 then 2 ^ 32 - 1 else 40
  (⟨off, size, pos, bits, buf, lvl⟩, s)

def drawLeaf (bnd : Bnd) (ctl : Ctl) (good : Bool) (nm : String) (k : Kind) (s : UInt64) : Nat × UInt64 :=
  let l := lastComp nm
  match k with
  | .off base =>
    if base == "" then
      let (r, s) := next s
      let (m, s) := below s 3
      (if m = 0 then 0 else r.toNat, s)
    else (ctl.off, s)
  | .arr _ => (0, s)
  | .int w _ =>
    if l == "bit_width" || l == "bitpack_pos" || l == "bitpack_count" || l == "run_remaining" then
      let (m, s) := below s 12
      let (v, s) := below s (if l == "bit_width" then 34 else if l == "run_remaining" then 20 else 9)
      let (r, s) := next s
      (clampW w (if good then (if m = 0 && l == "run_remaining" then 0 else v)
                 else if m < 6 then v else if m < 8 then 2 ^ 64 - 1 else if m < 10 then v + 30 else r.toNat), s)
    else if l == "size" || l == "capacity" then (clampW w ctl.size, s)
    else if l == "pos" || l == "byte_pos" || l.endsWith "_pos" && l != "bit_pos" then (clampW w ctl.pos, s)
    else if l == "left" || l == "remaining" || l == "avail" then (clampW w (ctl.size - ctl.pos), s)
    else if l == "buffer_bits" || l == "bits_in_buffer" then (clampW w ctl.bits, s)
    else if l == "buffer" then (clampW w ctl.buf, s)
    else if l == "nesting_level" then (clampW w ctl.lvl, s)
    else if l == "status" then
      let (m, s) := below s 100
      let (r, s) := below s 40
      (clampW w (if good then (if m < 85 then 0 else r) else (if m < 50 then 0 else r)), s)
    else if l == "bit_pos" then
      let (r, s) := below s 8
      (clampW w r, s)
    else if w = 0 then
      let (r, s) := below s 2
      (r, s)
    else
      let (m, s) := below s 3
      if m = 0 then
        let (v, s) := below s 12
        (clampW w v, s)
      else drawArg bnd w #[] s

/-- the leaves of one struct argument; `lenOf` = length of an array argument by name: the control values (offset, size,
cursor) are drawn afresh at every pointer leaf, for the array that leaf points into -/
def drawStruct (bnd : Bnd) (lay : List (String × Kind × Nat)) (L0 : Nat) (lenOf : String → Nat) (good : Bool) (s : UInt64) :
    List Nat × UInt64 :=
  let (ctl0, s) := drawCtl L0 good s
  let r := lay.foldl (fun (acc : (List Nat × Ctl) × UInt64) lf =>
    match lf.2.1 with
    | .arr w =>
      let (xs, s) := drawElems w lf.2.2 acc.2
      ((acc.1.1 ++ xs, acc.1.2), s)
    | .off base =>
      let (ctl, s) := if base == "" then (acc.1.2, acc.2) else drawCtl (lenOf base) good acc.2
      let (v, s) := drawLeaf bnd ctl good lf.1 (.off base) s
      ((acc.1.1 ++ [v], ctl), s)
    | k =>
      let (v, s) := drawLeaf bnd acc.1.2 good lf.1 k acc.2
      ((acc.1.1 ++ [v], acc.1.2), s)) (([], ctl0), s)
  (r.1.1, r.2)

def smallBitsName (nm : String) : Bool := ["num_bits", "bit", "bit_width", "n_bits"].contains nm

def drawArgs3 (bnd : Bnd) (thorough : Bool) (e : Entry3) (s : UInt64) : List Val × UInt64 :=
  -- everything but the structs as in stage 2 (struct arguments are placeholders there)
  let e2 : Entry2 := { name := e.name, cname := e.cname, file := e.file, args := e.args, outs := e.outs,
                       fixed := e.fixed, eval := fun _ => none }
  let (vals, s) := drawArgs2 bnd thorough e2 s
  let named := (e.args.map (·.1)).zip vals
  let (g, s) := below s 3
  let good := g != 0
  (e.args.zip vals).foldl (fun (acc : List Val × UInt64) av =>
    match e.layout.find? (·.1 == av.1.1) with
    | some (_, _, lay) =>
      let base := (lay.findSome? (fun lf => match lf.2.1 with | .off b => if b == "" then none else some b | _ => none)).getD ""
      let lenOf := fun (b : String) => match named.find? (·.1 == b) with | some (_, .a xs) => xs.length | _ => 0
      let (xs, s) := drawStruct bnd lay (lenOf base) lenOf good acc.2
      (acc.1 ++ [Val.a xs], s)
    | none =>
      match av.1.2, av.2 with
      | .int w _, .n _ =>
        if smallBitsName av.1.1 then
          let (m, s) := below acc.2 20
          let (v, s) := below s 66
          (acc.1 ++ [Val.n (clampW w (if m = 0 then 2 ^ 32 - 1 else if m = 1 then 100 else if m = 2 then 32 else if m = 3 then 64 else v))], s)
        else (acc.1 ++ [av.2], acc.2)
      | _, _ => (acc.1 ++ [av.2], acc.2)) ([], s)

/-- directed tuples for `carquet_bitunpack_32(input, count, bit_width, values)`: a width 0..32, a count 0..40, `values` with
room for `count` words (sometimes one short), `input` with exactly the packed bytes (sometimes one short / a few more) -/
def directBitunpack32 (s : UInt64) : List Val × UInt64 :=
  let (w, s) := below s 34
  let w := if w = 33 then 8 else w
  let (count, s) := below s 41
  let (m1, s) := below s 10
  let (m2, s) := below s 10
  let need := (count / 8) * w + ((count % 8) * w + 7) / 8
  let nIn := if m1 = 0 then need - 1 else if m1 = 1 then need + 3 else need
  let nVal := if m2 = 0 then count - 1 else if m2 = 1 then count + 2 else count
  let (inp, s) := drawElems 8 nIn s
  let (vals, s) := drawElems 32 nVal s
  let (tmp, s) := drawElems 32 8 s
  ([Val.a inp, Val.n count, Val.n w, Val.a vals, Val.a tmp], s)

def lineOf3 (e : Entry3) (a : List Val) : Option String :=
  match e.eval a with
  | some (_, d) =>
    let parts := (e.args.zip a).zipIdx.map (fun p => s!"a{p.2}={showVal p.1.1.2 p.1.2}")
    some s!"cfun3 f={e.name} {" ".intercalate parts} d={if d then 1 else 0}"
  | none => none

def genEntry3 (bnd : Bnd) (thorough : Bool) (e : Entry3) (n : Nat) (s : UInt64) (out : Array String) : Array String × UInt64 :=
  (List.range n).foldl (fun (acc : Array String × UInt64) _ =>
    let (k, s0) := below acc.2 3
    let (a, s) := if e.name == "carquet_bitunpack_32" && k != 0 then directBitunpack32 s0 else drawArgs3 bnd thorough e s0
    match lineOf3 e a with
    | some l => (acc.1.push l, s)
    | none => (acc.1, s)) (out, s)

def gen (seed : Nat) (thorough : Bool) : List String :=
  let n := if thorough then 6000 else 500
  let bnd := Bnd.mk'
  let s0 : UInt64 := UInt64.ofNat (seed * 2654435761 + 12345)
  let (ls, s1) := table.foldl (fun (acc : Array String × UInt64) e =>
    genEntry bnd e n acc.2 (acc.1.push s!"#fn {e.name} {e.file} {e.cname}")) (#[], s0)
  let (ls, s2) := table2.foldl (fun (acc : Array String × UInt64) e =>
    genEntry2 bnd thorough e (if thorough then 3000 else 300) acc.2 (acc.1.push s!"#fn {e.name} {e.file} {e.cname}")) (ls, s1)
  let (ls, _) := table3.foldl (fun (acc : Array String × UInt64) e =>
    genEntry3 bnd thorough e (if thorough then 3000 else 300) acc.2 (acc.1.push s!"#fn {e.name} {e.file} {e.cname}")) (ls, s2)
  ls.toList

end Driver.Gen.CFun
