import Carquet.Util
import Carquet.Gen.CFun
/-
Input generator for the translator self-check (`driver --gen cfun <seed> <tier>`, component `cfun`).

For every function in `Carquet.Gen.CFun.table` (the definitions translated from the C source of this run) it emits
argument tuples as bit patterns together with the value of the generated `<f>_defined` predicate:

  cfun f=<name> a=<a0>,<a1>,... d=<0|1>

`d=0` tells the harness NOT to execute the call (it would be undefined behaviour in C).  Arguments: boundary values of
each parameter type (0, 1, -1, min/max, every power of two and its neighbours, small numbers), uniformly random
patterns, values next to another argument of the same call (guards compare arguments with each other), and, for
functions of several parameters, every third tuple entirely from 0..24 / -1 / -2 (relations between the arguments are
then hit densely).  One-parameter functions get every boundary value; the others get seeded tuples.
-/
namespace Driver.Gen.CFun
open Carquet.Gen.CFun (Entry table)

/-- splitmix64 -/
def next (s : UInt64) : UInt64 × UInt64 :=
  let s := s + 0x9E3779B97F4A7C15
  let z := (s ^^^ (s >>> 30)) * 0xBF58476D1CE4E5B9
  let z := (z ^^^ (z >>> 27)) * 0x94D049BB133111EB
  (z ^^^ (z >>> 31), s)

def below (s : UInt64) (n : Nat) : Nat × UInt64 :=
  let (r, s) := next s
  (if n = 0 then 0 else r.toNat % n, s)

/-- boundary bit patterns of a `w`-bit integer type (`w = 0`: `_Bool`) -/
def boundary (w : Nat) : List Nat :=
  if w = 0 then [0, 1] else
  let m := 2 ^ w
  let pows := (List.range w).flatMap (fun k => [2 ^ k - 1, 2 ^ k, 2 ^ k + 1])
  let negs := (List.range w).flatMap (fun k => [m - 2 ^ k, m - 2 ^ k - 1])       -- -(2^k), -(2^k)-1 as patterns
  ((List.range 18) ++ pows ++ negs ++ [m - 1, m - 2, m / 2, m / 2 - 1, m / 2 + 1, 100, 255, 1000, 16777216, 16777217]).map (· % m)
    |>.eraseDups

def clampW (w : Nat) (v : Nat) : Nat := if w = 0 then (if v % 2 = 0 then 0 else 1) else v % 2 ^ w

/-- the boundary sets, computed once -/
structure Bnd where
  b0 : Array Nat
  b8 : Array Nat
  b16 : Array Nat
  b32 : Array Nat
  b64 : Array Nat

def Bnd.mk' : Bnd := ⟨(boundary 0).toArray, (boundary 8).toArray, (boundary 16).toArray, (boundary 32).toArray, (boundary 64).toArray⟩

def Bnd.get (b : Bnd) (w : Nat) : Array Nat :=
  if w = 0 then b.b0 else if w = 8 then b.b8 else if w = 16 then b.b16 else if w = 32 then b.b32 else b.b64

/-- one argument: boundary / random / small / next to an earlier argument -/
def drawArg (bnd : Bnd) (w : Nat) (earlier : Array Nat) (s : UInt64) : Nat × UInt64 :=
  let (k, s) := below s 100
  if k < 45 then
    let b := bnd.get w
    let (i, s) := below s b.size
    (clampW w (b.getD i 0), s)
  else if k < 62 then
    let (r, s) := next s
    (clampW w r.toNat, s)
  else if k < 72 then
    let (r, s) := below s 13
    (clampW w r, s)
  else if k < 80 then
    let (r, s) := below s 70000
    (clampW w r, s)
  else if earlier.size = 0 then
    let (r, s) := next s
    (clampW w r.toNat, s)
  else
    let (i, s) := below s earlier.size
    let (d, s) := below s 5
    let base := earlier.getD i 0
    -- base - 2 .. base + 2, and occasionally the sum / difference of two earlier arguments
    let (j, s) := below s earlier.size
    let (m, s) := below s 8
    let other := earlier.getD j 0
    let v := if m = 0 then base + other else if m = 1 then base + 2 ^ 64 - other else base + 2 ^ 64 + d - 2
    (clampW w v, s)

/-- one argument of an "all small" tuple: 0..24, occasionally -1 / -2 (as bit patterns); relational guards between the
arguments (`a <= b - c`) are hit densely this way -/
def drawSmall (w : Nat) (s : UInt64) : Nat × UInt64 :=
  let (k, s) := below s 28
  (clampW w (if k < 25 then k else if k = 25 then 2 ^ 64 - 1 else if k = 26 then 2 ^ 64 - 2 else 100), s)

def drawArgsSmall (ws : List Nat) (s : UInt64) : Array Nat × UInt64 :=
  ws.foldl (fun (acc : Array Nat × UInt64) w =>
    let (v, s) := drawSmall w acc.2
    (acc.1.push v, s)) (#[], s)

def drawArgs (bnd : Bnd) (ws : List Nat) (s : UInt64) : Array Nat × UInt64 :=
  ws.foldl (fun (acc : Array Nat × UInt64) w =>
    let (v, s) := drawArg bnd w acc.1 acc.2
    (acc.1.push v, s)) (#[], s)

def lineOf (e : Entry) (a : List Nat) : Option String :=
  match e.eval a with
  | some (_, d) => some s!"cfun f={e.name} a={Carquet.Util.showList toString a} d={if d then 1 else 0}"
  | none => none

def thin (b : Array Nat) (r : Nat) : List Nat :=
  b.toList.zipIdx.filterMap (fun p => if p.2 % 3 = r || p.1 < 10 then some p.1 else none)

def genEntry (bnd : Bnd) (e : Entry) (n : Nat) (s : UInt64) (out : Array String) : Array String × UInt64 :=
  let ws := e.args.map (·.2.1)
  let exhaustive : List (List Nat) :=
    match ws with
    | [w] => (bnd.get w).toList.map (fun v => [v])
    | [w1, w2] =>
      -- pairs over thinned boundary sets when that fits the budget
      let b1 := thin (bnd.get w1) 0
      let b2 := thin (bnd.get w2) 1
      if b1.length * b2.length ≤ 2 * n then b1.flatMap (fun x => b2.map (fun y => [x, y])) else []
    | _ => []
  let out := exhaustive.foldl (fun (o : Array String) a => match lineOf e a with | some l => o.push l | none => o) out
  (List.range n).foldl (fun (acc : Array String × UInt64) i =>
    let (a, s) := if ws.length ≥ 2 && i % 3 = 0 then drawArgsSmall ws acc.2 else drawArgs bnd ws acc.2
    match lineOf e a.toList with
    | some l => (acc.1.push l, s)
    | none => (acc.1, s)) (out, s)

/-! ### stage 2: functions with array arguments (`cfun2 f=<name> a0=<v> a1=<v> … d=<0|1>`)

Arrays: lengths around every stripe / word / varint boundary (0..12, 15..17, 31..33, 63..65, …), contents random, all
zero, all ones, "continuation bytes" (high bit set, for the varint readers), small values.  Integer arguments whose name
says they are a length (`len`, `length`, `size`, `count`, `n`) are mostly the exact length of an array argument,
sometimes one less / one more / far off (the generated `_defined` then decides whether the call is executed at all);
`(p, end)` pairs likewise.  Arrays of a fixed length (global tables) get that length. -/

open Carquet.Impl.CSem (Val Kind)
open Carquet.Gen.CFun (Entry2 table2)

def lengths : Array Nat :=
  #[0, 1, 2, 3, 4, 5, 6, 7, 8, 9, 10, 11, 12, 13, 15, 16, 17, 20, 23, 24, 25, 31, 32, 33, 34, 39, 40, 41, 47, 48, 63, 64, 65, 71, 72,
    95, 96, 97, 100, 127, 128, 129, 200, 255, 256, 257]

def drawLen (thorough : Bool) (s : UInt64) : Nat × UInt64 :=
  let (k, s) := below s 100
  if k < 40 then below s 14
  else if k < 90 then
    let (i, s) := below s lengths.size
    (lengths.getD i 0, s)
  else below s (if thorough then 1500 else 320)

def drawElems (w : Nat) (n : Nat) (s : UInt64) : List Nat × UInt64 :=
  let (mode, s) := below s 8
  let m := 2 ^ w
  (List.range n).foldl (fun (acc : List Nat × UInt64) _ =>
    let (r, s) := next acc.2
    let v := if mode ≤ 2 then r.toNat % m
             else if mode = 3 then 0
             else if mode = 4 then m - 1
             else if mode = 5 then (if r.toNat % 4 = 0 then r.toNat / 8 % (m / 2) else m / 2 + r.toNat / 8 % (m / 2))   -- high bit mostly set
             else if mode = 6 then r.toNat % 4
             else (if r.toNat % 3 = 0 then m - 1 else r.toNat / 8 % m)
    (acc.1 ++ [v], s)) ([], s)

def isLenName (nm : String) : Bool :=
  ["len", "length", "size", "count", "n", "a_len", "b_len", "num_blocks"].contains nm

def showVal (k : Kind) (v : Val) : String :=
  match k, v with
  | .arr 8, .a xs => Carquet.Util.toHex (xs.map UInt8.ofNat)
  | _, .a xs => Carquet.Util.showList toString xs
  | _, .n x => toString x

def drawArgs2 (bnd : Bnd) (thorough : Bool) (e : Entry2) (s : UInt64) : List Val × UInt64 :=
  -- arrays first (their lengths steer the integer arguments), then the rest in order
  let (arrs, s) := e.args.foldl (fun (acc : List (String × List Nat) × UInt64) a =>
    match a.2 with
    | .arr w =>
      let (n, s) := match e.fixed.find? (·.1 == a.1) with
        | some (_, n) => (n, acc.2)
        | none => drawLen thorough acc.2
      let (xs, s) := drawElems w n s
      (acc.1 ++ [(a.1, xs)], s)
    | _ => acc) ([], s)
  let lens := (arrs.filter (fun a => (e.fixed.find? (·.1 == a.1)).isNone)).map (·.2.length)
  let (sm, s) := below s 3          -- every third tuple: all the other integers small (relations between them are hit densely)
  e.args.foldl (fun (acc : List Val × UInt64) a =>
    match a.2 with
    | .arr _ => (acc.1 ++ [Val.a (((arrs.find? (·.1 == a.1)).map (·.2)).getD [])], acc.2)
    | .off base =>
      let L := (((arrs.find? (·.1 == base)).map (·.2.length)).getD 0)
      let (k, s) := below acc.2 100
      let (r, s) := below s (L + 1)
      (acc.1 ++ [Val.n (if k < 70 then L else if k < 80 then L - 1 else if k < 90 then L + 1 else r)], s)
    | .int w _ =>
      let (k, s) := below acc.2 100
      let lenBias := if isLenName a.1 then 80 else 12
      if k < lenBias && !lens.isEmpty then
        let (i, s) := below s lens.length
        let L := lens.getD i 0
        let (m, s) := below s 20
        let v := if m < 13 then L else if m < 15 then L - 1 else if m < 17 then L + 1 else if m = 17 then L + 8 else if m = 18 then L / 2 else 0
        (acc.1 ++ [Val.n (clampW w v)], s)
      else if sm = 0 && !isLenName a.1 then
        let (v, s) := below s 7
        (acc.1 ++ [Val.n (clampW w v)], s)
      else if k < lenBias + 30 && !isLenName a.1 then
        -- small values: table indices, bit widths, shift counts
        let (v, s) := below s 41
        let (m, s) := below s 12
        (acc.1 ++ [Val.n (clampW w (if m = 0 then 2 ^ 64 - 1 else if m < 6 then v % 9 else v))], s)
      else
        let earlier := (acc.1.filterMap (fun v => match v with | .n x => some x | _ => none)).toArray
        let (v, s) := drawArg bnd w earlier s
        (acc.1 ++ [Val.n v], s)) ([], s)

def lineOf2 (e : Entry2) (a : List Val) : Option String :=
  match e.eval a with
  | some (_, d) =>
    let parts := (e.args.zip a).zipIdx.map (fun p => s!"a{p.2}={showVal p.1.1.2 p.1.2}")
    some s!"cfun2 f={e.name} {" ".intercalate parts} d={if d then 1 else 0}"
  | none => none

def genEntry2 (bnd : Bnd) (thorough : Bool) (e : Entry2) (budget : Nat) (s : UInt64) (out : Array String) : Array String × UInt64 :=
  let cost := 1 + (e.fixed.foldl (fun acc f => acc + f.2) 0) / 48
  let n := max 8 (budget / cost)
  (List.range n).foldl (fun (acc : Array String × UInt64) _ =>
    let (a, s) := drawArgs2 bnd thorough e acc.2
    match lineOf2 e a with
    | some l => (acc.1.push l, s)
    | none => (acc.1, s)) (out, s)

def gen (seed : Nat) (thorough : Bool) : List String :=
  let n := if thorough then 6000 else 500
  let bnd := Bnd.mk'
  let s0 : UInt64 := UInt64.ofNat (seed * 2654435761 + 12345)
  let (ls, s1) := table.foldl (fun (acc : Array String × UInt64) e =>
    genEntry bnd e n acc.2 (acc.1.push s!"#fn {e.name} {e.file} {e.cname}")) (#[], s0)
  let (ls, _) := table2.foldl (fun (acc : Array String × UInt64) e =>
    genEntry2 bnd thorough e (if thorough then 3000 else 300) acc.2 (acc.1.push s!"#fn {e.name} {e.file} {e.cname}")) (ls, s1)
  ls.toList

end Driver.Gen.CFun
