import Carquet.Util
import Carquet.Gen.CFun
/-
Input generator for the translator self-check (`driver --gen cfun <seed> <tier>`, component `cfun`).

For every function in `Carquet.Gen.CFun.table` (the definitions translated from the C source of this run) it emits
argument tuples as bit patterns together with the value of the generated `<f>_defined` predicate:

  cfun f=<name> a=<a0>,<a1>,... d=<0|1>

`d=0` tells the harness NOT to execute the call (it would be undefined behaviour in C).  Arguments: boundary values of
each parameter type (0, 1, -1, min/max, every power of two and its neighbours, small numbers), uniformly random
patterns, values next to another argument of the same call (guards compare arguments with each other), and, for
functions of several parameters, every third tuple entirely from 0..24 / -1 / -2 (relations between the arguments are
then hit densely).  One-parameter functions get every boundary value; the others get seeded tuples.
-/
namespace Driver.Gen.CFun
open Carquet.Gen.CFun (Entry table)

/-- splitmix64 -/
def next (s : UInt64) : UInt64 × UInt64 :=
  let s := s + 0x9E3779B97F4A7C15
  let z := (s ^^^ (s >>> 30)) * 0xBF58476D1CE4E5B9
  let z := (z ^^^ (z >>> 27)) * 0x94D049BB133111EB
  (z ^^^ (z >>> 31), s)

def below (s : UInt64) (n : Nat) : Nat × UInt64 :=
  let (r, s) := next s
  (if n = 0 then 0 else r.toNat % n, s)

/-- boundary bit patterns of a `w`-bit integer type (`w = 0`: `_Bool`) -/
def boundary (w : Nat) : List Nat :=
  if w = 0 then [0, 1] else
  let m := 2 ^ w
  let pows := (List.range w).flatMap (fun k => [2 ^ k - 1, 2 ^ k, 2 ^ k + 1])
  let negs := (List.range w).flatMap (fun k => [m - 2 ^ k, m - 2 ^ k - 1])       -- -(2^k), -(2^k)-1 as patterns
  ((List.range 18) ++ pows ++ negs ++ [m - 1, m - 2, m / 2, m / 2 - 1, m / 2 + 1, 100, 255, 1000, 16777216, 16777217]).map (· % m)
    |>.eraseDups

def clampW (w : Nat) (v : Nat) : Nat := if w = 0 then (if v % 2 = 0 then 0 else 1) else v % 2 ^ w

/-- the boundary sets, computed once -/
structure Bnd where
  b0 : Array Nat
  b8 : Array Nat
  b16 : Array Nat
  b32 : Array Nat
  b64 : Array Nat

def Bnd.mk' : Bnd := ⟨(boundary 0).toArray, (boundary 8).toArray, (boundary 16).toArray, (boundary 32).toArray, (boundary 64).toArray⟩

def Bnd.get (b : Bnd) (w : Nat) : Array Nat :=
  if w = 0 then b.b0 else if w = 8 then b.b8 else if w = 16 then b.b16 else if w = 32 then b.b32 else b.b64

/-- one argument: boundary / random / small / next to an earlier argument -/
def drawArg (bnd : Bnd) (w : Nat) (earlier : Array Nat) (s : UInt64) : Nat × UInt64 :=
  let (k, s) := below s 100
  if k < 45 then
    let b := bnd.get w
    let (i, s) := below s b.size
    (clampW w (b.getD i 0), s)
  else if k < 62 then
    let (r, s) := next s
    (clampW w r.toNat, s)
  else if k < 72 then
    let (r, s) := below s 13
    (clampW w r, s)
  else if k < 80 then
    let (r, s) := below s 70000
    (clampW w r, s)
  else if earlier.size = 0 then
    let (r, s) := next s
    (clampW w r.toNat, s)
  else
    let (i, s) := below s earlier.size
    let (d, s) := below s 5
    let base := earlier.getD i 0
    -- base - 2 .. base + 2, and occasionally the sum / difference of two earlier arguments
    let (j, s) := below s earlier.size
    let (m, s) := below s 8
    let other := earlier.getD j 0
    let v := if m = 0 then base + other else if m = 1 then base + 2 ^ 64 - other else base + 2 ^ 64 + d - 2
    (clampW w v, s)

/-- one argument of an "all small" tuple: 0..24, occasionally -1 / -2 (as bit patterns); relational guards between the
arguments (`a <= b - c`) are hit densely this way -/
def drawSmall (w : Nat) (s : UInt64) : Nat × UInt64 :=
  let (k, s) := below s 28
  (clampW w (if k < 25 then k else if k = 25 then 2 ^ 64 - 1 else if k = 26 then 2 ^ 64 - 2 else 100), s)

def drawArgsSmall (ws : List Nat) (s : UInt64) : Array Nat × UInt64 :=
  ws.foldl (fun (acc : Array Nat × UInt64) w =>
    let (v, s) := drawSmall w acc.2
    (acc.1.push v, s)) (#[], s)

def drawArgs (bnd : Bnd) (ws : List Nat) (s : UInt64) : Array Nat × UInt64 :=
  ws.foldl (fun (acc : Array Nat × UInt64) w =>
    let (v, s) := drawArg bnd w acc.1 acc.2
    (acc.1.push v, s)) (#[], s)

def lineOf (e : Entry) (a : List Nat) : Option String :=
  match e.eval a with
  | some (_, d) => some s!"cfun f={e.name} a={Carquet.Util.showList toString a} d={if d then 1 else 0}"
  | none => none

def thin (b : Array Nat) (r : Nat) : List Nat :=
  b.toList.zipIdx.filterMap (fun p => if p.2 % 3 = r || p.1 < 10 then some p.1 else none)

def genEntry (bnd : Bnd) (e : Entry) (n : Nat) (s : UInt64) (out : Array String) : Array String × UInt64 :=
  let ws := e.args.map (·.2.1)
  let exhaustive : List (List Nat) :=
    match ws with
    | [w] => (bnd.get w).toList.map (fun v => [v])
    | [w1, w2] =>
      -- pairs over thinned boundary sets when that fits the budget
      let b1 := thin (bnd.get w1) 0
      let b2 := thin (bnd.get w2) 1
      if b1.length * b2.length ≤ 2 * n then b1.flatMap (fun x => b2.map (fun y => [x, y])) else []
    | _ => []
  let out := exhaustive.foldl (fun (o : Array String) a => match lineOf e a with | some l => o.push l | none => o) out
  (List.range n).foldl (fun (acc : Array String × UInt64) i =>
    let (a, s) := if ws.length ≥ 2 && i % 3 = 0 then drawArgsSmall ws acc.2 else drawArgs bnd ws acc.2
    match lineOf e a.toList with
    | some l => (acc.1.push l, s)
    | none => (acc.1, s)) (out, s)

/-! ### stage 2: functions with array arguments (`cfun2 f=<name> a0=<v> a1=<v> … d=<0|1>`)

Arrays: lengths around every stripe / word / varint boundary (0..12, 15..17, 31..33, 63..65, …), contents random, all
zero, all ones, "continuation bytes" (high bit set, for the varint readers), small values.  Integer arguments whose name
says they are a length (`len`, `length`, `size`, `count`, `n`) are mostly the exact length of an array argument,
sometimes one less / one more / far off (the generated `_defined` then decides whether the call is executed at all);
`(p, end)` pairs likewise.  Arrays of a fixed length (global tables) get that length. -/

open Carquet.Impl.CSem (Val Kind)
open Carquet.Gen.CFun (Entry2 table2)

def lengths : Array Nat :=
  #[0, 1, 2, 3, 4, 5, 6, 7, 8, 9, 10, 11, 12, 13, 15, 16, 17, 20, 23, 24, 25, 31, 32, 33, 34, 39, 40, 41, 47, 48, 63, 64, 65, 71, 72,
    95, 96, 97, 100, 127, 128, 129, 200, 255, 256, 257]

def drawLen (thorough : Bool) (s : UInt64) : Nat × UInt64 :=
  let (k, s) := below s 100
  if k < 40 then below s 14
  else if k < 90 then
    let (i, s) := below s lengths.size
    (lengths.getD i 0, s)
  else below s (if thorough then 1500 else 320)

def drawElems (w : Nat) (n : Nat) (s : UInt64) : List Nat × UInt64 :=
  let (mode, s) := below s 8
  let m := 2 ^ w
  (List.range n).foldl (fun (acc : List Nat × UInt64) _ =>
    let (r, s) := next acc.2
    let v := if mode ≤ 2 then r.toNat % m
             else if mode = 3 then 0
             else if mode = 4 then m - 1
             else if mode = 5 then (if r.toNat % 4 = 0 then r.toNat / 8 % (m / 2) else m / 2 + r.toNat / 8 % (m / 2))   -- high bit mostly set
             else if mode = 6 then r.toNat % 4
             else (if r.toNat % 3 = 0 then m - 1 else r.toNat / 8 % m)
    (acc.1 ++ [v], s)) ([], s)

def isLenName (nm : String) : Bool :=
  ["len", "length", "size", "count", "n", "a_len", "b_len", "num_blocks"].contains nm

def showVal (k : Kind) (v : Val) : String :=
  match k, v with
  | .arr 8, .a xs => Carquet.Util.toHex (xs.map UInt8.ofNat)
  | _, .a xs => Carquet.Util.showList toString xs
  | _, .n x => toString x

def drawArgs2 (bnd : Bnd) (thorough : Bool) (e : Entry2) (s : UInt64) : List Val × UInt64 :=
  -- arrays first (their lengths steer the integer arguments), then the rest in order
  let (arrs, s) := e.args.foldl (fun (acc : List (String × List Nat) × UInt64) a =>
    match a.2 with
    | .arr w =>
      let (n, s) := match e.fixed.find? (·.1 == a.1) with
        | some (_, n) => (n, acc.2)
        | none => drawLen thorough acc.2
      let (xs, s) := drawElems w n s
      (acc.1 ++ [(a.1, xs)], s)
    | _ => acc) ([], s)
  let lens := (arrs.filter (fun a => (e.fixed.find? (·.1 == a.1)).isNone)).map (·.2.length)
  let (sm, s) := below s 3          -- every third tuple: all the other integers small (relations between them are hit densely)
  e.args.foldl (fun (acc : List Val × UInt64) a =>
    match a.2 with
    | .arr _ => (acc.1 ++ [Val.a (((arrs.find? (·.1 == a.1)).map (·.2)).getD [])], acc.2)
    | .off base =>
      let L := (((arrs.find? (·.1 == base)).map (·.2.length)).getD 0)
      let (k, s) := below acc.2 100
      let (r, s) := below s (L + 1)
      (acc.1 ++ [Val.n (if k < 70 then L else if k < 80 then L - 1 else if k < 90 then L + 1 else r)], s)
    | .int w _ =>
      let (k, s) := below acc.2 100
      let lenBias := if isLenName a.1 then 80 else 12
      if k < lenBias && !lens.isEmpty then
        let (i, s) := below s lens.length
        let L := lens.getD i 0
        let (m, s) := below s 20
        let v := if m < 13 then L else if m < 15 then L - 1 else if m < 17 then L + 1 else if m = 17 then L + 8 else if m = 18 then L / 2 else 0
        (acc.1 ++ [Val.n (clampW w v)], s)
      else if sm = 0 && !isLenName a.1 then
        let (v, s) := below s 7
        (acc.1 ++ [Val.n (clampW w v)], s)
      else if k < lenBias + 30 && !isLenName a.1 then
        -- small values: table indices, bit widths, shift counts
        let (v, s) := below s 41
        let (m, s) := below s 12
        (acc.1 ++ [Val.n (clampW w (if m = 0 then 2 ^ 64 - 1 else if m < 6 then v % 9 else v))], s)
      else
        let earlier := (acc.1.filterMap (fun v => match v with | .n x => some x | _ => none)).toArray
        let (v, s) := drawArg bnd w earlier s
        (acc.1 ++ [Val.n v], s)) ([], s)

def lineOf2 (e : Entry2) (a : List Val) : Option String :=
  match e.eval a with
  | some (_, d) =>
    let parts := (e.args.zip a).zipIdx.map (fun p => s!"a{p.2}={showVal p.1.1.2 p.1.2}")
    some s!"cfun2 f={e.name} {" ".intercalate parts} d={if d then 1 else 0}"
  | none => none

def genEntry2 (bnd : Bnd) (thorough : Bool) (e : Entry2) (budget : Nat) (s : UInt64) (out : Array String) : Array String × UInt64 :=
  let cost := 1 + (e.fixed.foldl (fun acc f => acc + f.2) 0) / 48
  let n := max 8 (budget / cost)
  (List.range n).foldl (fun (acc : Array String × UInt64) _ =>
    let (a, s) := drawArgs2 bnd thorough e acc.2
    match lineOf2 e a with
    | some l => (acc.1.push l, s)
    | none => (acc.1, s)) (out, s)

/-! ### stage 3: functions with struct arguments (`cfun3 f=<name> a0=<v> a1=<v> … d=<0|1>`)

A struct argument is the comma-separated list of its leaf values (`Entry3.layout`).  Array and integer arguments are drawn
as in stage 2.  Struct states: in two thirds of the tuples a state that satisfies the invariants the link theorems assume
(REACHABLE: the pointer field at the start of its array, `size` / `capacity` the length of that array, the cursor not
beyond it, a bit count in 0..64 with the accumulator below `2^bits`, a nesting level in 0..32, the error latch mostly
clear), otherwise one or several leaves are pushed out of it (UNREACHABLE: cursor beyond the end, negative bit count,
accumulator with stale high bits, a pointer into the middle of the array, status already set, random patterns); the
generated `_defined` decides whether such a call is executed at all. -/

open Carquet.Gen.CFun (Entry3 table3)

/-- the control values of one struct state -/
structure Ctl where
  off : Nat
  size : Nat
  pos : Nat
  bits : Nat
  buf : Nat
  lvl : Nat

def lastComp (nm : String) : String := ((nm.splitOn ".").getLast?).getD nm

/-- `good`: a state inside the invariants; otherwise each control value is independently likely to leave them -/
def drawCtl (L : Nat) (good : Bool) (s : UInt64) : Ctl × UInt64 :=
  let (k1, s) := below s 100
  let (r1, s) := below s 4
  let off := if good || k1 < 70 then 0 else r1
  let (k2, s) := below s 100
  let (r2, s) := next s
  let size := if good || k2 < 60 then L - off
              else if k2 < 70 then L - off - 1 else if k2 < 80 then L - off + 1 else if k2 < 88 then 0
              else if k2 < 94 then r2.toNat % 40 else r2.toNat
  let (k3, s) := below s 100
  let (r3, s) := below s (size % 100000 + 1)
  let (r3b, s) := next s
  let pos := if good then (if k3 < 25 then size else if k3 < 35 then 0 else r3)
             else if k3 < 45 then r3 else if k3 < 60 then size else if k3 < 80 then size + 1
             else if k3 < 90 then size + 1 + r3b.toNat % 9 else r3b.toNat
  let (k4, s) := below s 100
  let (r4, s) := below s 65
  let (r4b, s) := next s
  let bits := if good then (if k4 < 10 then 0 else if k4 < 18 then 64 else if k4 < 26 then 56 else if k4 < 34 then 32 else r4)
              else if k4 < 50 then r4 else if k4 < 60 then 2 ^ 32 - 1 else if k4 < 70 then 65 else if k4 < 78 then 2 ^ 32 - 8
              else if k4 < 86 then 72 else r4b.toNat % 2 ^ 32
  let (k5, s) := below s 100
  let (r5, s) := next s
  let buf := if good || k5 < 40 then (if bits ≥ 64 then r5.toNat else r5.toNat % 2 ^ bits) else r5.toNat
  let (k6, s) := below s 100
  let (r6, s) := below s 33
  let lvl := if good then (if k6 < 20 then 0 else if k6 < 30 then 32 else if k6 < 40 then 31 else if k6 < 60 then 1 else r6)
             else if k6 < 50 then r6 else if k6 < 65 then 33 else if k6 < 80 then 2 ^ 32 - 1 else 40
  (⟨off, size, pos, bits, buf, lvl⟩, s)

def drawLeaf (bnd : Bnd) (ctl : Ctl) (good : Bool) (nm : String) (k : Kind) (s : UInt64) : Nat × UInt64 :=
  let l := lastComp nm
  match k with
  | .off base =>
    if base == "" then
      let (r, s) := next s
      let (m, s) := below s 3
      (if m = 0 then 0 else r.toNat, s)
    else (ctl.off, s)
  | .arr _ => (0, s)
  | .int w _ =>
    if l == "bit_width" || l == "bitpack_pos" || l == "bitpack_count" || l == "run_remaining" then
      let (m, s) := below s 12
      let (v, s) := below s (if l == "bit_width" then 34 else if l == "run_remaining" then 20 else 9)
      let (r, s) := next s
      (clampW w (if good then (if m = 0 && l == "run_remaining" then 0 else v)
                 else if m < 6 then v else if m < 8 then 2 ^ 64 - 1 else if m < 10 then v + 30 else r.toNat), s)
    else if l == "size" || l == "capacity" then (clampW w ctl.size, s)
    else if l == "pos" || l == "byte_pos" || l.endsWith "_pos" && l != "bit_pos" then (clampW w ctl.pos, s)
    else if l == "left" || l == "remaining" || l == "avail" then (clampW w (ctl.size - ctl.pos), s)
    else if l == "buffer_bits" || l == "bits_in_buffer" then (clampW w ctl.bits, s)
    else if l == "buffer" then (clampW w ctl.buf, s)
    else if l == "nesting_level" then (clampW w ctl.lvl, s)
    else if l == "status" then
      let (m, s) := below s 100
      let (r, s) := below s 40
      (clampW w (if good then (if m < 85 then 0 else r) else (if m < 50 then 0 else r)), s)
    else if l == "bit_pos" then
      let (r, s) := below s 8
      (clampW w r, s)
    else if w = 0 then
      let (r, s) := below s 2
      (r, s)
    else
      let (m, s) := below s 3
      if m = 0 then
        let (v, s) := below s 12
        (clampW w v, s)
      else drawArg bnd w #[] s

/-- the leaves of one struct argument; `lenOf` = length of an array argument by name: the control values (offset, size,
cursor) are drawn afresh at every pointer leaf, for the array that leaf points into -/
def drawStruct (bnd : Bnd) (lay : List (String × Kind × Nat)) (L0 : Nat) (lenOf : String → Nat) (good : Bool) (s : UInt64) :
    List Nat × UInt64 :=
  let (ctl0, s) := drawCtl L0 good s
  let r := lay.foldl (fun (acc : (List Nat × Ctl) × UInt64) lf =>
    match lf.2.1 with
    | .arr w =>
      let (xs, s) := drawElems w lf.2.2 acc.2
      ((acc.1.1 ++ xs, acc.1.2), s)
    | .off base =>
      let (ctl, s) := if base == "" then (acc.1.2, acc.2) else drawCtl (lenOf base) good acc.2
      let (v, s) := drawLeaf bnd ctl good lf.1 (.off base) s
      ((acc.1.1 ++ [v], ctl), s)
    | k =>
      let (v, s) := drawLeaf bnd acc.1.2 good lf.1 k acc.2
      ((acc.1.1 ++ [v], acc.1.2), s)) (([], ctl0), s)
  (r.1.1, r.2)

def smallBitsName (nm : String) : Bool := ["num_bits", "bit", "bit_width", "n_bits"].contains nm

def drawArgs3 (bnd : Bnd) (thorough : Bool) (e : Entry3) (s : UInt64) : List Val × UInt64 :=
  -- everything but the structs as in stage 2 (struct arguments are placeholders there)
  let e2 : Entry2 := { name := e.name, cname := e.cname, file := e.file, args := e.args, outs := e.outs,
                       fixed := e.fixed, eval := fun _ => none }
  let (vals, s) := drawArgs2 bnd thorough e2 s
  let named := (e.args.map (·.1)).zip vals
  let (g, s) := below s 3
  let good := g != 0
  (e.args.zip vals).foldl (fun (acc : List Val × UInt64) av =>
    match e.layout.find? (·.1 == av.1.1) with
    | some (_, _, lay) =>
      let base := (lay.findSome? (fun lf => match lf.2.1 with | .off b => if b == "" then none else some b | _ => none)).getD ""
      let lenOf := fun (b : String) => match named.find? (·.1 == b) with | some (_, .a xs) => xs.length | _ => 0
      let (xs, s) := drawStruct bnd lay (lenOf base) lenOf good acc.2
      (acc.1 ++ [Val.a xs], s)
    | none =>
      match av.1.2, av.2 with
      | .int w _, .n _ =>
        if smallBitsName av.1.1 then
          let (m, s) := below acc.2 20
          let (v, s) := below s 66
          (acc.1 ++ [Val.n (clampW w (if m = 0 then 2 ^ 32 - 1 else if m = 1 then 100 else if m = 2 then 32 else if m = 3 then 64 else v))], s)
        else (acc.1 ++ [av.2], acc.2)
      | _, _ => (acc.1 ++ [av.2], acc.2)) ([], s)

/-- directed tuples for `carquet_bitunpack_32(input, count, bit_width, values)`: a width 0..32, a count 0..40, `values` with
room for `count` words (sometimes one short), `input` with exactly the packed bytes (sometimes one short / a few more) -/
def directBitunpack32 (s : UInt64) : List Val × UInt64 :=
  let (w, s) := below s 34
  let w := if w = 33 then 8 else w
  let (count, s) := below s 41
  let (m1, s) := below s 10
  let (m2, s) := below s 10
  let need := (count / 8) * w + ((count % 8) * w + 7) / 8
  let nIn := if m1 = 0 then need - 1 else if m1 = 1 then need + 3 else need
  let nVal := if m2 = 0 then count - 1 else if m2 = 1 then count + 2 else count
  let (inp, s) := drawElems 8 nIn s
  let (vals, s) := drawElems 32 nVal s
  let (tmp, s) := drawElems 32 8 s
  ([Val.a inp, Val.n count, Val.n w, Val.a vals, Val.a tmp], s)

def lineOf3 (e : Entry3) (a : List Val) : Option String :=
  match e.eval a with
  | some (_, d) =>
    let parts := (e.args.zip a).zipIdx.map (fun p => s!"a{p.2}={showVal p.1.1.2 p.1.2}")
    some s!"cfun3 f={e.name} {" ".intercalate parts} d={if d then 1 else 0}"
  | none => none

def genEntry3 (bnd : Bnd) (thorough : Bool) (e : Entry3) (n : Nat) (s : UInt64) (out : Array String) : Array String × UInt64 :=
  (List.range n).foldl (fun (acc : Array String × UInt64) _ =>
    let (k, s0) := below acc.2 3
    let (a, s) := if e.name == "carquet_bitunpack_32" && k != 0 then directBitunpack32 s0 else drawArgs3 bnd thorough e s0
    match lineOf3 e a with
    | some l => (acc.1.push l, s)
    | none => (acc.1, s)) (out, s)

def gen (seed : Nat) (thorough : Bool) : List String :=
  let n := if thorough then 6000 else 500
  let bnd := Bnd.mk'
  let s0 : UInt64 := UInt64.ofNat (seed * 2654435761 + 12345)
  let (ls, s1) := table.foldl (fun (acc : Array String × UInt64) e =>
    genEntry bnd e n acc.2 (acc.1.push s!"#fn {e.name} {e.file} {e.cname}")) (#[], s0)
  let (ls, s2) := table2.foldl (fun (acc : Array String × UInt64) e =>
    genEntry2 bnd thorough e (if thorough then 3000 else 300) acc.2 (acc.1.push s!"#fn {e.name} {e.file} {e.cname}")) (ls, s1)
  let (ls, _) := table3.foldl (fun (acc : Array String × UInt64) e =>
    genEntry3 bnd thorough e (if thorough then 3000 else 300) acc.2 (acc.1.push s!"#fn {e.name} {e.file} {e.cname}")) (ls, s2)
  ls.toList

end Driver.Gen.CFun
