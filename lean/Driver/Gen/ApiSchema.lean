import Carquet.Util
import Carquet.Spec.Thrift
import Carquet.Spec.File.Write
/-
Generator of reference files for the component `apischema` (`driver --gen apischema <seed> <tier>`): files whose
footer is built directly as a Thrift value from parquet.thrift's field numbers (no carquet code, no Impl model) and
whose schema elements carry logical types of EVERY union member (1 STRING … 8 TIMESTAMP, 10 INTEGER, 11 UNKNOWN/NULL,
12 JSON, 13 BSON, 14 UUID, 15 FLOAT16, with all parameter values), unions without a member and with a member newer
than carquet (16, 17, 20), converted types of every kind (and values outside the enum), scale / precision / field_id,
at leaves and at groups, present and absent; in canonical and in long-header encodings, with unknown fields inside the
element, the union and the member structs.  The files have no row groups (a legal, empty table): only the schema is read.

Line:  apischema id=<n> file=x<bytes> want=<per element: logical | converted>
  logical   := N | <thrift union field>:<a>:<b>    (what the generator put there; a, b = the member's parameters)
The first files walk the members systematically: file k puts member k on a leaf and on a group.
-/
namespace Driver.Gen.ApiSchema
open Carquet Carquet.Util Carquet.Spec.Thrift

abbrev G := StateM UInt64
abbrev Bytes := List UInt8

def mix (s' : UInt64) : UInt64 :=
  let z : UInt64 := (s' ^^^ (s' >>> 30)) * 0xBF58476D1CE4E5B9
  let z : UInt64 := (z ^^^ (z >>> 27)) * 0x94D049BB133111EB
  z ^^^ (z >>> 31)

def next : G UInt64 := modifyGet fun (s : UInt64) => (mix (s + 0x9E3779B97F4A7C15), s + 0x9E3779B97F4A7C15)
def below (n : Nat) : G Nat := do
  let x ← next
  pure (if n = 0 then 0 else x.toNat % n)
def chance (num den : Nat) : G Bool := do pure ((← below den) < num)
def pick {α : Type} [Inhabited α] (xs : List α) : G α := do pure (xs.getD (← below xs.length) default)

/-- an annotation as the generator intends it: union field number + the two parameters -/
structure Ann where
  member : Option (Nat × Int × Int)   -- none: no field 10; (0, _, _): field 10 with an empty union
  converted : Option Int
  deriving Repr, Inhabited

def unitTV (u : Int) : TVal := .struct [(u + 1, .struct [])]

/-- some unknown fields for the inside of a struct (ids the format does not define there) -/
def junk (k : Nat) : List (Int × TVal) :=
  match k % 4 with
  | 0 => []
  | 1 => [(20, .i32 7)]
  | 2 => [(25, .binary [1, 2, 3]), (30, .list .bool [.bool true, .bool false])]
  | _ => [(40, .struct [(1, .i64 (-5)), (2, .struct [])])]

def insertField (f : Int × TVal) : List (Int × TVal) → List (Int × TVal)
  | [] => [f]
  | g :: r => if f.1 < g.1 then f :: g :: r else g :: insertField f r

def withJunk (known : List (Int × TVal)) (k : Nat) : List (Int × TVal) := (junk k).foldl (fun acc f => insertField f acc) known

/-- the LogicalType union for member `m` with parameters `a`, `b`; `j`: unknown fields added -/
def unionTV (m : Nat) (a b : Int) (j : Nat) : TVal :=
  let memberStruct : List (Int × TVal) :=
    if m = 5 then [(1, .i32 a), (2, .i32 b)]                              -- DECIMAL: scale, precision
    else if m = 7 ∨ m = 8 then [(1, .bool (b != 0)), (2, unitTV a)]        -- TIME / TIMESTAMP: isAdjustedToUTC, unit
    else if m = 10 then [(1, .i8 a), (2, .bool (b != 0))]                  -- INTEGER: bitWidth, isSigned
    else []
  if m = 0 then .struct (withJunk [] (if j % 2 = 0 then 0 else 3))
  else .struct (withJunk [((m : Int), .struct (withJunk memberStruct j))] (j / 4))

structure El where
  name : String
  rep : Option Nat
  ptype : Option Nat
  tlen : Nat
  nchild : Nat
  ann : Ann
  scale : Int := 0
  precision : Int := 0
  fieldId : Option Int := none
  junkSel : Nat := 0
  deriving Repr, Inhabited

def strBytes (s : String) : Bytes := s.toUTF8.toList

def optF {α : Type} (id : Int) (mk : α → TVal) : Option α → List (Int × TVal)
  | none => []
  | some x => [(id, mk x)]

def elTV (e : El) : TVal :=
  .struct (withJunk
    (optF 1 (fun n : Nat => .i32 n) e.ptype ++ (if e.tlen = 0 then [] else [((2 : Int), TVal.i32 e.tlen)]) ++
     optF 3 (fun r : Nat => .i32 r) e.rep ++ [((4 : Int), TVal.binary (strBytes e.name))] ++
     (if e.nchild = 0 then [] else [((5 : Int), TVal.i32 e.nchild)]) ++ optF 6 .i32 e.ann.converted ++
     (if e.scale = 0 then [] else [((7 : Int), TVal.i32 e.scale)]) ++ (if e.precision = 0 then [] else [((8 : Int), TVal.i32 e.precision)]) ++
     optF 9 .i32 e.fieldId ++
     (match e.ann.member with
      | none => []
      | some (m, a, b) => [((10 : Int), unionTV m a b e.junkSel)])) (e.junkSel / 16))

def le32 (n : Nat) : Bytes := [UInt8.ofNat (n % 256), UInt8.ofNat (n / 256 % 256), UInt8.ofNat (n / 65536 % 256), UInt8.ofNat (n / 16777216 % 256)]

def magic : Bytes := [0x50, 0x41, 0x52, 0x31]

def fileOf (F : Spec.File.ThriftForm) (version : Int) (els : List El) (createdBy : Bool) : Bytes :=
  let md : TVal := .struct ([(1, .i32 version), (2, .list .struct (els.map elTV)), (3, .i64 0), (4, .list .struct [])] ++
    (if createdBy then [(6, .binary (strBytes "reference writer (Lean Spec)"))] else []))
  let footer := Spec.File.encodeValF F md
  magic ++ footer ++ le32 footer.length ++ magic

/-- parameters for member `m`: boundary-directed and random -/
def genParams (m : Nat) : G (Int × Int) := do
  if m = 5 then
    let s ← pick ([0, 1, 2, 9, 18, 38, -1, 2147483647, -2147483648, 100] : List Int)
    let p ← pick ([1, 9, 10, 18, 38, 76, 0, 2147483647, -2147483648, 5] : List Int)
    pure (s, p)
  else if m = 7 ∨ m = 8 then pure ((← below 3 : Nat), (← below 2 : Nat))
  else if m = 10 then pure (← pick ([8, 16, 32, 64, 0, 127, -128, -1, 24] : List Int), (← below 2 : Nat))
  else pure (0, 0)

def members : List Nat := [1, 2, 3, 4, 5, 6, 7, 8, 10, 11, 12, 13, 14, 15]

def genAnn (force : Option Nat) : G Ann := do
  let member ← match force with
    | some m => do let (a, b) ← genParams m; pure (some (m, a, b))
    | none => do
      let k ← below 10
      if k < 3 then pure none
      else if k = 3 then pure (some (0, 0, 0))                           -- field 10 present, no member
      else if k = 4 then pure (some (← pick [16, 17, 20, 9], 0, 0))      -- a member this list does not know (9 is unassigned)
      else do let m ← pick members; let (a, b) ← genParams m; pure (some (m, a, b))
  let conv ← do
    let k ← below 8
    if k < 3 then pure none
    else if k = 3 then pure (some (← pick ([-1, 22, 99, 2147483647, -2147483648] : List Int)))
    else pure (some ((← below 22 : Nat) : Int))
  pure ⟨member, conv⟩

def leafTypes : List Nat := [0, 1, 2, 3, 4, 5, 6, 7]

/-- a random well-formed subtree; returns its depth-first elements -/
partial def genTree (depth budget : Nat) (forceLeaf forceGroup : Option Nat) (isRoot : Bool) : G (List El) := do
  let name ← pick ["a", "b", "c", "price", "ts", "list", "element", "key_value", "id", "payload"]
  let rep ← if isRoot then pick [none, none, some 0, some 1] else pick [some 0, some 1, some 2, some 1, some 0, none]
  let wantGroup := isRoot || (depth < 4 && budget ≥ 3 && (← chance 2 5)) || (forceGroup.isSome && depth < 2)
  let js ← if (← chance 1 3) then below 64 else pure 0
  if !wantGroup then
    let pt ← pick leafTypes
    let tl ← if pt = 7 then (1 + ·) <$> below 16 else pure 0
    let ann ← genAnn forceLeaf
    let sc ← if (← chance 1 5) then pick ([2, 38, -3] : List Int) else pure 0
    let pr ← if (← chance 1 5) then pick ([9, 18, 1] : List Int) else pure 0
    let fid ← if (← chance 1 4) then pure (some ((← below 1000 : Nat) : Int)) else pure none
    pure [{ name := name, rep := rep, ptype := some pt, tlen := tl, nchild := 0, ann := ann, scale := sc, precision := pr,
            fieldId := fid, junkSel := js }]
  else
    let k ← (1 + ·) <$> below (if isRoot then 4 else 3)
    let mut kids : List El := []
    let mut n := 0
    let mut left := max 1 (budget - 1)
    let mut fl := forceLeaf
    let mut fg := if isRoot then forceGroup else none
    for i in List.range k do
      if left ≥ 1 then
        let sub ← genTree (depth + 1) (if i + 1 = k then left else max 1 (left / 2)) fl fg false
        -- the forced annotations are placed once: on the first leaf reached and on the first inner group
        fl := none
        fg := none
        kids := kids ++ sub
        n := n + 1
        left := left - sub.length
    let ann ← if isRoot then pure ⟨none, none⟩ else genAnn (if isRoot then none else forceGroup)
    pure ({ name := if isRoot then "schema" else name, rep := rep, ptype := none, tlen := 0, nchild := n, ann := ann, junkSel := js } :: kids)

def showAnn (a : Ann) : String :=
  (match a.member with
   | none => "N"
   | some (m, x, y) => s!"{m}:{x}:{y}") ++ "|" ++ (match a.converted with | none => "-" | some c => toString c)

def genFile (id : Nat) (force : Option Nat) : G String := do
  let els ← genTree 0 (3 + (← below 12)) force force true
  -- a root without children cannot be opened (no column): make sure there is at least one leaf (genTree gives ≥ 1 child)
  let F : Spec.File.ThriftForm ← match (← below 3) with
    | 0 => pure {}
    | 1 => pure { fieldForm := 1, listForm := 1, boolAlt := true }
    | _ => pure { fieldForm := ← pick [0, 2, 3], listForm := ← pick [0, 2, 3], boolAlt := ← chance 1 2 }
  let file := fileOf F (← pick [1, 2]) els (← chance 1 2)
  pure s!"apischema id={id} file={toHex file} n={els.length} want={",".intercalate (els.map (fun e => showAnn e.ann))}"

def gen (seed : Nat) (thorough : Bool) : List String :=
  let run : G (List String) := do
    let mut out : List String := []
    let mut id := 0
    -- every member once on a leaf and on a group, twice over (different parameters)
    for _ in List.range (if thorough then 6 else 2) do
      for m in members ++ [0, 16] do
        out := (← genFile id (some m)) :: out
        id := id + 1
    for _ in List.range (if thorough then 3000 else 250) do
      out := (← genFile id none) :: out
      id := id + 1
    pure out.reverse
  (run.run (UInt64.ofNat (seed * 0x2545F4914F6CDD1D + 0x5A17C3))).1

end Driver.Gen.ApiSchema
