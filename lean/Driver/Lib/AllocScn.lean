import Carquet.Util
import Carquet.Impl.Buffer
import Carquet.Impl.Arena
import Carquet.Impl.AllocFlow
import Carquet.Impl.AllocExt
/-
C19 scenario lines (alloc_scn), the request-count tie: for the scenarios whose allocation requests the Impl models
predict exactly, the model is run call by call under the same oracle (the k-th request refused) and must reproduce,
for every recorded API call, its status, the number of allocation requests it made, and (column reads / skips) the
count it returned.  Malloc-level injection only (`lvl=0`); arena-level injection (`lvl=1`) stays tied by site names.
-/
namespace Driver.Lib.AllocScn
open Carquet Carquet.Util
open Carquet.Impl.Alloc
open Carquet.Impl.Alloc.Flow
open Carquet.Impl.Alloc.Ext

def horizon : Nat := 8192

def oracleOf (k : Nat) : Oracle := failSet [k] horizon

/-- outcome of one modelled call: failed?, requests made, value returned (where the harness records one) -/
structure CallOut where
  failed : Bool
  reqs : Nat
  res : Int := 0
deriving Repr

def used (o o' : Oracle) : Nat := o.length - o'.length

/-- run an `M` computation as one call -/
def callM (m : M α) (o : Oracle) : CallOut × Option α × Oracle :=
  match m o with
  | (.ok a, o') => (⟨false, used o o', 0⟩, some a, o')
  | (.error _, o') => (⟨true, used o o', 0⟩, none, o')

/-- a script: calls that only depend on the state left by their predecessors; stops at the first failing call -/
def runScript {σ : Type} : List (σ → Oracle → CallOut × Option σ × Oracle) → σ → Oracle → List CallOut
  | [], _, _ => []
  | c :: cs, s, o =>
    match c s o with
    | (out, some s', o') => out :: (if out.failed then [] else runScript cs s' o')
    | (out, none, _) => [out]

/-! ### schema / schemag -/

def nameOf (len : Nat) : List UInt8 := List.replicate len 120

def schemaCalls (ncols nameLen : Nat) (groups : Bool) : List (Schema → Oracle → CallOut × Option Schema × Oracle) :=
  (fun _ o => callM (schemaCreate true) o) ::
  (List.range ncols).map (fun i => fun (s : Schema) (o : Oracle) =>
    if groups && i % 4 == 1 then
      match schemaAddGroupS s (nameOf nameLen) (i % 3) o with
      | (st, s', o') => (⟨st != .ok, used o o', 0⟩, some s', o')
    else
      match schemaAddColumnS true s (nameOf nameLen) (i % 3) o with
      | (st, s', o') => (⟨st != .ok, used o o', 0⟩, some s', o'))

def emptySchema : Schema := ⟨⟨[], 0, 0, 0, 0⟩, [], [], 0, 0, 0, 0, 0⟩

/-! ### bloom -/

def unitCall (m : M Unit) : Unit → Oracle → CallOut × Option Unit × Oracle := fun _ o => callM m o

def bloomCalls : List (Unit → Oracle → CallOut × Option Unit × Oracle) :=
  [unitCall bloomCreate, unitCall (M.pure ()), unitCall bloomCreate, unitCall bloomCreate, unitCall (M.pure ())]

/-! ### statistics builder -/

/-- the arena of the scenario: default block, filled so that `left` bytes remain in it -/
def pressedArena (left : Nat) : Option Arena.Arena :=
  match Arena.initSize Gen.arenaDefaultBlockSize 8 [] with
  | (some ar, _) =>
    if Gen.arenaDefaultBlockSize > left + 16 then some (Arena.allocAligned ar (Gen.arenaDefaultBlockSize - left - 16) 1 8 []).2.1
    else some ar
  | (none, _) => none

def statsbCalls (minLen maxLen : Nat) : List (Option Arena.Arena → Oracle → CallOut × Option (Option Arena.Arena) × Oracle) :=
  [ fun a o => match callM statsBuilderCreate o with | (c, r, o') => (c, r.map (fun _ => a), o'),
    fun a o => match callM statsBuilderCreate o with | (c, r, o') => (c, r.map (fun _ => a), o'),
    fun a o => (⟨false, 0, 0⟩, some a, o),
    fun a o => (⟨false, 0, 0⟩, some a, o),
    fun a o => match callM (statisticsBuild true a 8 8) o with | (c, r, o') => (c, r.map (·.1), o'),
    fun a o => match callM (statisticsBuild true none minLen maxLen) o with | (c, r, o') => (c, r.map (fun _ => a), o'),
    fun a o => match callM (statisticsBuild true a minLen maxLen) o with | (c, r, o') => (c, r.map (·.1), o') ]

/-! ### page index builders -/

structure PgState where
  ci : Option ColIdx := none
  oi : Option OffIdx := none
  mem : Mem := ⟨0, false⟩

def bytesOf (n : Nat) : List (List UInt8) := List.replicate n [0]

def pgidxCalls (np : Nat) (track : Bool) (size1 size2 : Nat) : List (PgState → Oracle → CallOut × Option PgState × Oracle) :=
  [ fun s o => match colIdxCreate s.mem o with
      | (some b, m, o') => (⟨false, used o o', 0⟩, some { s with ci := some b, mem := m }, o')
      | (none, m, o') => (⟨true, used o o', 0⟩, some { s with mem := m }, o'),
    fun s o => match offIdxCreate track s.mem o with
      | (some b, m, o') => (⟨false, used o o', 0⟩, some { s with oi := some b, mem := m }, o')
      | (none, m, o') => (⟨true, used o o', 0⟩, some { s with mem := m }, o') ] ++
  ((List.range np).flatMap fun i =>
    [ fun (s : PgState) (o : Oracle) => match s.ci with
        | some b => match colIdxAddPage true b (i % 7 != 6) (i % 7 != 6) s.mem o with
          | (st, b', m, o') => (⟨st != .ok, used o o', 0⟩, some { s with ci := some b', mem := m }, o')
        | none => (⟨true, 0, 0⟩, none, o),
      fun (s : PgState) (o : Oracle) => match s.oi with
        | some b => match offIdxAddPage true b s.mem o with
          | (st, b', m, o') => (⟨st != .ok, used o o', 0⟩, some { s with oi := some b', mem := m }, o')
        | none => (⟨true, 0, 0⟩, none, o) ]) ++
  [ fun s o => match callM (indexSerialize true Buffer.init (bytesOf size1)) o with | (c, r, o') => (c, r.map (fun _ => s), o'),
    fun s o => match callM (indexSerialize true Buffer.init (bytesOf size2)) o with | (c, r, o') => (c, r.map (fun _ => s), o') ]

/-! ### column reads: open, get_column, read_batch, skip -/

structure ChunkDesc where
  flags : Nat
  pages : List PageD
deriving Repr

def takePages : Nat → List Nat → List PageD × List Nat
  | 0, l => ([], l)
  | n + 1, r :: nn :: de :: l => match takePages n l with | (ps, rest) => (⟨r, nn, de != 0⟩ :: ps, rest)
  | _ + 1, _ => ([], [])

def parseChunks : Nat → List Nat → List ChunkDesc
  | 0, _ => []
  | fuel + 1, flags :: np :: l => match takePages np l with | (ps, rest) => ⟨flags, ps⟩ :: parseChunks fuel rest
  | _ + 1, _ => []

structure RdState where
  mode : IoMode := .fread
  col : Option (ChunkD × CR × List PageD) := none

def wantMode (m : Nat) : IoMode := if m == 1 then .mmap else if m == 2 then .buffer else .fread

def demoFooter (ncols rg : Nat) : FooterShape :=
  ⟨List.replicate (ncols + 1) [99, 99, 99, 99], List.replicate rg (List.replicate ncols ⟨3, [[99, 99, 99, 99]]⟩), some [67, 67, 67]⟩

def chunkOf (codec : Nat) (mode : IoMode) (d : ChunkDesc) : ChunkD :=
  ⟨mode, codec != 0, d.flags / 2 % 2 == 1 && codec == 0 && mode != .fread, d.flags % 2 == 1, d.flags / 4 % 2 == 1,
   d.flags / 16 % 2 == 1⟩

def rowsOf (d : ChunkDesc) : Nat := (d.pages.map (·.rows)).foldl (· + ·) 0

/-- one recorded call (kind, argument) on the reader model -/
def readCall (codec ncols rg : Nat) (chunks : List ChunkDesc) (kind arg : Nat) (s : RdState) (o : Oracle) :
    CallOut × Option RdState × Oracle :=
  match kind with
  | 1 =>
    match readerOpen true {} (wantMode arg) (demoFooter ncols rg) ncols o with
    | (.ok r, o') => (⟨false, used o o', if r.mode = .mmap then 1 else 0⟩, some { s with mode := r.mode }, o')
    | (.error _, o') => (⟨true, used o o', 0⟩, none, o')
  | 2 =>
    match chunks[arg]? with
    | none => (⟨true, 0, 0⟩, none, o)
    | some d =>
      match callM getColumn o with
      | (c, some _, o') => (c, some { s with col := some (chunkOf codec s.mode d, CR.fresh (rowsOf d), d.pages) }, o')
      | (c, none, o') => (c, none, o')
  | 3 =>
    match s.col with
    | none => (⟨true, 0, 0⟩, none, o)
    | some (c, cr, pages) =>
      match readBatch c pages cr arg o with
      | (some got, cr', ps', o') => (⟨false, used o o', got⟩, some { s with col := some (c, cr', ps') }, o')
      | (none, cr', ps', o') => (⟨true, used o o', -1⟩, some { s with col := some (c, cr', ps') }, o')
  | 4 =>
    match s.col with
    | none => (⟨true, 0, 0⟩, none, o)
    | some (c, cr, pages) =>
      match skip c pages cr arg o with
      | (got, cr', ps', o') => (⟨decide (got < arg), used o o', got⟩, some { s with col := some (c, cr', ps') }, o')
  | _ => (⟨true, 0, 0⟩, none, o)

def readCalls (codec ncols rg : Nat) (chunks : List ChunkDesc) (kinds args : List Nat) :
    List (RdState → Oracle → CallOut × Option RdState × Oracle) :=
  (List.zip kinds args).map (fun ka => readCall codec ncols rg chunks ka.1 ka.2)

/-! ### batch reader -/

def bcolOf (codec : Nat) (mode : IoMode) (d : ChunkDesc) : BCol :=
  ⟨chunkOf codec mode d, d.flags / 8 % 2 == 1, CR.fresh (rowsOf d), d.pages⟩

def batchCalls (codec ncols rg rows want : Nat) (chunks : List ChunkDesc) : List (RdState → Oracle → CallOut × Option RdState × Oracle) :=
  [ fun s o => readCall codec ncols rg chunks 1 want s o,
    fun s o => match callM batchReaderCreate o with | (c, r, o') => (c, r.map (fun _ => s), o') ] ++
  ((List.range rg).map fun g => fun (s : RdState) (o : Oracle) =>
    match callM (batchNextD (s.mode = .mmap) rows (((chunks.drop (g * ncols)).take ncols).map (bcolOf codec s.mode))) o with
    | (c, r, o') => (c, r.map (fun _ => s), o')) ++
  [ fun s o => (⟨false, 0, 0⟩, some s, o) ]

/-! ### write -/

structure WrState where
  schema : Schema := emptySchema
  w : Option Writer := none

/-- payload sizes do not matter for the scenarios that are tied (every buffer stays below its first capacity of 4096
bytes, so it is (re)allocated exactly once, at its first non-empty append); only emptiness does -/
def countPayload : Payload where
  rle := fun _ _ => [[0], [0]]
  packBool := fun b => List.replicate ((b.length + 7) / 8) 0
  compress := fun _ b => b
  bound := fun _ n => n
  header := fun _ _ _ => List.replicate 40 [0]

def countFooter : FileMeta → List (List UInt8) := fun _ => List.replicate 200 [0]

structure WCol where
  nameLen : Nat
  rep : Nat               -- 0 required, 1 optional, 2 repeated
  width : Nat             -- 0: BYTE_ARRAY
  isBool : Bool := false

def wcolDef (c : WCol) : ColDef := ⟨nameOf c.nameLen, if c.rep == 0 then 0 else 1, if c.rep == 2 then 1 else 0, c.isBool⟩

def mkBatch (c : WCol) (rows nn : Nat) : Batch :=
  ⟨rows, (if c.rep == 2 then .absent [1, 0] rows else .given (List.replicate (2 * rows) 0)), .given (List.replicate (2 * rows) 0),
   if c.width == 0 then (List.replicate nn [[0, 0, 0, 0], [0]]).flatten else [List.replicate (c.width * nn) 0]⟩

def wrSchemaCreate : WrState → Oracle → CallOut × Option WrState × Oracle := fun s o =>
  match callM (schemaCreate true) o with | (c, r, o') => (c, r.map (fun sc => { s with schema := sc }), o')

def wrAddColumn (c : WCol) : WrState → Oracle → CallOut × Option WrState × Oracle := fun s o =>
  match schemaAddColumnS true s.schema (nameOf c.nameLen) c.rep o with
  | (st, sc, o') => (⟨st != .ok, used o o', 0⟩, some { s with schema := sc }, o')

def wrAddGroup (nameLen : Nat) : WrState → Oracle → CallOut × Option WrState × Oracle := fun s o =>
  match schemaAddGroupS s.schema (nameOf nameLen) 1 o with
  | (st, sc, o') => (⟨st != .ok, used o o', 0⟩, some { s with schema := sc }, o')

def wrCreate (codec target : Nat) (cols : List WCol) : WrState → Oracle → CallOut × Option WrState × Oracle := fun s o =>
  match callM (writerCreate codec target (cols.map wcolDef)) o with | (c, r, o') => (c, r.map (fun w => { s with w := some w }), o')

def wrBatch (i : Nat) (b : Batch) : WrState → Oracle → CallOut × Option WrState × Oracle := fun s o =>
  match s.w with
  | none => (⟨true, 0, 0⟩, none, o)
  | some w => match callM (writerWriteBatch true pageFinalize countPayload w i b) o with
    | (c, r, o') => (c, r.map (fun w' => { s with w := some w' }), o')

def wrNewRowGroup : WrState → Oracle → CallOut × Option WrState × Oracle := fun s o =>
  match s.w with
  | none => (⟨true, 0, 0⟩, none, o)
  | some w => match callM (flushRowGroup true pageFinalize countPayload {} w) o with
    | (c, r, o') => (c, r.map (fun w' => { s with w := some w' }), o')

def wrClose : WrState → Oracle → CallOut × Option WrState × Oracle := fun s o =>
  match s.w with
  | none => (⟨true, 0, 0⟩, none, o)
  | some w => match callM (writerClose true pageFinalize countPayload {} countFooter w) o with
    | (c, r, o') => (c, r.map (fun _ => s), o')

/-- the 7-column table of the write scenario -/
def tableCols : List WCol :=
  [⟨2, 0, 4, false⟩, ⟨3, 1, 8, false⟩, ⟨3, 1, 8, false⟩, ⟨3, 1, 0, false⟩, ⟨4, 0, 1, true⟩, ⟨3, 0, 4, false⟩, ⟨3, 0, 5, false⟩]

def pairsOf : List Nat → List (Nat × Nat)
  | a :: b :: r => (a, b) :: pairsOf r
  | _ => []

/-- slices (batches) per column per row group -/
def slicesPerColumn (rows nb : Nat) : Nat :=
  ((List.range (if nb > 1 then nb else 1)).filter (fun bi => rows * (bi + 1) / (if nb > 1 then nb else 1) > rows * bi / (if nb > 1 then nb else 1))).length

/-- the write_batch calls of one row group: column by column, slice by slice, consuming (rows, nn) pairs -/
def groupBatches (cols : List WCol) (per : Nat) : List (Nat × Nat) → List (WrState → Oracle → CallOut × Option WrState × Oracle) × List (Nat × Nat)
  | wt =>
    ((cols.zipIdx.flatMap fun ci => (List.range per).map fun bi =>
        match wt[ci.2 * per + bi]? with
        | some rn => wrBatch ci.2 (mkBatch ci.1 rn.1 rn.2)
        | none => wrBatch ci.2 (mkBatch ci.1 0 0)), wt.drop (cols.length * per))

def writeGroups (cols : List WCol) (per : Nat) : Nat → List (Nat × Nat) → List (WrState → Oracle → CallOut × Option WrState × Oracle)
  | 0, _ => []
  | g + 1, wt =>
    (groupBatches cols per wt).1 ++ (if g > 0 then [wrNewRowGroup] else []) ++ writeGroups cols per g (groupBatches cols per wt).2

def writeCalls (codec rows rg nb : Nat) (wt : List Nat) : List (WrState → Oracle → CallOut × Option WrState × Oracle) :=
  [wrSchemaCreate] ++ tableCols.map wrAddColumn ++ [wrCreate codec (if nb > 1 then 64 else 1048576) tableCols] ++
  writeGroups tableCols (slicesPerColumn rows nb) rg (pairsOf wt) ++ [wrClose]

/-- the table of the wrep scenario: INT32 required (sliced), INT32 repeated (one batch), BYTE_ARRAY optional (one batch) -/
def wrepCols : List WCol := [⟨2, 0, 4, false⟩, ⟨4, 2, 4, false⟩, ⟨4, 1, 0, false⟩]

def wrepGroup (rows nb n1 n2 : Nat) : List (WrState → Oracle → CallOut × Option WrState × Oracle) :=
  ((List.range (if nb > 1 then nb else 1)).filterMap fun bi =>
    if rows * (bi + 1) / (if nb > 1 then nb else 1) > rows * bi / (if nb > 1 then nb else 1) then
      some (wrBatch 0 (mkBatch ⟨2, 0, 4, false⟩ (rows * (bi + 1) / (if nb > 1 then nb else 1) - rows * bi / (if nb > 1 then nb else 1))
                                            (rows * (bi + 1) / (if nb > 1 then nb else 1) - rows * bi / (if nb > 1 then nb else 1))))
    else none) ++
  [wrBatch 1 (mkBatch ⟨4, 2, 4, false⟩ n1 n1), wrBatch 2 (mkBatch ⟨4, 1, 0, false⟩ rows n2)]

def wrepCalls (codec rows rg nb n1 n2 : Nat) : List (WrState → Oracle → CallOut × Option WrState × Oracle) :=
  [wrSchemaCreate, wrAddGroup 4] ++ wrepCols.map wrAddColumn ++ [wrCreate codec (if nb > 1 then 64 else 1048576) wrepCols] ++
  ((List.range rg).flatMap fun g => wrepGroup rows nb n1 n2 ++ (if g + 1 < rg then [wrNewRowGroup] else [])) ++ [wrClose]

/-! ### the tie -/

def sameCalls (model : List CallOut) (calls rq : List Nat) (res : Option (List Int)) : List (String × Bool) :=
  [("count_calls", model.map (fun c => if c.failed then 1 else 0) == calls),
   ("count_requests", model.map (·.reqs) == rq)] ++
  (match res with
   | some r => [("count_results", model.map (·.res) == r)]
   | none => [])

/-- the model checks for one alloc_scn line; `[]` when the scenario is outside the predictable set -/
def countChecks (l : Line) : List (String × Bool) :=
  match l.inStr "scn", l.inNat "lvl", l.inNat "k", l.outNat "crash", l.outNats "calls", l.outNats "rq" with
  | some scn, some 0, some k, some 0, some calls, some rq =>
    let o := oracleOf k
    let rows := (l.inNat "rows").getD 0
    let shape := (l.inNat "shape").getD 0
    let mode := (l.inNat "mode").getD 0
    let rg := (l.inNat "rg").getD 1
    let codec := (l.inNat "codec").getD 0
    let aux := (l.outNats "aux").getD []
    if scn == "schema" then sameCalls (runScript (schemaCalls (70 + rows) (4 + shape) false) emptySchema o) calls rq none
    else if scn == "schemag" then sameCalls (runScript (schemaCalls (70 + rows) (4 + shape) true) emptySchema o) calls rq none
    else if scn == "bloom" then sameCalls (runScript bloomCalls () o) calls rq none
    else if scn == "statsb" then
      sameCalls (runScript (statsbCalls (aux.getD 0 0) (aux.getD 1 0)) (pressedArena shape) o) calls rq none
    else if scn == "pgidx" then
      sameCalls (runScript (pgidxCalls rows (mode != 0) (aux.getD 0 0) (aux.getD 1 0)) {} o) calls rq none
    else if scn == "write" && shape == 0 && rows ≤ 100 && codec ≤ 5 then
      match l.inNats "wt" with
      | some wt => sameCalls (runScript (writeCalls codec rows rg ((l.inNat "nb").getD 0) wt) {} o) calls rq none
      | none => [("count_fields", false)]
    else if scn == "wrep" && codec ≤ 5 then
      match l.inNats "wt" with
      | some [n1, n2] => sameCalls (runScript (wrepCalls codec rows rg ((l.inNat "nb").getD 0) n1 n2) {} o) calls rq none
      | _ => [("count_fields", false)]
    else if scn == "batch" || scn == "dbatch" then
      match l.inNats "ch" with
      | some ch =>
        let ncols := if scn == "batch" then 7 else 6
        if codec > 5 then [] else
        sameCalls (runScript (batchCalls codec ncols rg rows mode (parseChunks (ncols * rg) ch)) {} o) calls rq none
      | none => [("count_fields", false)]
    else if scn == "read" || scn == "dict" || scn == "dskip" then
      match l.inNats "ch", l.outNats "ck", l.outNats "ca", l.outInts "cr" with
      | some ch, some ck, some ca, some cr =>
        let ncols := if scn == "read" then 7 else 6
        let chunks := parseChunks (ncols * rg) ch
        if codec > 5 then [] else     -- zstd allocates inside the (statically linked) library
        sameCalls (runScript (readCalls codec ncols rg chunks ck ca) {} o) calls rq (some cr)
      | _, _, _, _ => [("count_fields", false)]
    else []
  | _, _, _, _, _, _ => []

end Driver.Lib.AllocScn
