import Carquet.Util
import Carquet.Spec.Lz4
import Carquet.Impl.Lz4
import Carquet.Impl.CodecWrappers
/-
Driver ops for C09 / C10 / C08 (compression part); line formats are documented at the top of
harness/ops_lz4.c.  Statuses are compared by class: 0 = OK, 1 = invalid argument,
50..53 = codec error family.
-/
namespace Driver.Ops.Lz4
open Carquet Carquet.Util

inductive Cls where
  | ok | arg | codec | other
  deriving DecidableEq

def clsOfStatus (st : Nat) : Cls :=
  if st = 0 then .ok else if st = 1 then .arg else if 50 ≤ st ∧ st ≤ 53 then .codec else .other

/-- model result against (status, bytes) of the real call -/
def agreesLz4 (r : Except Impl.Lz4.Err (List UInt8)) (st : Nat) (out : List UInt8) : Bool :=
  match r with
  | .ok bs => clsOfStatus st == .ok && bs == out
  | .error .invalidArgument => clsOfStatus st == .arg
  | .error .compression => clsOfStatus st == .codec
  | .error .invalidData => clsOfStatus st == .codec
  | .error .oobRead => false
  | .error .oobWrite => false

def agreesW (r : Except Impl.CodecWrappers.Err (List UInt8)) (st : Nat) (out : List UInt8) : Bool :=
  match r with
  | .ok bs => clsOfStatus st == .ok && bs == out
  | .error .invalidArgument => clsOfStatus st == .arg
  | .error .compression => clsOfStatus st == .codec
  | .error .invalidData => clsOfStatus st == .codec

/-- the real library's recorded answer for exactly the call `(lvl, availIn, availOut)` -/
def oracleC (dl : Int) (n cap : Nat) (dok : Nat) (dout : List UInt8) :
    Int → Nat → Nat → Option (List UInt8) :=
  fun l k c => if l = dl ∧ k = n ∧ c = cap then (if dok = 1 then some dout else none) else none

def oracleD (n cap : Nat) (dok : Nat) (dout : List UInt8) : Nat → Nat → Option (List UInt8) :=
  fun k c => if k = n ∧ c = cap then (if dok = 1 then some dout else none) else none

def handle (l : Line) : Option Verdict :=
  match l.op with
  | "lz4_c" => some <|
    match l.inHex "src", l.inNat "cap", l.outNat "st", l.outHex "out", l.outNat "bound" with
    | some src, some cap, some st, some out, some bound =>
      verdict [("impl_compress", agreesLz4 (Impl.Lz4.compress src cap) st out),
               ("impl_bound", Impl.Lz4.bound src.length == bound)]
              [("spec_decodes", st != 0 || Spec.Lz4.decode out src.length == .ok src),
               ("end_rules", st != 0 || Spec.Lz4.endRulesCheck out),
               ("len_le_cap", st != 0 || out.length ≤ cap),
               ("fits_bound", cap < bound || (st == 0 && out.length ≤ bound))]
    | _, _, _, _, _ => .bad "lz4_c args"
  | "lz4_d" => some <|
    match l.inHex "src", l.inNat "cap", l.outNat "st", l.outHex "out" with
    | some src, some cap, some st, some out =>
      let specOk :=
        match Spec.Lz4.decode src cap with
        | .ok o => st == 0 && o == out
        | .error _ => st != 0
      let expOk :=
        match l.inHex "exp" with
        | none => true
        | some e =>
          Spec.Lz4.decode src e.length == .ok e &&
            (if e.length ≤ cap then st == 0 && out == e else st != 0)
      verdict [("impl_decompress", agreesLz4 (Impl.Lz4.decompress src cap) st out)]
              [("spec_agrees", specOk), ("encoded_recovered", expOk), ("len_le_cap", out.length ≤ cap)]
    | _, _, _, _ => .bad "lz4_d args"
  | "lz4_dm" => some <|
    -- C08: the same call, judged on memory behaviour only (ASan on the C side, no-oob + length here)
    match l.inHex "src", l.inNat "cap", l.outNat "st", l.outHex "out" with
    | some src, some cap, some st, some out =>
      verdict [("impl_decompress", agreesLz4 (Impl.Lz4.decompress src cap) st out)]
              [("len_le_cap", out.length ≤ cap)]
    | _, _, _, _ => .bad "lz4_dm args"
  | "gz_c" => some <|
    match l.inInt "lvl", l.inHex "src", l.inNat "cap", l.inInt "dl", l.inNat "dok", l.inHex "dout",
          l.outNat "st", l.outHex "out" with
    | some lvl, some src, some cap, some dl, some dok, some dout, some st, some out =>
      verdict [("clamp", Impl.CodecWrappers.clamp 1 9 lvl == dl),
               ("impl_gzip_compress",
                 agreesW (Impl.CodecWrappers.gzipCompressG false false false src.length cap lvl
                   (oracleC dl src.length cap dok dout)) st out)]
              [("len_le_cap", out.length ≤ cap)]
    | _, _, _, _, _, _, _, _ => .bad "gz_c args"
  | "zs_c" => some <|
    match l.inInt "lvl", l.inHex "src", l.inNat "cap", l.inInt "dl", l.inNat "dok", l.inHex "dout",
          l.outNat "st", l.outHex "out", l.inInt "maxl" with
    | some lvl, some src, some cap, some dl, some dok, some dout, some st, some out, some maxl =>
      verdict [("clamp", Impl.CodecWrappers.clamp 1 maxl lvl == dl),
               ("impl_zstd_compress",
                 agreesW (Impl.CodecWrappers.zstdCompressG false false false src.length cap lvl maxl
                   (oracleC dl src.length cap dok dout)) st out)]
              [("len_le_cap", out.length ≤ cap)]
    | _, _, _, _, _, _, _, _, _ => .bad "zs_c args"
  | "gz_d" => some <|
    match l.inHex "src", l.inNat "cap", l.inNat "dok", l.inHex "dout", l.outNat "st", l.outHex "out" with
    | some src, some cap, some dok, some dout, some st, some out =>
      verdict [("impl_gzip_decompress",
                 agreesW (Impl.CodecWrappers.gzipDecompressG false false false src.length cap
                   (oracleD src.length cap dok dout)) st out)]
              [("len_le_cap", out.length ≤ cap)]
    | _, _, _, _, _, _ => .bad "gz_d args"
  | "zs_d" => some <|
    match l.inHex "src", l.inNat "cap", l.inNat "dok", l.inHex "dout", l.outNat "st", l.outHex "out" with
    | some src, some cap, some dok, some dout, some st, some out =>
      verdict [("impl_zstd_decompress",
                 agreesW (Impl.CodecWrappers.zstdDecompressG false false false src.length cap
                   (oracleD src.length cap dok dout)) st out)]
              [("len_le_cap", out.length ≤ cap)]
    | _, _, _, _, _, _ => .bad "zs_d args"
  | "gz_big" => some <|
    match l.inNat "n", l.inNat "cap", l.inInt "lvl", l.inInt "dl", l.inNat "dok", l.inHex "dout",
          l.outNat "st", l.outHex "out" with
    | some n, some cap, some lvl, some dl, some dok, some dout, some st, some out =>
      verdict [("clamp", Impl.CodecWrappers.clamp 1 9 lvl == dl),
               ("impl_gzip_compress",
                 agreesW (Impl.CodecWrappers.gzipCompressG false false false n cap lvl
                   (oracleC dl n cap dok dout)) st out)]
              [("len_le_cap", out.length ≤ cap)]
    | _, _, _, _, _, _, _, _ => .bad "gz_big args"
  | "codec_null" => some <|
    -- NULL-argument tests: `f` names the function, the flags say which pointer was NULL
    match l.inStr "f", l.inNat "srcnull", l.inNat "dstnull", l.inNat "sizenull", l.outNat "st" with
    | some f, some sn, some dn, some zn, some st =>
      let anyNull := sn == 1 || dn == 1 || zn == 1
      let expectArg :=
        if f == "lz4_c" then
          -- compress: dst/size first; src only after the bound test and the empty-input path
          -- (the harness calls it with size 0 and an adequate capacity)
          (Impl.Lz4.compressArgs (sn == 1) (dn == 1) (zn == 1) [] 16 == .error .invalidArgument)
        else anyNull
      verdict [("impl_null_args", (clsOfStatus st == .arg) == expectArg)] []
    | _, _, _, _, _ => .bad "codec_null args"
  | _ => none

end Driver.Ops.Lz4
