import Carquet.Util
import Carquet.Impl.Par
import Carquet.Impl.ParDict
import Carquet.Spec.File
/-
Driver ops for C07, dictionary-encoded files (harness/ops_pardict.c).  The file comes from the Lean
reference writer (`Driver/Gen/ParDict.lean`) and travels with every line.

  pardict_read  id desc cols nrg rows codec flen file expect mode nt bs sched reps
       | st nb rows dg crows cdg ref_st ref_nb ref_dg nrep nfail badrep nonatomic badsec ilv nthr tr p_..
  pardict_indep .. mode n nt bs sched reps | sts dgs crows cdg ref_st ref_dg nrep nfail badrep nonatomic badsec ilv tr p_..

model checks (tie of `Impl.Par` / `Impl.ParDict` to the code, on the recorded trace; fread mode):
  * crit_schedule    : the trace (seeks, reads, section boundaries) is `flat` of an action-level schedule of
                       critical sections — every stream access lies inside a section, sections never overlap
                       (`schedOfTrace`; the mutual exclusion the OpenMP runtime is trusted for, observed);
  * sections_file_read_at : every section is `[seek f o; read f n]` = `fileReadAt` (hypothesis `atomicIO` of
                       C07_fread_atomic_sections for the schedule the trace stands for);
  * pos_model, sections_atomic, page_shape, one_stream / streams_private : as for `par_read` (Ops/Par.lean);
    page_shape is `pageShapeD`: per page one or more header reads at one offset (window retry; the probed
    dictionary page is read twice), then the body read just behind the header — dictionary pages included;
  * no_stream_io     : mmap / buffer modes touch no stream and enter no section;
  * generator_digest : `expect` (computed by the generator from the table) equals the digest of the table the
                       independent Spec reader reads from the file bytes of this line.
property checks:
  * same_as_single / same_as_alone : statuses, batch counts, digests equal the single-threaded unperturbed ones;
  * table_as_spec_reader : rows and per-column digests returned by the parallel reader equal those of the table
                       `Spec.File.read` reads from the file (the reader written from the format documents);
  * reads_own_offset : every fread happened at the offset of the reading thread's own last fseek.
-/
namespace Driver.Ops.ParDict
open Carquet Carquet.Util Carquet.Impl.Par Carquet.Spec Carquet.Spec.File

def fnv0 : UInt64 := 0xCBF29CE484222325

def fnv (h : UInt64) (bs : Bytes) : UInt64 :=
  bs.foldl (fun h b => (h ^^^ b.toUInt64) * 0x100000001B3) h

/-- digest of one column: all its rows, row group after row group; a row is the byte 0 (null) or
the byte 1 followed by the value (BYTE_ARRAY: 4-byte little-endian length first) -/
def colDigest (byteArray : Bool) (chunks : List Chunk) : UInt64 :=
  chunks.foldl (fun h es => es.foldl (fun h (e : Entry) =>
    match e.val with
    | none => fnv h [0]
    | some v => fnv (fnv h (1 :: (if byteArray then File.leBytes 4 v.length else []))) v) h) fnv0

/-- (rows, per-column digests) of a flat table -/
def tableDigests (t : Table) : Nat × List Nat :=
  match columnsOf t.schema with
  | .error _ => (0, [])
  | .ok leaves =>
    ((t.rowGroups.map (fun g => (g.chunks.getD 0 []).length)).sum,
     (List.range leaves.length).map (fun ci =>
       (colDigest ((leaves.getD ci ⟨0, 0, .int32, 0, []⟩).ptype == .byteArray)
         (t.rowGroups.map (fun g => g.chunks.getD ci []))).toNat))

/-- checks on a trace with section events -/
def traceChecks (fread : Bool) (flen : Nat) (onePerThread : Bool) (all : List Ev) :
    List (String × Bool) × List (String × Bool) :=
  let es := ioOnly all
  let secs := ioOrSection all
  if fread then
    ([ ("crit_schedule", (schedOfTrace secs).isSome),
       ("sections_file_read_at", critFootprint secs),
       ("pos_model", (objsOf es).all (fun o => posTie flen o (onObj o es))),
       ("sections_atomic", (objsOf es).all (fun o => sectionsAtomic (onObj o es))),
       ("page_shape", (objsOf es).all (fun o =>
          (threadsOf (onObj o es)).all (fun t => pageShapeD (byThread t (onObj o es))))),
       ("streams_private", !onePerThread || streamsPrivate es),
       ("stream_io_seen", !es.isEmpty) ],
     [ ("reads_own_offset", (objsOf es).all (fun o => readsOwn (onObj o es))) ])
  else
    ([ ("no_stream_io", secs.isEmpty) ], [])

/-- `par_tsan` (harness/ops_partsan.c): the ThreadSanitizer build of `par` + `pardict` ran, reported no race outside the
lazily initialised tables (whose races are covered by C07_lazy_init_* under the stated memory-model assumption), and
all its property predicates were true -/
def handleTsan (l : Line) : Verdict :=
  if (l.outStr "skipped").isSome then .ok else
  match l.outNat "rc", l.outNat "harness_rc", l.outNat "other", l.outNat "lines_true", l.outNat "lines_false" with
  | some rc, some hrc, some other, some lt, some lf =>
    verdict [("tsan_step_ran", rc == 0 && hrc == 0 && lt > 0)]
            [("no_unexplained_race", other == 0), ("predicates_true_under_tsan", lf == 0)]
  | _, _, _, _, _ => .bad "par_tsan outputs"

def handle (l : Line) : Option Verdict :=
  if l.op == "par_tsan" then some (handleTsan l) else
  if l.op != "pardict_read" && l.op != "pardict_indep" then none else some <|
  match l.inHex "file", l.inNats "expect", l.inNat "rows", l.inNat "mode", l.inNat "nt",
        l.outNat "crows", l.outNats "cdg", l.outInt "ref_st", l.outNat "ref_dg", l.outNats "tr" with
  | some file, some expect, some rows, some mode, some nt, some crows, some cdg, some rst, some rdg, some tr =>
    let specD := match Spec.File.read file with
      | .ok t => some (tableDigests t)
      | .error _ => none
    let all := evsOf tr
    let tableOK := specD == some (crows, cdg)
    let genOK := specD == some (rows, expect)
    if l.op == "pardict_read" then
      match l.outInt "st", l.outNat "nb", l.outNat "dg", l.outNat "ref_nb" with
      | some st, some nb, some dg, some rnb =>
        let c := traceChecks (mode == 0) file.length false all
        verdict (("trace_wellformed", tr.length % 5 == 0) :: ("generator_digest", genOK) ::
                 ("one_stream", (objsOf (ioOnly all)).length ≤ 1) :: c.1)
                (("same_as_single", st == rst && nb == rnb && dg == rdg) ::
                 ("table_as_spec_reader", tableOK) :: c.2)
      | _, _, _, _ => .bad "pardict_read outputs"
    else
      match l.inNat "n", l.outInts "sts", l.outNats "dgs" with
      | some n, some sts, some dgs =>
        let c := traceChecks (mode == 0) file.length (nt == 1) all
        verdict (("trace_wellformed", tr.length % 5 == 0) :: ("generator_digest", genOK) ::
                 ("one_stream_per_reader", mode != 0 || (objsOf (ioOnly all)).length == n) :: c.1)
                (("same_as_alone", dgs.length == n && dgs.all (· == rdg) && sts.all (· == rst)) ::
                 ("table_as_spec_reader", tableOK) :: c.2)
      | _, _, _ => .bad "pardict_indep outputs"
  | _, _, _, _, _, _, _, _, _, _ => .bad "pardict args"

end Driver.Ops.ParDict
