import Carquet.Util
import Carquet.Spec.Snappy
import Carquet.Impl.Snappy
/-
Driver ops for C09 / C10 / C08 (Snappy part).
  snappy_comp src=x.. cap=N           | st=<status> out=x..     carquet_snappy_compress
  snappy_dec  src=x.. cap=N [want=x..] | st=<status> out=x..     carquet_snappy_decompress
Status: 0 OK, 50 COMPRESSION, 53 INVALID_COMPRESSED_DATA (compared by class).
-/
namespace Driver.Ops.Snappy
open Carquet Carquet.Util

def statusOf : Impl.Snappy.Err → Nat
  | .invalidArgument => 1
  | .compression => 50
  | .invalidData => 53
  | _ => 999          -- model-only outcomes never equal a status the C code returns

/-- model result against (status, bytes) printed by the harness -/
def agrees (m : Except Impl.Snappy.Err (List UInt8)) (st : Nat) (out : List UInt8) : Bool :=
  match m with
  | .ok bytes => st == 0 && bytes == out
  | .error e => st != 0 && statusOf e == st

def handle (l : Line) : Option Verdict :=
  match l.op with
  | "snappy_big" => some <|
    -- inputs of several MiB: judged by the C-side predicates (round trip, preamble announces n); see harness/ops_snappy.c
    verdict [] []
  | "snappy_comp" => some <|
    match l.inHex "src", l.inNat "cap", l.outNat "st", l.outHex "out" with
    | some src, some cap, some st, some out =>
      let bound := 32 + src.length + src.length / 6
      let spec := Spec.Snappy.decode out
      verdict
        [("impl_compress", agrees (Impl.Snappy.compressCap src cap) st out)]
        [ -- C09: into the advertised bound it succeeds and stays within the bound
          ("succeeds_at_bound", cap < bound || (st == 0 && out.length ≤ bound)),
          -- C09: a smaller destination is refused (or, if accepted, not overrun and still right)
          ("small_dst_safe", st != 0 || out.length ≤ cap),
          -- C10: whatever it reports as success is a valid raw Snappy block for the input
          ("spec_decodes_output", st != 0 || spec == .ok src),
          -- C09: the model's own decompressor returns the input (round trip through the model)
          ("impl_roundtrip", st != 0 || Impl.Snappy.decompress out src.length == .ok src) ]
    | _, _, _, _ => .bad "snappy_comp args"
  | "snappy_dec" => some <|
    match l.inHex "src", l.inNat "cap", l.outNat "st", l.outHex "out" with
    | some src, some cap, some st, some out =>
      let spec := Spec.Snappy.decode src
      let wantOk := match l.inHex "want" with
        | some w => spec == .ok w          -- the harness's grammar generator agrees with the Spec
        | none => true
      verdict
        [("impl_decompress", agrees (Impl.Snappy.decompress src cap) st out)]
        [ ("generator_is_spec_valid", wantOk),
          -- C10: valid streams are accepted (when they fit) and give the encoded bytes
          ("accepts_valid", match spec with
              | .ok o => if o.length ≤ cap then st == 0 && out == o else st != 0
              | .error _ => true),
          -- C10: streams the format defines as invalid are rejected
          ("rejects_invalid", match spec with
              | .ok _ => true
              | .error _ => st != 0),
          -- C08: never reports more than the destination holds
          ("reported_le_capacity", st != 0 || out.length ≤ cap) ]
    | _, _, _, _ => .bad "snappy_dec args"
  | _ => none

end Driver.Ops.Snappy
