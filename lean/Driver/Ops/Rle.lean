import Carquet.Util
import Carquet.Spec.Varint
import Carquet.Spec.BitPack
import Carquet.Spec.RleHybrid
import Carquet.Impl.Varint
import Carquet.Impl.Bitpack
import Carquet.Impl.Rle
/-
Driver ops for C11 / C12 (varints, zigzag, bit packing, RLE hybrid); line formats are listed at
the top of harness/ops_rle.c.  Model checks compare the Impl model with what the C code
returned; property checks evaluate the Spec on what the C code returned.
-/
namespace Driver.Ops.Rle
open Carquet Carquet.Util

/-- decimal digits → Nat, and the remaining characters -/
def takeNat : List Char → Nat → Nat × List Char
  | c :: cs, acc => if c.isDigit then takeNat cs (acc * 10 + (c.toNat - 48)) else (acc, c :: cs)
  | [], acc => (acc, [])

def natOfChars (cs : List Char) : Option Nat :=
  if cs.isEmpty then none
  else match takeNat cs 0 with
    | (n, []) => some n
    | _ => none

/-- `g`, `b<k>`, `s<k>` -/
def parseDecOp (s : String) : Option Impl.Rle.Op :=
  match s.toList with
  | ['g'] => some .get
  | 'b' :: r => (natOfChars r).map .getBatch
  | 's' :: r => (natOfChars r).map .skip
  | _ => none

def parseDecOps (s : String) : Option (List Impl.Rle.Op) :=
  if s == "-" then some [] else (s.splitOn ".").mapM parseDecOp

def renderObs : Impl.Rle.Obs → String
  | .val v => s!"v{v}"
  | .vals vs => "b" ++ ":".intercalate (vs.map toString)
  | .skipped n => s!"s{n}"

def renderObsList (l : List Impl.Rle.Obs) : String :=
  if l.isEmpty then "-" else ".".intercalate (l.map renderObs)

/-- final decoder state after a history -/
def runOpsState (d : Impl.Rle.Dec) : List Impl.Rle.Op → Impl.Rle.Dec
  | [] => d
  | op :: ops => runOpsState (Impl.Rle.step d op).2 ops

open Carquet.Impl.Rle (EncOp runEncOps)

/-- `p<v>`, `r<v>x<n>`, `f` -/
def parseEncOp (s : String) : Option EncOp :=
  match s.toList with
  | ['f'] => some .flush
  | 'p' :: r => (natOfChars r).map .put
  | 'r' :: r =>
    match takeNat r 0 with
    | (v, 'x' :: r2) => (natOfChars r2).map (.rep v)
    | _ => none
  | _ => none

/-- the values of a history that ends with its only flush -/
def encOpsValues : List EncOp → Option (List Nat)
  | [] => none
  | [.flush] => some []
  | .put v :: ops => (encOpsValues ops).map (v :: ·)
  | .rep v n :: ops => (encOpsValues ops).map (List.replicate n v ++ ·)
  | .flush :: _ => none

/-- Spec-side walk over a stream of RLE runs only: total run length and whether every run
carries the value `v` (for `rle_bigrun`, whose value list is too long to materialise). -/
def rleRunsTotal (w v : Nat) : Nat → List UInt8 → Option Nat
  | 0, _ => none
  | f + 1, bs =>
    if bs.isEmpty then some 0
    else match Spec.RleHybrid.readHeader bs with
      | .error _ => none
      | .ok (h, rest) =>
        if h % 2 = 1 then none
        else if rest.length < Spec.RleHybrid.valueBytes w then none
        else if Spec.RleHybrid.leValue (rest.take (Spec.RleHybrid.valueBytes w)) ≠ v then none
        else (rleRunsTotal w v f (rest.drop (Spec.RleHybrid.valueBytes w))).map (· + h / 2)

/-- everything the Spec decoder can read from `out`: the longest `n ≤ bound` it delivers (`none` if not even 0) -/
def specAll (w : Nat) (out : List UInt8) : Nat → Option (List Nat)
  | 0 => match Spec.RleHybrid.decode w out 0 with | .ok d => some d | .error _ => none
  | n + 1 => match Spec.RleHybrid.decode w out (n + 1) with | .ok d => some d | .error _ => specAll w out n

/-- is `D` the values of the history in order, with k < 8 zeros at each flush (search over the k's)? -/
def matchPads : List EncOp → List Nat → Bool
  | [], D => D.isEmpty
  | .put v :: ops, D => (match D with | d :: D' => d == v && matchPads ops D' | [] => false)
  | .rep v n :: ops, D => D.take n == List.replicate n v && matchPads ops (D.drop n)
  | .flush :: ops, D =>
    (List.range 8).any (fun k => k ≤ D.length && (D.take k).all (· == 0) && matchPads ops (D.drop k))

def specOk (r : Except Spec.RleHybrid.Err (List Nat)) (vals : List Nat) : Bool :=
  match r with
  | .ok xs => xs == vals
  | .error _ => false

/-- "whenever the Spec decoder accepts, carquet returned the same values" -/
def specImplies (r : Except Spec.RleHybrid.Err (List Nat)) (vals : List Nat) : Bool :=
  match r with
  | .ok xs => xs == vals
  | .error _ => true

def intsToNats (l : List Int) : Option (List Nat) :=
  l.mapM (fun i => if i < 0 then none else some i.toNat)

def handle (l : Line) : Option Verdict :=
  match l.op with
  | "vi32" | "vi64" => some <|
    match l.inNat "v", l.outHex "enc", l.outNat "n", l.outInt "r", l.outNat "dec" with
    | some v, some enc, some n, some r, some dec =>
      let is64 := l.op == "vi64"
      let w := if is64 then Impl.Varint.writeVarint64 v else Impl.Varint.writeVarint32 v
      let d := if is64 then Impl.Varint.decodeVarint64 enc else Impl.Varint.decodeVarint32 enc
      verdict [("impl_write", w == enc), ("impl_len", n == enc.length),
               ("impl_read", d == some (dec, []) && r == Int.ofNat enc.length)]
              [("uleb128_bytes", Spec.Varint.encode v == enc),
               ("spec_reads_back", Spec.Varint.decode enc == some (v, [])),
               ("roundtrip", dec == v && r == Int.ofNat enc.length)]
    | _, _, _, _, _ => .bad "vi args"
  | "vi32d" | "vi64d" => some <|
    match l.inHex "data", l.outInt "r", l.outNat "v" with
    | some data, some r, some v =>
      let is64 := l.op == "vi64d"
      let d := if is64 then Impl.Varint.decodeVarint64 data else Impl.Varint.decodeVarint32 data
      let (maxb, bits) := if is64 then (10, 64) else (5, 32)
      let m := match d with
        | none => r == -1
        | some (x, rest) => r == Int.ofNat (data.length - rest.length) && v == x
      let p := match Spec.Varint.decode data with
        | some (x, rest) =>
          if data.length - rest.length ≤ maxb ∧ x < 2 ^ bits then
            r == Int.ofNat (data.length - rest.length) && v == x
          else true
        | none => r == -1
      verdict [("impl_read", m)] [("agrees_with_uleb128", p)]
    | _, _, _ => .bad "vid args"
  | "zz32" => some <|
    match l.inInt "v", l.outNat "e", l.outInt "d" with
    | some v, some e, some d =>
      verdict [("impl_enc", (Impl.Varint.zigzagEncode32 (BitVec.ofInt 32 v)).toNat == e),
               ("impl_dec", (Impl.Varint.zigzagDecode32 (BitVec.ofNat 32 e)).toInt == d)]
              [("zigzag_value", Spec.Varint.zigzag v == e), ("roundtrip", d == v),
               ("unzigzag", Spec.Varint.unzigzag e == d)]
    | _, _, _ => .bad "zz32 args"
  | "zz64" => some <|
    match l.inInt "v", l.outNat "e", l.outInt "d" with
    | some v, some e, some d =>
      verdict [("impl_enc", (Impl.Varint.zigzagEncode64 (BitVec.ofInt 64 v)).toNat == e),
               ("impl_dec", (Impl.Varint.zigzagDecode64 (BitVec.ofNat 64 e)).toInt == d)]
              [("zigzag_value", Spec.Varint.zigzag v == e), ("roundtrip", d == v),
               ("unzigzag", Spec.Varint.unzigzag e == d)]
    | _, _, _ => .bad "zz64 args"
  | "bp8" => some <|
    match l.inNat "w", l.inNats "vals", l.outHex "out" with
    | some w, some vals, some out =>
      verdict [("impl_pack8", Impl.Bitpack.pack8 w vals == out)]
              [("spec_pack", Spec.BitPack.pack w (vals.map (· % 2 ^ w)) == out)]
    | _, _, _ => .bad "bp8 args"
  | "bu8" => some <|
    match l.inNat "w", l.inHex "data", l.outNats "vals", l.outNats "sp" with
    | some w, some data, some vals, some sp =>
      let spOk := if 1 ≤ w ∧ w ≤ 8 then sp == vals && Impl.Bitpack.unpack8Generic w data == sp else sp.isEmpty
      verdict [("impl_unpack8", Impl.Bitpack.unpack8 w data == vals), ("special_eq_general", spOk)]
              [("spec_unpack", Spec.BitPack.unpack w data 8 == some vals)]
    | _, _, _, _ => .bad "bu8 args"
  | "bp" => some <|
    match l.inNat "w", l.inNats "vals", l.outHex "out", l.outNat "n" with
    | some w, some vals, some out, some n =>
      verdict [("impl_pack", Impl.Bitpack.pack w vals == out), ("written", n == out.length)]
              [("spec_pack", (if w = 0 then [] else Spec.BitPack.pack w (vals.map (· % 2 ^ w))) == out),
               ("spec_unpacks", w = 0 || Spec.BitPack.unpack w out vals.length == some (vals.map (· % 2 ^ w)))]
    | _, _, _, _ => .bad "bp args"
  | "bu" => some <|
    match l.inNat "w", l.inNat "n", l.inHex "data", l.outNats "vals", l.outNat "used" with
    | some w, some n, some data, some vals, some used =>
      verdict [("impl_unpack", Impl.Bitpack.unpack w data n == (vals, used))]
              [("spec_unpack", Spec.BitPack.unpack w data n == some vals),
               ("consumed", used == (if w = 0 then 0 else data.length))]
    | _, _, _, _, _ => .bad "bu args"
  | "rle_enc" => some <|
    match l.inNat "w", l.inNats "vals", l.outHex "out" with
    | some w, some vals, some out =>
      verdict [("impl_encode", Impl.Rle.encode w vals == out)]
              [("spec_decodes", specOk (Spec.RleHybrid.decode w out vals.length) vals)]
    | _, _, _ => .bad "rle_enc args"
  | "lev_enc" => some <|
    match l.inNat "w", l.inInts "vals", l.outHex "out" with
    | some w, some vals, some out =>
      match intsToNats vals with
      | some nats =>
        verdict [("impl_encode_levels", Impl.Rle.encodeLevels w vals == out)]
                [("spec_decodes", specOk (Spec.RleHybrid.decode w out nats.length) nats)]
      | none => verdict [("impl_encode_levels", Impl.Rle.encodeLevels w vals == out)] []
    | _, _, _ => .bad "lev_enc args"
  | "rle_encops" => some <|
    match l.inNat "w", (l.inStr "ops").bind (fun s => (s.splitOn ".").mapM parseEncOp), l.outHex "out" with
    | some w, some ops, some out =>
      let p := match encOpsValues ops with
        | some vals => specOk (Spec.RleHybrid.decode w out vals.length) vals
        | none => true
      -- histories with inner flushes (property evaluated when the history ends with a flush): everything the Spec
      -- decoder reads from the bytes is the values put, in order, with fewer than 8 zeros after each flush point
      let endsFlushed := ops.getLast? == some .flush
      let all := if endsFlushed then specAll w out ((Impl.Rle.histValues ops).length + 7 * (ops.filter (· == .flush)).length + 1) else none
      let pm := !endsFlushed || (match all with | some D => matchPads ops D | none => false)
      -- tie of the padding counts the model predicts (`flushPads`) to what the real bytes hold
      let dm := !endsFlushed || all == some (Impl.Rle.denoteWith (Impl.Rle.flushPads (Impl.Rle.Enc.init w) ops) ops)
      verdict [("impl_history", (runEncOps (Impl.Rle.Enc.init w) ops).out == out), ("impl_history_denotation", dm)]
              [("spec_decodes", p), ("spec_decodes_history_with_flush_padding", pm)]
    | _, _, _ => .bad "rle_encops args"
  | "rle_bigrun" => some <|
    match l.inNat "w", l.inNat "v", l.inNat "n", l.outHex "out" with
    | some w, some v, some n, some out =>
      let e := Impl.Rle.flush { Impl.Rle.put (Impl.Rle.Enc.init w) v with rep := n }
      verdict [("impl_flush", e.out == out)]
              [("runs_total", rleRunsTotal w v (out.length + 1) out == some n)]
    | _, _, _, _ => .bad "rle_bigrun args"
  | "rle_dec" => some <|
    match l.inNat "w", l.inNat "n", l.inHex "data", l.outInt "r", l.outNats "vals" with
    | some w, some n, some data, some r, some vals =>
      let genOk := match l.inNats "exp" with
        | some exp => specOk (Spec.RleHybrid.decode w data exp.length) exp
        | none => true
      verdict [("impl_decode_all", Impl.Rle.decodeAll w data n == vals), ("count", r == Int.ofNat vals.length),
               ("spec_vs_generator", genOk)]
              [("spec_accepts_implies_equal", specImplies (Spec.RleHybrid.decode w data n) vals)]
    | _, _, _, _, _ => .bad "rle_dec args"
  | "rle_stream" => some <|
    match l.inNat "w", l.inHex "data", (l.inStr "ops").bind parseDecOps, l.outStr "obs",
          l.outNat "st", l.outNat "pos", l.outNat "hn", l.outNats "all" with
    | some w, some data, some ops, some obs, some st, some pos, some hn, some all =>
      let d0 := Impl.Rle.Dec.init w data
      let dN := runOpsState d0 ops
      verdict [("impl_history", renderObsList (Impl.Rle.runOps d0 ops) == obs),
               ("status", (if dN.status = .ok then 0 else 1) == st),
               ("pos", data.length - dN.rest.length == pos),
               ("has_next", (if Impl.Rle.hasNext dN then 1 else 0) == hn),
               ("impl_oneshot", Impl.Rle.decodeAll w data (Impl.Rle.demand ops) == all)]
              [("stream_eq_oneshot", renderObsList (Impl.Rle.cursorOps all ops) == obs)]
    | _, _, _, _, _, _, _, _ => .bad "rle_stream args"
  | "lev_dec" => some <|
    match l.inNat "w", l.inNat "n", l.inHex "data", l.outInt "r", l.outInts "vals" with
    | some w, some n, some data, some r, some vals =>
      let p := match Spec.RleHybrid.decode w data n with
        | .ok xs => if xs.all (· < 32768) then vals == xs.map Int.ofNat else true
        | .error _ => true
      verdict [("impl_decode_levels", Impl.Rle.decodeLevels w data n == vals), ("count", r == Int.ofNat vals.length)]
              [("spec_accepts_implies_equal", p)]
    | _, _, _, _, _ => .bad "lev_dec args"
  | "lev_pfx" => some <|
    match l.inNat "w", l.inNat "n", l.inHex "data", l.outInt "r", l.outNat "used", l.outInts "vals" with
    | some w, some n, some data, some r, some used, some vals =>
      let m := match Impl.Rle.decodeLevelsPrefixed w data n with
        | .error _ => r == -1 && used == 0
        | .ok (vs, u) => r == Int.ofNat vs.length && used == u && vals == vs
      let p := if data.length ≥ 4 ∧ r ≥ 0 then used == 4 + Spec.RleHybrid.leValue (data.take 4) && used ≤ data.length else true
      verdict [("impl_decode_prefixed", m)] [("consumed_is_4_plus_len_within_input", p)]
    | _, _, _, _, _, _ => .bad "lev_pfx args"
  | _ => none

end Driver.Ops.Rle
