import Carquet.Util
import Carquet.Spec.Delta
import Carquet.Impl.Delta
import Carquet.Impl.DeltaLength
import Carquet.Impl.DeltaStrings
/-
Driver ops for C11/C12 (delta family).  `st` is the carquet status code (0 = OK).
  dbp_enc32 vals=<i32,..> cap=N | st=S out=x.. [p_rt=0/1]          carquet_delta_encode_int32
  dbp_enc64 vals=<i64,..> cap=N | st=S out=x.. [p_rt=0/1]          carquet_delta_encode_int64
  dbp_dec32 data=x.. n=N [gram=1] | st=S vals=<..> consumed=N       carquet_delta_decode_int32
  dbp_dec64 data=x.. n=N [gram=1] | st=S vals=<..> consumed=N       carquet_delta_decode_int64
  dl_enc vals=<x..,x..> | st=S out=x.. [p_rt=]                      carquet_delta_length_encode
  dl_dec data=x.. n=N [gram=1] | st=S vals=<x..,..> consumed=N [offs=<values[i].data - data>]   carquet_delta_length_decode
  ds_enc vals=<x..,x..> | st=S out=x.. [p_rt=]                      carquet_delta_strings_encode
  ds_dec data=x.. n=N work=N [gram=1] | st=S vals=<x..,..> consumed=N [woffs=<values[i].data - work>]  carquet_delta_strings_decode
  dl_big lens=<n,..> fill=B | st=S size=N head=x.. [p_data= p_rt=]      carquet_delta_length_encode on values
  ds_big lens=<n,..> fill=B | st=S size=N head=x.. [p_data= p_rt=]      carquet_delta_strings_encode  too long to print:
      value i is lens[i] bytes, all equal to B; `head` = the first ≤ 200+24n bytes of the output, `size` its length
`gram=1`: the bytes were produced by the harness's own writer following the format document
(all varints minimal), so a 128/4 stream must be accepted.
-/
namespace Driver.Ops.Delta
open Carquet Carquet.Util
open Carquet.Impl.Delta (Status)

def stCode : Except Status α → Nat
  | .ok _ => 0
  | .error s => s.code

def outBytes : Except Status (List UInt8) → List UInt8
  | .ok b => b
  | .error _ => []

def int32s (l : List Int) : List (BitVec 32) := l.map (BitVec.ofInt 32)
def int64s (l : List Int) : List (BitVec 64) := l.map (BitVec.ofInt 64)

/-- encoder op: tie to the model; C12: the Spec decoder recovers the input from carquet's bytes
and nothing follows them; C11 (model side): the Impl decoder does too, consuming everything. -/
def encVerdict (W : Nat) (vals : List Int) (model : Except Status (List UInt8)) (st : Nat) (out : List UInt8)
    (implBack : Bool) : Verdict :=
  verdict [("impl_status", stCode model == st), ("impl_bytes", st != 0 || outBytes model == out)]
    (if st != 0 || vals.isEmpty then []
     else [("spec_decodes_carquet_bytes", Spec.Delta.decode W out == .ok (vals, [])),
           ("impl_decode_roundtrip", implBack)])

def geomIs1284 (data : List UInt8) : Option Bool :=
  match Spec.Delta.decodeHeader data with
  | .ok (h, _) => some (h.geom.blockSize == 128 && h.geom.miniblocks == 4)
  | .error _ => none

/-- decoder op.  Property side (C12, second direction):
 * when the Spec decoder accepts the stream and carquet returns OK, carquet's values are the
   first `n` the format prescribes (never wrong values), and `consumed` is the stream length when
   all values were asked for;
 * a legal geometry other than 128/4 is answered with an error;
 * a harness-written (`gram=1`) 128/4 stream asked for `n ≤ count` values is accepted. -/
def decProps (W : Nat) (data : List UInt8) (n : Nat) (gram : Bool) (st : Nat) (vals : List Int) (consumed : Nat) :
    List (String × Bool) :=
  match Spec.Delta.decode W data with
  | .error _ => []
  | .ok (vs, rest) =>
    let g := geomIs1284 data
    [("other_geometry_rejected", g != some false || st != 0),
     ("never_wrong_values", st != 0 || (n ≤ vs.length && vals == vs.take n)),
     ("consumed_is_stream_length", st != 0 || n != vs.length || vs.isEmpty || consumed + rest.length == data.length),
     ("spec_stream_accepted", !(gram && g == some true && n ≤ vs.length) || st == 0)]

/-- the harness's own writer and the Spec decoder are two transcriptions of the same document:
they must agree on what the writer's stream contains -/
def writerCheck (W : Nat) (data : List UInt8) : Option (List Int) → List (String × Bool)
  | none => []
  | some exp => [("harness_writer_vs_spec_decoder", Spec.Delta.decode W data == .ok (exp, []))]

def parseStrs (s : String) : Option (List (List UInt8)) := parseList parseHex s

/-- prefix lengths of strings that all consist of the same byte: min of neighbouring lengths -/
def uniformPrefixes : Option Nat → List Nat → List Nat
  | _, [] => []
  | none, x :: xs => 0 :: uniformPrefixes (some x) xs
  | some p, x :: xs => min p x :: uniformPrefixes (some x) xs

/-- `dl_big` / `ds_big`: the model is evaluated on the lengths alone (`encodeLens`); the tie compares
status, the length-stream bytes at the head of the output and the output size.  Property side (C11):
the API accepts every non-empty list of byte arrays (lengths < 2^31), so the encoder must succeed —
`encode_accepts_legal_input` — and the real decoder must give the input back (`p_rt`, C side). -/
def bigVerdict (m : Except Status (List UInt8)) (dataLen : Nat) (lens : List Nat) (st size : Nat) (head : List UInt8) : Verdict :=
  verdict [("impl_status", stCode m == st),
           ("impl_length_streams", st != 0 || ((outBytes m).length ≤ head.length && head.take (outBytes m).length == outBytes m)),
           ("impl_size", st != 0 || size == (outBytes m).length + dataLen)]
    [("encode_accepts_legal_input", !(0 < lens.length && lens.all (· < 2147483648)) || st == 0)]

def handle (l : Line) : Option Verdict :=
  match l.op with
  | "dl_big" => some <|
    match l.inNats "lens", l.outNat "st", l.outNat "size", l.outHex "head" with
    | some lens, some st, some size, some head =>
      bigVerdict (Impl.DeltaLength.encodeLens lens) lens.sum lens st size head
    | _, _, _, _ => .bad "dl_big args"
  | "ds_big" => some <|
    match l.inNats "lens", l.outNat "st", l.outNat "size", l.outHex "head" with
    | some lens, some st, some size, some head =>
      let pl := uniformPrefixes none lens
      let sl := List.zipWith (fun x p => x - p) lens pl
      bigVerdict (Impl.DeltaStrings.encodeLens pl sl) sl.sum lens st size head
    | _, _, _, _ => .bad "ds_big args"
  | "dbp_enc32" => some <|
    match l.inInts "vals", l.inNat "cap", l.outNat "st", l.outHex "out" with
    | some vals, some cap, some st, some out =>
      encVerdict 32 vals (Impl.Delta.encodeInt32 (int32s vals) cap) st out
        (match Impl.Delta.decodeInt32 out vals.length with
         | .ok (vs, c) => vs == int32s vals && c == out.length
         | .error _ => false)
    | _, _, _, _ => .bad "dbp_enc32 args"
  | "dbp_enc64" => some <|
    match l.inInts "vals", l.inNat "cap", l.outNat "st", l.outHex "out" with
    | some vals, some cap, some st, some out =>
      encVerdict 64 vals (Impl.Delta.encodeInt64 (int64s vals) cap) st out
        (match Impl.Delta.decodeInt64 out vals.length with
         | .ok (vs, c) => vs == int64s vals && c == out.length
         | .error _ => false)
    | _, _, _, _ => .bad "dbp_enc64 args"
  | "dbp_dec32" => some <|
    match l.inHex "data", l.inInt "n", l.outNat "st", l.outInts "vals", l.outNat "consumed" with
    | some data, some n, some st, some vals, some consumed =>
      let m := Impl.Delta.decodeInt32 data n.toNat
      verdict ([("impl_status", stCode m == st),
               ("impl_values", st != 0 || (match m with | .ok (vs, c) => vs == int32s vals && c == consumed | .error _ => false))]
               ++ writerCheck 32 data (l.inInts "exp"))
        (decProps 32 data n.toNat (l.inNat "gram" == some 1) st vals consumed)
    | _, _, _, _, _ => .bad "dbp_dec32 args"
  | "dbp_dec64" => some <|
    match l.inHex "data", l.inInt "n", l.outNat "st", l.outInts "vals", l.outNat "consumed" with
    | some data, some n, some st, some vals, some consumed =>
      let m := Impl.Delta.decodeInt64 data n.toNat
      verdict ([("impl_status", stCode m == st),
               ("impl_values", st != 0 || (match m with | .ok (vs, c) => vs == int64s vals && c == consumed | .error _ => false))]
               ++ writerCheck 64 data (l.inInts "exp"))
        (decProps 64 data n.toNat (l.inNat "gram" == some 1) st vals consumed)
    | _, _, _, _, _ => .bad "dbp_dec64 args"
  | "dl_enc" => some <|
    match (l.inStr "vals").bind parseStrs, l.outNat "st", l.outHex "out" with
    | some vals, some st, some out =>
      let m := Impl.DeltaLength.encode vals
      verdict [("impl_status", stCode m == st), ("impl_bytes", st != 0 || outBytes m == out)]
        (if st != 0 then [] else
         [("spec_decodes_carquet_bytes", Spec.Delta.decodeLengthByteArray out == .ok (vals, [])),
          ("impl_decode_roundtrip", Impl.DeltaLength.decode out vals.length == .ok (vals, out.length))])
    | _, _, _ => .bad "dl_enc args"
  | "dl_dec" => some <|
    match l.inHex "data", l.inInt "n", l.outNat "st", (l.outStr "vals").bind parseStrs, l.outNat "consumed" with
    | some data, some n, some st, some vals, some consumed =>
      let m := Impl.DeltaLength.decode data n
      verdict [("impl_status", stCode m == st),
               ("impl_values", st != 0 || m == .ok (vals, consumed)),
               -- the returned pointers (offsets into the input) are those of the instrumented model (C08)
               ("impl_slices", st != 0 || (match l.outInts "offs", Impl.DeltaLength.decodeSlices data n with
                  | some offs, .ok (sl, c) => sl.map (fun ol => (ol.1 : Int)) == offs && c == consumed &&
                      sl.map Prod.snd == vals.map List.length
                  | none, _ => true
                  | _, _ => false))]
        (match Spec.Delta.decodeLengthByteArray data with
         | .error _ => []
         | .ok (vs, rest) =>
           [("never_wrong_values", st != 0 || n.toNat != vs.length || vals == vs),
            ("consumed_is_stream_length", st != 0 || n.toNat != vs.length || consumed + rest.length == data.length),
            ("spec_stream_accepted", !(l.inNat "gram" == some 1 && geomIs1284 data == some true && n.toNat == vs.length && 0 < n) || st == 0)])
    | _, _, _, _, _ => .bad "dl_dec args"
  | "ds_enc" => some <|
    match (l.inStr "vals").bind parseStrs, l.outNat "st", l.outHex "out" with
    | some vals, some st, some out =>
      let m := Impl.DeltaStrings.encode vals
      verdict [("impl_status", stCode m == st), ("impl_bytes", st != 0 || outBytes m == out)]
        (if st != 0 then [] else
         [("spec_decodes_carquet_bytes", Spec.Delta.decodeByteArray out == .ok (vals, [])),
          ("impl_decode_roundtrip",
            Impl.DeltaStrings.decode out vals.length (vals.map List.length).sum == .ok (vals, out.length))])
    | _, _, _ => .bad "ds_enc args"
  | "ds_dec" => some <|
    match l.inHex "data", l.inInt "n", l.inNat "work", l.outNat "st", (l.outStr "vals").bind parseStrs, l.outNat "consumed" with
    | some data, some n, some work, some st, some vals, some consumed =>
      let m := Impl.DeltaStrings.decode data n work
      verdict [("impl_status", stCode m == st),
               ("impl_values", st != 0 || m == .ok (vals, consumed)),
               -- destinations in the work buffer are those of the instrumented model (C08)
               ("impl_accesses", st != 0 || (match l.outInts "woffs", Impl.DeltaStrings.decodeAcc data n work with
                  | some woffs, .ok (accs, c) => accs.map (fun a => (a.workOff : Int)) == woffs && c == consumed &&
                      accs.map (fun a => a.pre + a.suf) == vals.map List.length
                  | none, _ => true
                  | _, _ => false))]
        (match Spec.Delta.decodeByteArray data with
         | .error _ => []
         | .ok (vs, rest) =>
           [("never_wrong_values", st != 0 || n.toNat != vs.length || vals == vs),
            ("consumed_is_stream_length", st != 0 || n.toNat != vs.length || consumed + rest.length == data.length),
            ("spec_stream_accepted",
              !(l.inNat "gram" == some 1 && geomIs1284 data == some true && n.toNat == vs.length && 0 < n &&
                (vs.map List.length).sum ≤ work) || st == 0)])
    | _, _, _, _, _, _ => .bad "ds_dec args"
  | _ => none

end Driver.Ops.Delta
