import Carquet.Util
import Carquet.Spec.Cursor
import Carquet.Impl.ColumnReader
import Carquet.Impl.BatchReader
/-
Driver ops for C02 / C03 (column reader and batch reader consumption); formats in
harness/ops_cursor.c.
  cur …  | pgw= out=      tie: Impl.ColumnReader history (repaired code) = what the C code returned;
                          property: the returned rows decode to what Spec.Cursor delivers for the
                          written rows (only for undamaged files)
  bat …  | pgw= b= st= nb=  tie: Impl.BatchReader drained = what the C code returned; property: every
                          batch aligned, concatenation per projected column = the written column
Values are opaque tokens (decimal bit patterns, x<hex> byte strings).
-/
namespace Driver.Ops.Cursor
open Carquet Carquet.Util
open Carquet.Impl.ColumnReader (Fixes Page Reader)
open Carquet.Impl.BatchReader (IOMode Column ChunkData File Config Status Batch ColData)

abbrev Tok := String

def splitOn1 (s : String) (sep : String) : List String := if s.isEmpty then [] else s.splitOn sep

def toksOf (s : String) : List Tok := if s == "-" then [] else s.splitOn ","
def natsOf (s : String) : Option (List Nat) := parseList String.toNat? s

def modeOf : Nat → Option IOMode
  | 0 => some .fread | 1 => some .mmap | 2 => some .buffer | _ => none

def columnOf (name : String) (t opt : Nat) : Column :=
  { name := name, maxDef := opt, maxRep := 0,
    valueSize := if t == 0 then 1 else if t == 1 then 4 else if t == 2 || t == 5 then 8 else if t == 6 then 16 else 0,
    fixedWidth := t == 1 || t == 2 || t == 5, byteArray := t == 6 }

/-- Cut the written rows of a chunk into decoded pages: levels per row, dense values. -/
def pagesOf (maxDef : Nat) : List Nat → List Nat → List Tok → List (Page Tok)
  | [], _, _ => []
  | n :: ns, defs, vals =>
    let d := defs.take n
    let m := d.countP (· == maxDef)
    ⟨d, List.replicate d.length 0, vals.take m⟩ :: pagesOf maxDef ns (defs.drop n) (vals.drop m)

/-- The written rows as the Spec sees them. -/
def rowsOf (maxDef : Nat) : List Nat → List Tok → List (Spec.Cursor.Row Tok)
  | [], _ => []
  | d :: ds, vals =>
    if d == maxDef then ⟨d, 0, vals.head?⟩ :: rowsOf maxDef ds vals.tail
    else ⟨d, 0, none⟩ :: rowsOf maxDef ds vals

def markBad (bad : Int) (ps : List (Page Tok)) : List (Option (Page Tok)) :=
  (List.range ps.length).zip ps |>.map (fun (i, p) => if (i : Int) == bad then none else some p)

def parseOp (s : String) : Option Spec.Cursor.Op :=
  match s.toList with
  | 'r' :: k => (String.toInt? (String.ofList k)).map .read
  | 's' :: k => (String.toInt? (String.ofList k)).map .skip
  | ['h'] => some .hasNext
  | ['m'] => some .remaining
  | ['c'] => some .recreate
  | _ => none

def showOpt (f : β → String) : Option β → String
  | some x => f x
  | none => "?"

def dots (l : List String) : String := ".".intercalate l

def renderOut : Impl.ColumnReader.Out Tok → String
  | .read n defs reps vals =>
    s!"{n}:{dots (defs.map (showOpt toString))}:{dots (reps.map (showOpt toString))}:{dots (vals.map (showOpt id))}"
  | .skip n => toString n
  | .hasNext b => if b then "1" else "0"
  | .remaining n => toString n
  | .recreated => "c"

/-- rows from what a read returned (levels per row, dense values): `none` if the pieces do not fit -/
def decodeRows (maxDef : Nat) : List Nat → List Nat → List Tok → Option (List (Spec.Cursor.Row Tok))
  | [], [], [] => some []
  | d :: ds, r :: rs, vals =>
    if d == maxDef then
      match vals with
      | v :: vs => (decodeRows maxDef ds rs vs).map (⟨d, r, some v⟩ :: ·)
      | [] => none
    else (decodeRows maxDef ds rs vals).map (⟨d, r, none⟩ :: ·)
  | _, _, _ => none

def natDots (s : String) : Option (List Nat) := (splitOn1 s ".").mapM String.toNat?

/-- what the C code returned for one op, as a Spec output -/
def decodeOut (maxDef : Nat) (op : Spec.Cursor.Op) (s : String) : Option (Spec.Cursor.Out Tok) :=
  match op with
  | .read _ =>
    match s.splitOn ":" with
    | [n, d, r, v] =>
      match String.toInt? n, natDots d, natDots r with
      | some n, some d, some r => (decodeRows maxDef d r (splitOn1 v ".")).map (.read n ·)
      | _, _, _ => none
    | _ => none
  | .skip _ => (String.toInt? s).map .skip
  | .hasNext => if s == "1" then some (.hasNext true) else if s == "0" then some (.hasNext false) else none
  | .remaining => (String.toInt? s).map .remaining
  | .recreate => if s == "c" then some .recreated else none

def fileOfCur (ncol nrg t opt codec : Nat) (pages : List (Option (Page Tok))) (rows : Nat) : File Tok :=
  { columns := (List.range ncol).map (fun i => columnOf s!"c{i}" t opt),
    rowGroups := List.replicate nrg (List.replicate ncol ⟨pages, rows, codec == 0⟩) }

/-- equality of rendered outputs where a `?` of the model (a slot the pinned code fills with
whatever lay in memory) matches any token -/
def wildEq (m c : String) : Bool :=
  let ms := m.splitOn ":"; let cs := c.splitOn ":"
  ms.length == cs.length && (ms.zip cs).all (fun (a, b) =>
    let as := a.splitOn "."; let bs := b.splitOn "."
    as.length == bs.length && (as.zip bs).all (fun (x, y) => x == "?" || x == y))

def wildAll (ms cs : List String) : Bool := ms.length == cs.length && (ms.zip cs).all (fun (a, b) => wildEq a b)

def variantLabel (outsC : List String) (r : Reader Tok) (ops : List Spec.Cursor.Op) : String :=
  if wildAll ((Impl.ColumnReader.outs Fixes.preF4 r ops).map renderOut) outsC then "impl_model[C=pre-F4-model]"
  else if wildAll ((Impl.ColumnReader.outs Fixes.preF63 r ops).map renderOut) outsC then "impl_model[C=pre-F63-model]"
  else if wildAll ((Impl.ColumnReader.outs Fixes.pinned r ops).map renderOut) outsC then "impl_model[C=pinned-model]"
  else "impl_model"

def handleCur (l : Line) : Verdict :=
  match l.inNat "t", l.inNat "opt", l.inNat "codec", (l.inNat "mode").bind modeOf, l.inNat "ncol", l.inNat "nrg",
        l.inInt "rg", l.inInt "col", l.inInt "bad", (l.inStr "pg").bind natsOf, (l.inStr "defs").bind natsOf,
        (l.inStr "vals").map toksOf, (l.inStr "ops").bind (fun s => (toksOf s).mapM parseOp),
        l.outStr "out", (l.outStr "pgw").bind natsOf with
  | some t, some opt, some codec, some mode, some ncol, some nrg, some rg, some col, some bad, some pg, some defs,
    some vals, some ops, some out, some pgw =>
    let pages := pagesOf opt pg defs vals
    let f := fileOfCur ncol nrg t opt codec (markBad bad pages) defs.length
    match Impl.BatchReader.getColumn mode f rg col with
    | .error _ => .bad "get_column fails in the model"
    | .ok r =>
      let outsC := splitOn1 out "/"
      let outsM := (Impl.ColumnReader.outs Fixes.all r ops).map renderOut
      let tie := outsM == outsC
      let chunk := rowsOf opt defs vals
      let specOuts := Spec.Cursor.outs chunk 0 ops
      let decoded := (ops.zip outsC).mapM (fun (op, s) => decodeOut opt op s)
      let propOk := bad ≥ 0 || (outsC.length == ops.length && decoded == some specOuts)
      verdict [("paging_by_flush_rule", pgw == pg), (if tie then "impl_model" else variantLabel outsC r ops, tie)]
              [("reads_equal_spec_cursor", propOk)]
  | _, _, _, _, _, _, _, _, _, _, _, _, _, _, _ => .bad "cur args"

/-! batch reader -/

def hexByte (b : UInt8) : String := String.ofList [hexChar (b.toNat / 16), hexChar (b.toNat % 16)]

def renderCol (c : ColData Tok) : String :=
  let n := c.numValues.toNat
  let bm := if c.bitmap.isEmpty then "-" else "x" ++ String.join ((c.bitmap.take ((n + 7) / 8)).map hexByte)
  let m := (List.range n).countP (fun i => !Impl.BatchReader.bitmapBit c.bitmap i)
  s!"{c.numValues}:{bm}:{dots ((c.vals.take m).map (showOpt id))}:{if c.view && n > 0 then 1 else 0}"

def renderBatch (b : Batch Tok) : String :=
  ";".intercalate (toString b.numRows :: toString b.cols.length :: b.cols.map renderCol)

def statusStr : Status → String
  | .ok => "ok" | .endOfData => "eod" | .ub => "ub" | _ => "err"

/-- split a list according to chunk sizes -/
def chunksOf (l : List β) (n : Nat) : List (List β) :=
  if n == 0 then [] else
  (List.range ((l.length + n - 1) / n)).map (fun i => (l.drop (i * n)).take n)

/-- the rows a batch column delivers, as `Option Tok` per row (bit set = null): `none` if the
pieces do not fit -/
def decodeCol (s : String) : Option (Nat × List (Option Tok)) :=
  match s.splitOn ":" with
  | [n, bm, v, _] =>
    match String.toNat? n with
    | some n =>
      let bits : List UInt8 := if bm == "-" then [] else (parseHex bm).getD []
      let vals := splitOn1 v "."
      let rec go (i : Nat) (fuel : Nat) (vals : List Tok) (acc : List (Option Tok)) : Option (List (Option Tok)) :=
        match fuel with
        | 0 => if vals.isEmpty then some acc.reverse else none
        | fuel + 1 =>
          if Impl.BatchReader.bitmapBit bits i then go (i + 1) fuel vals (none :: acc)
          else match vals with
            | v :: vs => go (i + 1) fuel vs (some v :: acc)
            | [] => none
      (go 0 n vals []).map (n, ·)
    | none => none
  | _ => none

def handleBat (l : Line) : Verdict :=
  match l.inNat "ncol", l.inNat "nrg", (l.inStr "t").bind natsOf, (l.inStr "opt").bind natsOf,
        (l.inStr "names").map toksOf, l.inNat "codec", (l.inNat "mode").bind modeOf,
        l.inStr "pg", l.inStr "defs", l.inStr "vals", l.inInt "bs", (l.inStr "proj").bind (parseList String.toInt?),
        l.inNat "byname", l.outStr "b", l.outStr "st", l.outNat "nb", l.outStr "pgw" with
  | some ncol, some nrg, some ts, some opts, some names, some codec, some mode, some pgS, some defsS, some valsS,
    some bs, some proj, some byname, some bC, some stC, some nbC, some pgw =>
    let pgs := (pgS.splitOn "/").map (fun s => (natsOf s).getD [])
    let defss := (defsS.splitOn "/").map (fun s => (natsOf s).getD [])
    let valss := (valsS.splitOn "/").map toksOf
    if ncol == 0 || pgs.length != ncol * nrg || defss.length != ncol * nrg || valss.length != ncol * nrg
        || ts.length != ncol || opts.length != ncol || names.length != ncol then .bad "bat shape" else
    let cols : List Column := (List.range ncol).map (fun i => columnOf (names.getD i "") (ts.getD i 0) (opts.getD i 0))
    let chunks : List (ChunkData Tok) := (List.range (ncol * nrg)).map (fun i =>
      let opt := opts.getD (i % ncol) 0
      ⟨(pagesOf opt (pgs.getD i []) (defss.getD i []) (valss.getD i [])).map some, (defss.getD i []).length, codec == 0⟩)
    let f : File Tok := ⟨cols, chunksOf chunks ncol⟩
    let unknown := (l.inStr "unknown").getD "?"
    let cfg : Config :=
      if proj.isEmpty then ⟨bs, [], []⟩
      else if byname == 0 then ⟨bs, proj, []⟩
      else ⟨bs, [], proj.map (fun i => if i < 0 then unknown else names.getD i.toNat unknown)⟩
    let total := ((List.range nrg).map (fun g => (defss.getD (g * ncol) []).length)).foldl (· + ·) 0
    let fuel := total + 2 * nrg + 6
    let res := Impl.BatchReader.readAll Fixes.all mode f cfg fuel
    let (bM, stM, nbM) := match res with
      | none => ("-", "null", 0)
      | some (bs, st) => (if bs.isEmpty then "-" else "/".intercalate (bs.map renderBatch), statusStr st, bs.length)
    let tie := bM == bC && stM == stC && nbM == nbC
    let label :=
      if tie then "impl_model" else
      match Impl.BatchReader.readAll Fixes.preF5 mode f cfg fuel with
      | some (bs, st) =>
        if (if bs.isEmpty then "-" else "/".intercalate (bs.map renderBatch)) == bC && statusStr st == stC
        then "impl_model[C=pre-F5-model]" else "impl_model"
      | none => "impl_model"
    -- property predicates, only when the projection is valid (the batch reader exists and ends with END_OF_DATA in the model)
    let projIdx : List Nat :=
      if proj.isEmpty then List.range ncol
      else if byname == 0 then proj.map Int.toNat
      else proj.map (fun i => (Impl.BatchReader.findColumn f (names.getD i.toNat unknown)).toNat)
    let valid := stM == "eod"
    let batchesC : List (List String) := if bC == "-" then [] else (bC.splitOn "/").map (·.splitOn ";")
    let aligned := batchesC.all (fun b =>
      match b with
      | rows :: _ :: cs => cs.all (fun c => ((decodeCol c).map (·.1)) == String.toNat? rows)
      | _ => false)
    let concatOk := (List.range projIdx.length).all (fun j =>
      let want : List (Option Tok) := (List.range nrg).flatMap (fun g =>
        let i := g * ncol + projIdx.getD j 0
        Spec.Cursor.content (rowsOf (opts.getD (projIdx.getD j 0) 0) (defss.getD i []) (valss.getD i [])))
      let got : Option (List (Option Tok)) := (batchesC.mapM (fun b => (decodeCol ((b.drop 2).getD j "")).map (·.2))).map List.flatten
      got == some want)
    verdict [("paging_by_flush_rule", pgw == pgS), (label, tie)]
            [("batch_rows_aligned", !valid || aligned), ("batches_concat_eq_column", !valid || (stC == "eod" && concatOk))]
  | _, _, _, _, _, _, _, _, _, _, _, _, _, _, _, _, _ => .bad "bat args"

def handle (l : Line) : Option Verdict :=
  match l.op with
  | "cur" => some (handleCur l)
  | "bat" => some (handleBat l)
  | "batlate" => some <|
    -- batches consumed after the last next(): same data as when consumed immediately (harness/ops_file.c)
    match l.outStr "dg_late", l.outStr "dg_now" with
    | some a, some b => verdict [] [("late_consumption_same_data", a == b)]
    | _, _ => if (l.outStr "err").isSome then .ok else .bad "batlate args"
  | "hdrtags" => some .ok    -- level-encoding fields of pages without levels rewritten: judged by the C-side predicate
  | "bigfile" => some .ok    -- pages more than 2 GiB before the end of the file, three modes: judged by the C-side predicate
  | _ => none

end Driver.Ops.Cursor
