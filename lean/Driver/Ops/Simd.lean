import Carquet.Util
import Carquet.Spec.Kernels
import Carquet.Impl.Simd
import Carquet.Impl.Dispatch
/-
Driver ops for C15 (harness/ops_simd.c).

  simd_<kernel> n= sa= da= s1= junk= dom= [cap=] a=x.. [b=x..]
      | ref=x.. (or r=<int>)  vs=<variants run>  [d_<variant>=<result differing from the scalar one>] …
  simd_dispatch cap=<mask> | hook=1 cpu=<reported flags> slots=<isa of the kernel in each slot>

`ref`/`r` is what the scalar fallback returned; every variant listed in `vs` returned the same
unless a `d_<variant>` field says otherwise.
property checks : every variant's result equals `Spec.Kernels` (inside the kernel's domain);
                  dispatcher: the features required by every selected kernel are in the mask.
model checks    : for the kernels modelled with intrinsics, `Impl.Simd` gives the variant's result;
                  dispatcher: `Impl.Dispatch.select` names the kernel the real table holds.
-/
namespace Driver.Ops.Simd
open Carquet Carquet.Util
open Carquet.Spec.Kernels

/-! little-endian helpers (parsing only) -/

def chunkAux {α : Type} (k : Nat) : Nat → List α → List (List α)
  | 0, _ => []
  | f + 1, xs => if k = 0 ∨ xs.length < k then [] else xs.take k :: chunkAux k f (xs.drop k)
def chunk {α : Type} (k : Nat) (xs : List α) : List (List α) := chunkAux k xs.length xs

def leNat (bs : List UInt8) : Nat := bs.foldr (fun b acc => b.toNat + 256 * acc) 0
def valsOf (w : Nat) (bs : List UInt8) : List (BitVec w) := (chunk (w / 8) bs).map fun c => BitVec.ofNat w (leNat c)
def bytesOf {w : Nat} (vs : List (BitVec w)) : List UInt8 :=
  vs.flatMap fun v => (List.range (w / 8)).map fun i => UInt8.ofNat ((v.toNat >>> (8 * i)) % 256)
def natsToBytes32 (vs : List Nat) : List UInt8 := bytesOf (vs.map (BitVec.ofNat 32))

/-- what one variant computed, as the harness prints it: bytes or an integer -/
inductive Res where
  | bytes (b : List UInt8)
  | int (i : Int)
  deriving BEq

def variantRes (l : Line) (v : String) : Option Res :=
  match l.outStr ("d_" ++ v) with
  | some s => (match parseHex s with
               | some b => some (.bytes b)
               | none => (s.toInt?).map .int)
  | none => match l.outHex "ref" with
            | some b => some (.bytes b)
            | none => (l.outInt "r").map .int

def rankName : Nat → String
  | 0 => "scalar" | 1 => "sse" | 2 => "avx2" | 3 => "avx512" | _ => "unknown"

/-- the instruction set a variant name stands for; `dm` is resolved through the dispatcher model -/
def isaOf (l : Line) (slot : Option Nat) (v : String) : String :=
  if v == "dm" then
    match l.inNat "cap", slot with
    | some cap, some s => (match Impl.Dispatch.selectedRank cap s with
                           | some r => rankName r
                           | none => "unknown")
    | _, _ => "unknown"
  else v

structure Case where
  n : Nat
  s1 : Int
  a : List UInt8
  b : List UInt8
  junk : Nat
  dom : Bool

/-- Spec result and per-ISA Impl results of one kernel on one input -/
structure Eval where
  spec : Option Res
  impl : String → Option Res := fun _ => none

open Impl.Simd in
def evalKernel (name : String) (c : Case) : Option Eval :=
  let i32 := valsOf 32 c.a
  let i64 := valsOf 64 c.a
  let i16 := valsOf 16 c.a
  match name with
  | "prefix_sum_i32" =>
    let init := BitVec.ofInt 32 c.s1
    some { spec := some (.bytes (bytesOf (prefixSum init i32))),
           impl := fun isa => match isa with
             | "sse" => some (.bytes (bytesOf (ssePrefixSumI32 init i32)))
             | "avx2" => some (.bytes (bytesOf (avx2PrefixSumI32 init i32)))
             | "avx512" => some (.bytes (bytesOf (avx512PrefixSumI32 init i32)))
             | _ => none }
  | "prefix_sum_i64" =>
    let init := BitVec.ofInt 64 c.s1
    some { spec := some (.bytes (bytesOf (prefixSum init i64))),
           impl := fun isa => match isa with
             | "sse" => some (.bytes (bytesOf (ssePrefixSumI64 init i64)))
             | "avx2" => some (.bytes (bytesOf (avx2PrefixSumI64 init i64)))
             | "avx512" => some (.bytes (bytesOf (avx512PrefixSumI64 init i64)))
             | _ => none }
  | "gather_i32" | "gather_float" =>
    some { spec := (gather i32 ((valsOf 32 c.b).map (·.toNat))).map fun o => .bytes (bytesOf o) }
  | "gather_i64" | "gather_double" =>
    some { spec := (gather i64 ((valsOf 32 c.b).map (·.toNat))).map fun o => .bytes (bytesOf o) }
  | "bss_encode_float" =>
    some { spec := some (.bytes (bssEncode (k := 4) (valsOf 32 c.a))),
           impl := fun isa => match isa with
             | "sse" => some (.bytes (sseBssEncodeFloat i32))
             | "avx2" => some (.bytes (avx2BssEncodeFloat i32))
             | "avx512" => some (.bytes (avx512BssEncodeFloat i32))
             | _ => none }
  | "bss_decode_float" =>
    let n := c.n
    let ts := zip4 (c.a.take n) ((c.a.drop n).take n) ((c.a.drop (2 * n)).take n) ((c.a.drop (3 * n)).take n)
    some { spec := (bssDecode 4 n c.a).map fun o => .bytes (bytesOf o),
           impl := fun isa => match isa with
             | "sse" => some (.bytes (bytesOf (sseBssDecodeFloat ts)))
             | "avx2" => some (.bytes (bytesOf (avx2BssDecodeFloat ts)))
             | "avx512" => some (.bytes (bytesOf (avx512BssDecodeFloat ts)))
             | _ => none }
  | "bss_encode_double" => some { spec := some (.bytes (bssEncode (k := 8) (valsOf 64 c.a))) }
  | "bss_decode_double" => some { spec := (bssDecode 8 c.n c.a).map fun o => .bytes (bytesOf o) }
  | "unpack_bools" =>
    some { spec := (unpackBools c.a c.n).map .bytes,
           impl := fun isa => match isa with
             | "sse" => some (.bytes (sseUnpackBools c.a c.n))
             | "avx2" => some (.bytes (avx2UnpackBools c.a c.n))
             | "avx512" => some (.bytes (avx512UnpackBools c.a c.n))
             | _ => none }
  | "pack_bools" =>
    some { spec := some (.bytes (packBools c.a)),
           impl := fun isa => match isa with
             | "sse" => some (.bytes (ssePackBools c.a))
             | "avx2" => some (.bytes (avx2PackBools c.a))
             | "avx512" => some (.bytes (avx512PackBools c.a))
             | "scalar" => some (.bytes (packScalar c.a))
             | _ => none }
  | "find_run_length_i32" =>
    some { spec := some (.int (findRunLength i32)),
           impl := fun isa => match isa with
             | "sse" => some (.int (sseFindRunLength i32))
             | "avx2" => some (.int (avx2FindRunLength i32))
             | "avx512" => some (.int (avx512FindRunLength i32))
             | _ => none }
  | "crc32c" =>
    let crc := BitVec.ofInt 32 c.s1
    some { spec := some (.int (crc32c crc c.a).toNat),
           impl := fun isa => match isa with
             | "sse" => some (.int (sseCrc32c crc c.a).toNat)
             | "scalar" => some (.int (scalarCrc32c Gen.Dispatch.crc32cTable crc c.a).toNat)
             | _ => none }
  | "match_copy" => some { spec := some (.bytes (matchCopy c.a c.n)) }
  | "match_length" => some { spec := some (.int (matchLength c.a c.s1.toNat)) }
  | "count_non_nulls" =>
    let mx := BitVec.ofInt 16 c.s1
    some { spec := some (.int (countNonNulls i16 mx)),
           impl := fun isa => match isa with
             | "sse" => some (.int (sseCountNonNulls i16 mx))
             | _ => none }
  | "build_null_bitmap" =>
    let mx := BitVec.ofInt 16 c.s1
    some { spec := some (.bytes (buildNullBitmap i16 mx)),
           impl := fun isa => match isa with
             | "sse" => some (.bytes (sseBuildNullBitmap i16 mx))
             | "scalar" => some (.bytes (scalarBuildNullBitmap i16 mx))
             | _ => none }
  | "fill_def_levels" =>
    let v := BitVec.ofInt 16 c.s1
    some { spec := some (.bytes (bytesOf (fillDefLevels c.n v))),
           impl := fun isa => match isa with
             | "sse" => some (.bytes (bytesOf (sseFillDefLevels (List.replicate c.n 0#16) v)))
             | _ => none }
  | "memset" => some { spec := some (.bytes (memset c.n (UInt8.ofNat c.s1.toNat))) }
  | "memcpy" => some { spec := some (.bytes (memcpy c.a)) }
  | _ =>
    -- bitunpack<N>_<w>bit
    if name.startsWith "bitunpack" then
      match ((name.drop 9).toString.splitOn "_") with
      | [ns, ws] =>
        match ns.toNat?, (ws.dropEnd 3).toString.toNat? with
        | some nv, some w => some { spec := (bitUnpack w nv c.a).map fun o => .bytes (natsToBytes32 o) }
        | _, _ => none
      | _ => none
    else none

def slotOf (name : String) : Option Nat :=
  let n := match name with
    | "bss_encode_float" => "byte_split_encode_float" | "bss_decode_float" => "byte_split_decode_float"
    | "bss_encode_double" => "byte_split_encode_double" | "bss_decode_double" => "byte_split_decode_double"
    | other => other
  Gen.Dispatch.slots.idxOf? n

def handleKernel (l : Line) (name : String) : Verdict :=
  match l.inNat "n", l.inInt "s1", l.inHex "a", l.outStr "vs" with
  | some n, some s1, some a, some vs =>
    let c : Case := { n := n, s1 := s1, a := a, b := (l.inHex "b").getD [], junk := (l.inNat "junk").getD 0,
                      dom := (l.inNat "dom").getD 1 == 1 }
    match evalKernel name c with
    | none => .bad s!"unknown kernel {name}"
    | some ev =>
      let variants := vs.splitOn ","
      let slot := slotOf name
      let results := variants.map fun v => (v, variantRes l v)
      if results.any (fun r => r.2.isNone) then .bad "result fields" else
      let prop := if c.dom then results.map fun (v, r) => (s!"{name}.{v}=spec", ev.spec.isSome && r == ev.spec) else []
      let model := results.filterMap fun (v, r) =>
        match ev.impl (isaOf l slot v) with
        | some m => some (s!"{name}.{v}=impl", r == some m)
        | none => none
      verdict model prop
  | _, _, _, _ => .bad "simd kernel args"

def handleDispatch (l : Line) : Verdict :=
  match l.outNat "hook" with
  | some 1 =>
    match l.outNat "cpu", l.outStr "slots" with
    | some cpu, some slots =>
      let names := slots.splitOn ","
      let nslots := Gen.Dispatch.slots.length
      let model := (List.range nslots).map fun s =>
        (s!"slot{s}", (Impl.Dispatch.selectedRank cpu s).map rankName == names[s]?)
      let prop := (List.range nslots).map fun s => (s!"dispatch_sound.slot{s}", Impl.Dispatch.sound cpu s)
      verdict (("slot_count", names.length == nslots) :: model) prop
    | _, _ => .bad "simd_dispatch fields"
  | _ => .diverge "capability hook (fixes/HOOK-detect-cpu-cap.patch) is not applied to this tree"

/-- count_non_nulls at counts where a narrow accumulator would wrap; the input is given by a pattern
(harness/ops_simd.c, step 2b) -/
def handleCountBig (l : Line) : Verdict :=
  match l.inNat "n", l.inNat "pat", l.outNat "scalar", l.outNat "sse", l.outNat "dispatch" with
  | some n, some pat, some sc, some se, some di =>
    let want := if pat == 0 then n else if pat == 1 then n - (n + 7) / 8 else (n + 4) / 8
    verdict [] [("scalar_counts_non_nulls", sc == want), ("sse_eq_scalar", se == want), ("dispatch_eq_scalar", di == want)]
  | _, _, _, _, _ => .bad "simd_count_big args"

def handle (l : Line) : Option Verdict :=
  if l.op == "simd_dispatch" then some (handleDispatch l)
  else if l.op == "simd_count_big" then some (handleCountBig l)
  else if l.op.startsWith "simd_" then some (handleKernel l (l.op.drop 5).toString)
  else none

end Driver.Ops.Simd
