import Carquet.Util
import Carquet.Spec.Kernels
import Carquet.Impl.Simd
import Carquet.Impl.SimdMore
import Carquet.Impl.SimdBitunpack
import Carquet.Impl.SimdRegistry
import Carquet.Impl.Dispatch
/-
Driver ops for C15 (harness/ops_simd.c).

  simd_<kernel> n= sa= da= s1= junk= dom= [cap=] a=x.. [b=x..]
      | ref=x.. (or r=<int>)  vs=<variants run>  [d_<variant>=<result differing from the scalar one>] …
  simd_dispatch cap=<mask> | hook=1 cpu=<reported flags> slots=<isa of the kernel in each slot>

`ref`/`r` is what the scalar fallback returned; every variant listed in `vs` returned the same
unless a `d_<variant>` field says otherwise.
property checks : every variant's result equals `Spec.Kernels` (inside the kernel's domain);
                  dispatcher: the features required by every selected kernel are in the mask.
model checks    : `Impl.Simd` gives the result of every variant of every kernel (scalar fallbacks included);
                  dispatcher: `Impl.Dispatch.select` names the kernel the real table holds.

  simd_gather_wide name= es= n= dom= cpu= idx=x.. | r_<variant>=x.. …  (indices on both sides of 2^31 against a
      dictionary window inside a huge mapping; the element at signed offset o holds mix(o))
      model checks: scalar / sse read the zero-extended offset, avx2 / avx512 the sign-extended one;
      property check (dom=1 only: all indices < 2^31): every variant returns dict[idx[i]].
  simd_coverage name= widths= | full= tail= multi= maxn= mis= [mc=]   (what the run covered; all counts must be > 0)
-/
namespace Driver.Ops.Simd
open Carquet Carquet.Util
open Carquet.Spec.Kernels

/-! little-endian helpers (parsing only) -/

def chunkAux {α : Type} (k : Nat) : Nat → List α → List (List α)
  | 0, _ => []
  | f + 1, xs => if k = 0 ∨ xs.length < k then [] else xs.take k :: chunkAux k f (xs.drop k)
def chunk {α : Type} (k : Nat) (xs : List α) : List (List α) := chunkAux k xs.length xs

def leNat (bs : List UInt8) : Nat := bs.foldr (fun b acc => b.toNat + 256 * acc) 0
def valsOf (w : Nat) (bs : List UInt8) : List (BitVec w) := (chunk (w / 8) bs).map fun c => BitVec.ofNat w (leNat c)
def bytesOf {w : Nat} (vs : List (BitVec w)) : List UInt8 :=
  vs.flatMap fun v => (List.range (w / 8)).map fun i => UInt8.ofNat ((v.toNat >>> (8 * i)) % 256)
def natsToBytes32 (vs : List Nat) : List UInt8 := bytesOf (vs.map (BitVec.ofNat 32))

/-- what one variant computed, as the harness prints it: bytes or an integer -/
inductive Res where
  | bytes (b : List UInt8)
  | int (i : Int)
  deriving BEq

def variantRes (l : Line) (v : String) : Option Res :=
  match l.outStr ("d_" ++ v) with
  | some s => (match parseHex s with
               | some b => some (.bytes b)
               | none => (s.toInt?).map .int)
  | none => match l.outHex "ref" with
            | some b => some (.bytes b)
            | none => (l.outInt "r").map .int

def rankName : Nat → String
  | 0 => "scalar" | 1 => "sse" | 2 => "avx2" | 3 => "avx512" | _ => "unknown"

/-- the instruction set a variant name stands for; `dm` is resolved through the dispatcher model -/
def isaOf (l : Line) (slot : Option Nat) (v : String) : String :=
  if v == "dm" then
    match l.inNat "cap", slot with
    | some cap, some s => (match Impl.Dispatch.selectedRank cap s with
                           | some r => rankName r
                           | none => "unknown")
    | _, _ => "unknown"
  else v

structure Case where
  n : Nat
  s1 : Int
  a : List UInt8
  b : List UInt8
  junk : Nat
  dom : Bool

/-- Spec result and per-ISA Impl results of one kernel on one input -/
structure Eval where
  spec : Option Res
  impl : String → Option Res := fun _ => none

open Impl.Simd in
def evalKernel (name : String) (c : Case) : Option Eval :=
  let i32 := valsOf 32 c.a
  let i64 := valsOf 64 c.a
  let i16 := valsOf 16 c.a
  match name with
  | "prefix_sum_i32" =>
    let init := BitVec.ofInt 32 c.s1
    some { spec := some (.bytes (bytesOf (prefixSum init i32))),
           impl := fun isa => match isa with
             | "sse" => some (.bytes (bytesOf (ssePrefixSumI32 init i32)))
             | "avx2" => some (.bytes (bytesOf (avx2PrefixSumI32 init i32)))
             | "avx512" => some (.bytes (bytesOf (avx512PrefixSumI32 init i32)))
             | "scalar" => some (.bytes (bytesOf (scalarPrefixSum init i32)))
             | _ => none }
  | "prefix_sum_i64" =>
    let init := BitVec.ofInt 64 c.s1
    some { spec := some (.bytes (bytesOf (prefixSum init i64))),
           impl := fun isa => match isa with
             | "sse" => some (.bytes (bytesOf (ssePrefixSumI64 init i64)))
             | "avx2" => some (.bytes (bytesOf (avx2PrefixSumI64 init i64)))
             | "avx512" => some (.bytes (bytesOf (avx512PrefixSumI64 init i64)))
             | "scalar" => some (.bytes (bytesOf (scalarPrefixSum init i64)))
             | _ => none }
  | "gather_i32" | "gather_float" =>
    let idx := valsOf 32 c.b
    let res (o : Option (List (BitVec 32))) : Option Res :=
      match o with | some v => some (.bytes (bytesOf v)) | none => some (.int (-1))   -- model: read outside the dictionary
    some { spec := (gather i32 (idx.map (·.toNat))).map fun o => .bytes (bytesOf o),
           impl := fun isa => match isa with
             | "scalar" => res (scalarGather (memOf i32) idx)
             | "sse" => res (sseGather32 (memOf i32) idx)
             | "avx2" => res (avx2Gather32 (memOf i32) idx)
             | "avx512" => res (avx512Gather32 (memOf i32) idx)
             | _ => none }
  | "gather_i64" | "gather_double" =>
    let idx := valsOf 32 c.b
    let res (o : Option (List (BitVec 64))) : Option Res :=
      match o with | some v => some (.bytes (bytesOf v)) | none => some (.int (-1))
    some { spec := (gather i64 (idx.map (·.toNat))).map fun o => .bytes (bytesOf o),
           impl := fun isa => match isa with
             | "scalar" => res (scalarGather (memOf i64) idx)
             | "sse" => res (sseGather64 (memOf i64) idx)
             | "avx2" => res (avx2Gather64 (memOf i64) idx)
             | "avx512" => res (avx512Gather64 (memOf i64) idx)
             | _ => none }
  | "bss_encode_float" =>
    some { spec := some (.bytes (bssEncode (k := 4) (valsOf 32 c.a))),
           impl := fun isa => match isa with
             | "sse" => some (.bytes (sseBssEncodeFloat i32))
             | "avx2" => some (.bytes (avx2BssEncodeFloat i32))
             | "avx512" => some (.bytes (avx512BssEncodeFloat i32))
             | "scalar" => some (.bytes (scalarBssEncodeFloat i32))
             | _ => none }
  | "bss_decode_float" =>
    let n := c.n
    let ts := zip4 (c.a.take n) ((c.a.drop n).take n) ((c.a.drop (2 * n)).take n) ((c.a.drop (3 * n)).take n)
    some { spec := (bssDecode 4 n c.a).map fun o => .bytes (bytesOf o),
           impl := fun isa => match isa with
             | "sse" => some (.bytes (bytesOf (sseBssDecodeFloat ts)))
             | "avx2" => some (.bytes (bytesOf (avx2BssDecodeFloat ts)))
             | "avx512" => some (.bytes (bytesOf (avx512BssDecodeFloat ts)))
             | "scalar" => (scalarBssDecodeFloat n c.a).map fun o => .bytes (bytesOf o)
             | _ => none }
  | "bss_encode_double" =>
    some { spec := some (.bytes (bssEncode (k := 8) (valsOf 64 c.a))),
           impl := fun isa => match isa with
             | "scalar" => some (.bytes (scalarBssEncodeDouble i64))
             | "sse" => some (.bytes (sseBssEncodeDouble i64))
             | "avx2" => some (.bytes (avx2BssEncodeDouble i64))
             | _ => none }
  | "bss_decode_double" =>
    some { spec := (bssDecode 8 c.n c.a).map fun o => .bytes (bytesOf o),
           impl := fun isa => match isa with
             | "scalar" => (scalarBssDecodeDouble c.n c.a).map fun o => .bytes (bytesOf o)
             | "sse" => (sseBssDecodeDouble c.n c.a).map fun o => .bytes (bytesOf o)
             | "avx2" => (avx2BssDecodeDouble c.n c.a).map fun o => .bytes (bytesOf o)
             | _ => none }
  | "unpack_bools" =>
    some { spec := (unpackBools c.a c.n).map .bytes,
           impl := fun isa => match isa with
             | "sse" => some (.bytes (sseUnpackBools c.a c.n))
             | "avx2" => some (.bytes (avx2UnpackBools c.a c.n))
             | "avx512" => some (.bytes (avx512UnpackBools c.a c.n))
             | "scalar" => (scalarUnpackBools c.a c.n).map .bytes
             | _ => none }
  | "pack_bools" =>
    some { spec := some (.bytes (packBools c.a)),
           impl := fun isa => match isa with
             | "sse" => some (.bytes (ssePackBools c.a))
             | "avx2" => some (.bytes (avx2PackBools c.a))
             | "avx512" => some (.bytes (avx512PackBools c.a))
             | "scalar" => some (.bytes (packScalar c.a))
             | _ => none }
  | "find_run_length_i32" =>
    some { spec := some (.int (findRunLength i32)),
           impl := fun isa => match isa with
             | "sse" => some (.int (sseFindRunLength i32))
             | "avx2" => some (.int (avx2FindRunLength i32))
             | "avx512" => some (.int (avx512FindRunLength i32))
             | "scalar" => some (.int (scalarFindRunLength i32))
             | _ => none }
  | "crc32c" =>
    let crc := BitVec.ofInt 32 c.s1
    some { spec := some (.int (crc32c crc c.a).toNat),
           impl := fun isa => match isa with
             | "sse" => some (.int (sseCrc32c crc c.a).toNat)
             | "scalar" => some (.int (scalarCrc32c Gen.Dispatch.crc32cTable crc c.a).toNat)
             | _ => none }
  | "match_copy" =>
    some { spec := some (.bytes (matchCopy c.a c.n)),
           impl := fun isa => match isa with
             | "scalar" => some (.bytes (scalarMatchCopy c.a c.n))
             | "sse" => some (.bytes (sseMatchCopy c.a c.n))
             | _ => none }
  | "match_length" =>
    some { spec := some (.int (matchLength c.a c.s1.toNat)),
           impl := fun isa => match isa with
             | "scalar" => some (.int (scalarMatchLength c.a c.s1.toNat))
             | "sse" => some (.int (sseMatchLength c.a c.s1.toNat))
             | _ => none }
  | "count_non_nulls" =>
    let mx := BitVec.ofInt 16 c.s1
    some { spec := some (.int (countNonNulls i16 mx)),
           impl := fun isa => match isa with
             | "sse" => some (.int (sseCountNonNulls i16 mx))
             | "scalar" => some (.int (scalarCountNonNulls i16 mx))
             | _ => none }
  | "build_null_bitmap" =>
    let mx := BitVec.ofInt 16 c.s1
    some { spec := some (.bytes (buildNullBitmap i16 mx)),
           impl := fun isa => match isa with
             | "sse" => some (.bytes (sseBuildNullBitmap i16 mx))
             | "scalar" => some (.bytes (scalarBuildNullBitmap i16 mx))
             | _ => none }
  | "fill_def_levels" =>
    let v := BitVec.ofInt 16 c.s1
    some { spec := some (.bytes (bytesOf (fillDefLevels c.n v))),
           impl := fun isa => match isa with
             | "sse" => some (.bytes (bytesOf (sseFillDefLevels (List.replicate c.n 0#16) v)))
             | "scalar" => some (.bytes (bytesOf (scalarFillDefLevels (List.replicate c.n 0#16) v)))
             | _ => none }
  | "memset" =>
    let v := UInt8.ofNat c.s1.toNat
    let old := List.replicate c.n (UInt8.ofNat c.junk)
    some { spec := some (.bytes (memset c.n v)),
           impl := fun isa => match isa with
             | "sse" => some (.bytes (sseMemset old v))
             | "avx2" => some (.bytes (avx2Memset old v))
             | "avx512" => some (.bytes (avx512Memset old v))
             | _ => none }
  | "memcpy" =>
    some { spec := some (.bytes (memcpy c.a)),
           impl := fun isa => match isa with
             | "sse" => some (.bytes (sseMemcpy c.a))
             | "avx2" => some (.bytes (avx2Memcpy c.a))
             | "avx512" => some (.bytes (avx512Memcpy c.a))
             | _ => none }
  | _ =>
    -- bitunpack<N>_<w>bit
    if name.startsWith "bitunpack" then
      match ((name.drop 9).toString.splitOn "_") with
      | [ns, ws] =>
        match ns.toNat?, (ws.dropEnd 3).toString.toNat? with
        | some nv, some w =>
          let m (f : List UInt8 → List (BitVec 32)) : Option Res := some (.bytes (bytesOf (f c.a)))
          some { spec := (bitUnpack w nv c.a).map fun o => .bytes (natsToBytes32 o),
                 impl := fun isa => match name, isa with
                   | "bitunpack32_1bit", "sse" => m sseBitunpack32x1
                   | "bitunpack8_4bit", "sse" => m sseBitunpack8x4
                   | "bitunpack8_8bit", "sse" => m sseBitunpack8x8
                   | "bitunpack64_1bit", "avx2" => m avx2Bitunpack64x1
                   | "bitunpack16_4bit", "avx2" => m avx2Bitunpack16x4
                   | "bitunpack16_8bit", "avx2" => m avx2Bitunpack16x8
                   | "bitunpack8_16bit", "avx2" => m avx2Bitunpack8x16
                   | "bitunpack32_8bit", "avx512" => m avx512Bitunpack32x8
                   | "bitunpack16_16bit", "avx512" => m avx512Bitunpack16x16
                   | "bitunpack32_4bit", "avx512" => m avx512Bitunpack32x4
                   | _, _ => none }
        | _, _ => none
      | _ => none
    else none


/-! the registry (`Impl/SimdRegistry.lean`: C function name -> model at the type of its table slot) is what
the dispatcher theorem speaks about; its entries are executed here too, so that the binding of names to
models is tied to the code, not only the models themselves -/

def isaOfKernelName (kn : String) : String :=
  if kn.startsWith "scalar_" then "scalar" else if kn.startsWith "carquet_sse_" then "sse"
  else if kn.startsWith "carquet_avx2_" then "avx2" else if kn.startsWith "carquet_avx512_" then "avx512" else "unknown"

open Impl.Dispatch in
/-- the registry entry a variant of a table slot stands for: by kernel id for `dm` (what the dispatcher
model selects under the line's capability mask), by (slot, instruction set) otherwise -/
def registryEntry (l : Line) (slot : Option Nat) (v : String) : Option KernelModel :=
  match slot with
  | none => none
  | some s =>
    match Gen.Dispatch.slots[s]? with
    | none => none
    | some sn =>
      if v == "dm" then
        match l.inNat "cap" with
        | some cap =>
          (select cap s).bind fun k => (Gen.Dispatch.kernels[k]?).bind fun kn =>
            registry.find? fun m => m.name == kn && m.slot.name == sn
        | none => none
      else registry.find? fun m => m.slot.name == sn && isaOfKernelName m.name == v

open Impl.Dispatch in
/-- run a registry entry on the inputs of a line -/
def evalEntry (m : KernelModel) (c : Case) : Res :=
  let ob {w : Nat} (o : Option (List (BitVec w))) : Res := match o with | some v => .bytes (bytesOf v) | none => .int (-1)
  match m with
  | ⟨.prefixSumI32, _, run⟩ => .bytes (bytesOf (run (BitVec.ofInt 32 c.s1, valsOf 32 c.a)))
  | ⟨.prefixSumI64, _, run⟩ => .bytes (bytesOf (run (BitVec.ofInt 64 c.s1, valsOf 64 c.a)))
  | ⟨.gatherI32, _, run⟩ => ob (run (valsOf 32 c.a, valsOf 32 c.b))
  | ⟨.gatherFloat, _, run⟩ => ob (run (valsOf 32 c.a, valsOf 32 c.b))
  | ⟨.gatherI64, _, run⟩ => ob (run (valsOf 64 c.a, valsOf 32 c.b))
  | ⟨.gatherDouble, _, run⟩ => ob (run (valsOf 64 c.a, valsOf 32 c.b))
  | ⟨.bssEncFloat, _, run⟩ => .bytes (run (valsOf 32 c.a))
  | ⟨.bssDecFloat, _, run⟩ => ob (run (c.n, c.a))
  | ⟨.bssEncDouble, _, run⟩ => .bytes (run (valsOf 64 c.a))
  | ⟨.bssDecDouble, _, run⟩ => ob (run (c.n, c.a))
  | ⟨.unpackBools, _, run⟩ => (match run (c.a, c.n) with | some v => .bytes v | none => .int (-1))
  | ⟨.packBools, _, run⟩ => .bytes (run c.a)
  | ⟨.findRunLength, _, run⟩ => .int (run (valsOf 32 c.a))
  | ⟨.crc32c, _, run⟩ => .int (run (BitVec.ofInt 32 c.s1, c.a)).toNat
  | ⟨.matchCopy, _, run⟩ => .bytes (run (c.a, c.n))
  | ⟨.matchLength, _, run⟩ => .int (run (c.a, c.s1.toNat))
  | ⟨.countNonNulls, _, run⟩ => .int (run (valsOf 16 c.a, BitVec.ofInt 16 c.s1))
  | ⟨.buildNullBitmap, _, run⟩ => .bytes (run (valsOf 16 c.a, BitVec.ofInt 16 c.s1))
  | ⟨.fillDefLevels, _, run⟩ => .bytes (bytesOf (run (List.replicate c.n 0#16, BitVec.ofInt 16 c.s1)))

def slotOf (name : String) : Option Nat :=
  let n := match name with
    | "bss_encode_float" => "byte_split_encode_float" | "bss_decode_float" => "byte_split_decode_float"
    | "bss_encode_double" => "byte_split_encode_double" | "bss_decode_double" => "byte_split_decode_double"
    | other => other
  Gen.Dispatch.slots.idxOf? n

def handleKernel (l : Line) (name : String) : Verdict :=
  match l.inNat "n", l.inInt "s1", l.inHex "a", l.outStr "vs" with
  | some n, some s1, some a, some vs =>
    let c : Case := { n := n, s1 := s1, a := a, b := (l.inHex "b").getD [], junk := (l.inNat "junk").getD 0,
                      dom := (l.inNat "dom").getD 1 == 1 }
    match evalKernel name c with
    | none => .bad s!"unknown kernel {name}"
    | some ev =>
      let variants := vs.splitOn ","
      let slot := slotOf name
      let results := variants.map fun v => (v, variantRes l v)
      if results.any (fun r => r.2.isNone) then .bad "result fields" else
      let prop := if c.dom then results.map fun (v, r) => (s!"{name}.{v}=spec", ev.spec.isSome && r == ev.spec) else []
      let model := results.filterMap fun (v, r) =>
        match ev.impl (isaOf l slot v) with
        | some m => some (s!"{name}.{v}=impl", r == some m)
        | none => none
      -- the registry entry behind the variant (table slots only; `dispatch` = host table, not resolved here)
      -- (evaluated on the `dm` lines and on the lines with an aligned source: the same function as `impl` above,
      --  the point is the binding name -> model, which a fraction of the lines exercises amply)
      let regLine := (l.inNat "cap").isSome || (l.inNat "sa").getD 0 == 0
      let viaRegistry := results.filterMap fun (v, r) =>
        if v == "dispatch" || !regLine then none else
        match slot with
        | none => none
        | some _ =>
          match registryEntry l slot v with
          | some m => some (s!"{name}.{v}=registry[{m.name}]", r == some (evalEntry m c))
          | none =>
            -- avx2 double byte-stream split exists but is not in the table: no entry expected
            if (name == "bss_encode_double" || name == "bss_decode_double") && v == "avx2" then none
            else some (s!"{name}.{v}=registry[missing]", false)
      verdict (model ++ viaRegistry) prop
  | _, _, _, _ => .bad "simd kernel args"

def handleDispatch (l : Line) : Verdict :=
  match l.outNat "hook" with
  | some 1 =>
    match l.outNat "cpu", l.outStr "slots" with
    | some cpu, some slots =>
      let names := slots.splitOn ","
      let nslots := Gen.Dispatch.slots.length
      let model := (List.range nslots).map fun s =>
        (s!"slot{s}", (Impl.Dispatch.selectedRank cpu s).map rankName == names[s]?)
      let prop := (List.range nslots).map fun s => (s!"dispatch_sound.slot{s}", Impl.Dispatch.sound cpu s)
      verdict (("slot_count", names.length == nslots) :: model) prop
    | _, _ => .bad "simd_dispatch fields"
  | _ => .diverge "capability hook (fixes/HOOK-detect-cpu-cap.patch) is not applied to this tree"

/-- count_non_nulls at counts where a narrow accumulator would wrap; the input is given by a pattern
(harness/ops_simd.c, step 2b) -/
def handleCountBig (l : Line) : Verdict :=
  match l.inNat "n", l.inNat "pat", l.outNat "scalar", l.outNat "sse", l.outNat "dispatch" with
  | some n, some pat, some sc, some se, some di =>
    let want := if pat == 0 then n else if pat == 1 then n - (n + 7) / 8 else (n + 4) / 8
    verdict [] [("scalar_counts_non_nulls", sc == want), ("sse_eq_scalar", se == want), ("dispatch_eq_scalar", di == want)]
  | _, _, _, _, _ => .bad "simd_count_big args"


/-! gathers on indices with the top bit set (harness/ops_simd.c, step 2e) -/

def gwK : Int := 16

/-- the windows of the mapping the harness fills -/
def gwIn (o : Int) : Bool :=
  (0 ≤ o && o < gwK) || (2 ^ 31 - gwK ≤ o && o < 2 ^ 31 + gwK) || (2 ^ 32 - gwK ≤ o && o < 2 ^ 32) ||
  (-(2 ^ 31) ≤ o && o < -(2 ^ 31) + gwK) || (-gwK ≤ o && o < 0)

/-- `gw_mix`: the value stored at signed element offset `o` -/
def gwMix (es : Nat) (o : Int) : Nat :=
  let x := BitVec.ofInt 64 o * 0x9E3779B97F4A7C15#64 + 0x0123456789ABCDEF#64
  if es == 4 then (x >>> 16).toNat % 2 ^ 32 else x.toNat

def gwMem (w es : Nat) : Impl.Simd.DictMem (BitVec w) :=
  fun o => if gwIn o then some (BitVec.ofNat w (gwMix es o)) else none

open Impl.Simd in
def gwModel (w es : Nat) (isa : String) (idx : List (BitVec 32)) : Option (Option (List (BitVec w))) :=
  let mem := gwMem w es
  match isa, es with
  | "scalar", _ => some (scalarGather mem idx)
  | "sse", 4 => some (sseGather32 mem idx)
  | "sse", _ => some (sseGather64 mem idx)
  | "avx2", 4 => some (avx2Gather32 mem idx)
  | "avx2", _ => some (avx2Gather64 mem idx)
  | "avx512", 4 => some (avx512Gather32 mem idx)
  | "avx512", _ => some (avx512Gather64 mem idx)
  | _, _ => none

def handleGatherWide (l : Line) : Verdict :=
  match l.inStr "name", l.inNat "es", l.inNat "dom", l.inNat "cpu", l.inHex "idx" with
  | some name, some es, some dom, some cpu, some idxb =>
    let idx := valsOf 32 idxb
    let slot := Gen.Dispatch.slots.idxOf? name
    let variants := ["scalar", "sse", "avx2", "avx512", "dispatch"]
    let isaOfV (v : String) : String :=
      if v == "dispatch" then
        match slot with
        | some s => (match Impl.Dispatch.selectedRank cpu s with | some r => rankName r | none => "unknown")
        | none => "unknown"
      else v
    let got := variants.map fun v => (v, l.outHex ("r_" ++ v))
    if got.any (fun g => g.2.isNone) then .bad "simd_gather_wide result fields" else
    let model := got.filterMap fun (v, r) =>
      if es == 4 then
        (gwModel 32 4 (isaOfV v) idx).map fun m => (s!"{name}.{v}=impl", m.map bytesOf == r)
      else
        (gwModel 64 8 (isaOfV v) idx).map fun m => (s!"{name}.{v}=impl", m.map bytesOf == r)
    -- the scalar definition: dict[idx[i]] with the zero-extended index
    let want : List UInt8 :=
      if es == 4 then bytesOf (idx.map fun i => BitVec.ofNat 32 (gwMix 4 (Int.ofNat i.toNat)))
      else bytesOf (idx.map fun i => BitVec.ofNat 64 (gwMix 8 (Int.ofNat i.toNat)))
    let prop := if dom == 1 then got.map fun (v, r) => (s!"{name}.{v}=spec", r == some want) else []
    verdict (("all_variants_modelled", model.length == variants.length) :: model) prop
  | _, _, _, _, _ => .bad "simd_gather_wide args"

def natList (s : String) : List Nat := (s.splitOn ",").filterMap (·.toNat?)

/-- what the run covered per kernel and block width; every count has to be positive -/
def handleCoverage (l : Line) : Verdict :=
  match l.inStr "name", l.inStr "widths", l.outStr "full", l.outStr "tail", l.outStr "multi", l.outNat "maxn", l.outNat "mis" with
  | some name, some ws, some f, some t, some m, some maxn, some mis =>
    let w := natList ws
    let chk (tag : String) (xs : List Nat) := (s!"{name}.{tag}", xs.length == w.length && xs.all (· > 0))
    let mc := match l.outStr "mc" with
      | some s => [(s!"{name}.offset_classes", (natList s).length == 6 && (natList s).all (· > 0))]
      | none => []
    verdict ([chk "count=k*W" (natList f), chk "count=k*W+r" (natList t), chk "count>=2W" (natList m),
              (s!"{name}.beyond_widest_block", maxn > 2 * w.foldl max 0), (s!"{name}.misalignments", mis ≥ 7)] ++ mc) []
  | _, _, _, _, _, _, _ => .bad "simd_coverage args"

def handle (l : Line) : Option Verdict :=
  if l.op == "simd_dispatch" then some (handleDispatch l)
  else if l.op == "simd_count_big" then some (handleCountBig l)
  else if l.op == "simd_mem_big" then some (verdict [] [])     -- big memcpy / memset: judged by the C-side predicates
  else if l.op == "simd_gather_wide" then some (handleGatherWide l)
  else if l.op == "simd_coverage" then some (handleCoverage l)
  else if l.op.startsWith "simd_" then some (handleKernel l (l.op.drop 5).toString)
  else none

end Driver.Ops.Simd
