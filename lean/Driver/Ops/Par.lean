import Carquet.Util
import Carquet.Impl.Par
/-
Driver ops for C07 (parallel reading).  The harness reads files with the real batch reader under
forced schedules and records, through the CARQUET_VERIF hook, every fseek/fread of the page-load
path and every lazy-initialisation site as (thread, site, object, a, b).

  par_read  .. mode nt .. | st nb rows dg ref_st ref_nb ref_dg c_ok flen nthr tr p_same_as_single
  par_indep .. mode n nt .. | sts dgs ref_st ref_dg flen tr p_same_as_alone
  par_cold  .. mode n nt kind .. | rc sts dgs ref_st ref_dg inits flen tr p_same_as_alone

model checks (tie of `Impl.Par` to the code, on the recorded trace):
  * pos_model        : replaying the recorded seeks/reads of a stream through the model's `stepPos`
                       predicts the stream position the C library reported before every call;
  * sections_atomic  : on every stream the events are [seek by t; read by t] pairs — every shared
                       access is inside an atomic section, never two threads inside one at once
                       (the hypothesis `atomicIO` of C07_fread_atomic_sections);
  * page_shape       : each thread's events on a stream are groups seek o; read 256; seek o';
                       read c with o < o' ≤ o+256 (`pageLoadFread`);
  * no_stream_io     : mmap/buffer modes touch no stream at all (`pageLoadMmap`: loads only);
  * one_stream / streams_private : one shared FILE* per reader; with one thread per reader every
                       stream is used by one thread only (hypothesis of C07_independent_readers);
  * init_bracketed   : per thread and table, initialiser begin/publish alternate and a thread
                       initialises a table at most once (after its own flag store it sees the flag).
property checks:
  * same_as_single / same_as_alone : statuses, batch counts and digests equal the single-threaded
                       unperturbed ones;
  * reads_own_offset : every fread happened at the offset of the reading thread's own last fseek.
-/
namespace Driver.Ops.Par
open Carquet Carquet.Util Carquet.Impl.Par

/-- checks on the stream events of a reader trace: (model checks, property checks) -/
def ioChecks (fread : Bool) (flen : Nat) (onePerThread : Bool) (es : List Ev) :
    List (String × Bool) × List (String × Bool) :=
  if fread then
    ([ ("pos_model", (objsOf es).all (fun o => posTie flen o (onObj o es))),
       ("sections_atomic", (objsOf es).all (fun o => sectionsAtomic (onObj o es))),
       ("page_shape", (objsOf es).all (fun o =>
          (threadsOf (onObj o es)).all (fun t => pageShape (byThread t (onObj o es))))),
       ("streams_private", !onePerThread || streamsPrivate es),
       ("stream_io_seen", !es.isEmpty) ],
     [ ("reads_own_offset", (objsOf es).all (fun o => readsOwn (onObj o es))) ])
  else
    ([ ("no_stream_io", es.isEmpty) ], [])

def initChecks (es : List Ev) : List (String × Bool) :=
  let ie := es.filter (fun e => e.site == 3 || e.site == 4)
  [ ("init_bracketed", (threadsOf ie).all (fun t => [1, 2, 3].all (fun tbl =>
      let l := (byThread t ie).filter (fun e => e.a == tbl)
      initBracketed l && l.length ≤ 2))) ]

def allEq (xs : List Nat) (v : Nat) : Bool := xs.all (· == v)

def handle (l : Line) : Option Verdict :=
  match l.op with
  | "par_life" => some .ok     -- handles with overlapping lifetimes: judged by the C-side predicate p_same_as_alone
  | "par_nested" => some .ok   -- the library inside the application's own parallel region: judged by the C-side predicate p_same_as_alone
  | "par_bad" => some .ok      -- a damaged column among intact ones: judged by the C-side predicate p_failure_reported_as_single
  | "par_read" => some <|
    if (l.outStr "mk").isSome then .ok else
    match l.inNat "mode", l.outInt "st", l.outNat "nb", l.outNat "dg", l.outInt "ref_st",
          l.outNat "ref_nb", l.outNat "ref_dg", l.outNat "flen", l.outNats "tr" with
    | some mode, some st, some nb, some dg, some rst, some rnb, some rdg, some flen, some tr =>
      let es := ioOnly (evsOf tr)
      let c := ioChecks (mode == 0) flen false es
      verdict (("trace_wellformed", tr.length % 5 == 0) ::
               ("one_stream", (objsOf es).length ≤ 1) :: c.1)
              (("same_as_single", st == rst && nb == rnb && dg == rdg) :: c.2)
    | _, _, _, _, _, _, _, _, _ => .bad "par_read args"
  | "par_indep" => some <|
    if (l.outStr "mk").isSome then .ok else
    match l.inNat "mode", l.inNat "n", l.inNat "nt", l.outInts "sts", l.outNats "dgs", l.outInt "ref_st",
          l.outNat "ref_dg", l.outNat "flen", l.outNats "tr" with
    | some mode, some n, some nt, some sts, some dgs, some rst, some rdg, some flen, some tr =>
      let es := ioOnly (evsOf tr)
      let c := ioChecks (mode == 0) flen (nt == 1) es
      verdict (("trace_wellformed", tr.length % 5 == 0) ::
               ("one_stream_per_reader", mode != 0 || (objsOf es).length == n) :: c.1)
              (("same_as_alone", dgs.length == n && allEq dgs rdg && sts.all (· == rst)) :: c.2)
    | _, _, _, _, _, _, _, _, _ => .bad "par_indep args"
  | "par_cold" => some <|
    if (l.outStr "mk").isSome then .ok else
    match l.inNat "mode", l.inNat "n", l.inNat "nt", l.inNat "kind", l.outNat "rc", l.outInts "sts",
          l.outNats "dgs", l.outInt "ref_st", l.outNat "ref_dg", l.outNat "flen", l.outNats "tr" with
    | some mode, some n, some nt, some kind, some rc, some sts, some dgs, some rst, some rdg, some flen, some tr =>
      let all := evsOf tr
      let es := ioOnly all
      let c := if kind == 2 then ([("no_stream_io", es.isEmpty)], [])
               else ioChecks (mode == 0) flen (kind == 0 && nt == 1) es
      let want := if kind == 1 then 1 else n
      verdict (("trace_wellformed", tr.length % 5 == 0) :: (initChecks all ++ c.1))
              (("child_exit_0", rc == 0) ::
               ("same_as_alone", dgs.length == want && allEq dgs rdg && sts.all (· == rst)) :: c.2)
    | _, _, _, _, _, _, _, _, _, _, _ => .bad "par_cold args"
  | "parnull" => some <|
    -- nullable columns: multi-threaded digest (values, row counts, null bitmaps) must equal the single-threaded one
    match l.outStr "dg", l.outStr "ref", l.outInt "st" with
    | some d, some r, some st => verdict [] [("same_as_single_threaded", d == r && st == 63)]
    | _, _, _ => .bad "parnull args"
  | _ => none

end Driver.Ops.Par
