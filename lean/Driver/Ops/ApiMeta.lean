import Carquet.Util
import Carquet.Impl.ReaderApi
import Carquet.Spec.SchemaAnnot
import Carquet.Spec.Thrift
/-
Driver op `apimeta` (harness/ops_api.c): carquet_reader_is_mmap / _num_rows / _num_row_groups / _num_columns /
_row_group_metadata / _can_zero_copy called in the three I/O modes on reference-written files, plus two observations of
the zero-copy branches actually taken (the page loader's VIEW flag while a column is read through a column reader; a
batch reader handing out column data that lies inside the mapped file / the caller's buffer).

Model checks: `Impl.ReaderApi` on `Impl.Reader.openFile mode file` renders what the harness printed; the predicate may be
the pinned or the repaired one (F90) — which of the two the tree has is decided by the property check, not the tie.
Property checks (C03): the metadata part is identical in all modes that opened and is what the footer STATES (decoded with
the generic Spec.Thrift decoder: FileMetaData.num_rows, RowGroup.num_rows / total_byte_size / total_compressed_size);
`can_zero_copy` is false in fread mode and for every out-of-range index; wherever a zero-copy branch was taken,
`can_zero_copy` was true (soundness of the predicate).
-/
namespace Driver.Ops.ApiMeta
open Carquet Carquet.Util Carquet.Impl Carquet.Impl.Reader Carquet.Impl.ReaderApi
open Carquet.Spec.Thrift
open Carquet.Spec.SchemaAnnot (field fieldsOf intOf)

def noLib : CodecWrappers.Lib := ⟨fun _ _ _ => none, fun _ _ => none, fun n => n⟩
def noLibs : Reader.Libs := ⟨noLib, noLib⟩

def modeOf : Nat → Mode
  | 0 => .fread | 1 => .mmap | _ => .buffer

def bit (b : Bool) : String := if b then "1" else "0"

def intRange (lo : Int) (n : Nat) : List Int := (List.range n).map (fun i => lo + (i : Nat))

def showRgm (r : Except Err RowGroupMeta) : String :=
  match r with
  | .ok m => s!"0:{m.numRows}:{m.totalByteSize}:{m.totalCompressedSize}:0"
  | .error e => s!"{e.code}:0:0:0:1"

/-- the pages of a chunk the loader takes as views, in order (same iteration as `Impl.Reader.chunkPages`) -/
def chunkViews (mode : Mode) (b : List UInt8) (c : Col) : Nat → PState → List Bool
  | 0, _ => []
  | fuel + 1, st =>
    if st.valuesRemaining ≤ 0 then []
    else
      match (loadPage Fixes.all noLibs true mode b c st).result with
      | .error _ => []
      | .ok p => p.view :: chunkViews mode b c fuel (stepOver (stateAfterLoad Fixes.all noLibs true mode b c st) p)

def viewOf (mode : Mode) (b : List UInt8) (o : Opened) (g c : Nat) : Bool :=
  match getColumn o g c with
  | .ok col => (chunkViews mode b col (b.length + 1) (PState.init col)).any id
  | .error _ => false

structure Shown where
  head : String      -- mm.nrows.nrg.ncols
  rgm : String
  czc : String
  view : String
  bview : String
  ext : String

def parseShown (s : String) : Option Shown :=
  match s.splitOn ";" with
  | [a, b, c, d, e, f] => some ⟨a, b, c, d, e, f⟩
  | _ => none

def czcRows (fix90 : Bool) (mode : Mode) (o : Opened) : String :=
  "_".intercalate ((intRange (-1) (numRowGroups o + 2)).map (fun g =>
    String.join ((intRange (-1) (numColumns o + 2)).map (fun c => bit (canZeroCopy fix90 mode o g c)))))

def viewRows (mode : Mode) (b : List UInt8) (o : Opened) : String :=
  if numRowGroups o == 0 || numColumns o == 0 then
    (if numRowGroups o == 0 then "" else "_".intercalate ((List.range (numRowGroups o)).map (fun _ => ""))) ++ "-"
  else "_".intercalate ((List.range (numRowGroups o)).map (fun g =>
    String.join ((List.range (numColumns o)).map (fun c => bit (viewOf mode b o g c)))))

/-- bits of the rows/columns of a `czc` string: (rg, col) → bit, rg and col counted from −1 -/
def czcAt (czc : String) (g c : Int) : Bool :=
  match (czc.splitOn "_")[(g + 1).toNat]? with
  | some row => row.toList[(c + 1).toNat]? == some '1'
  | none => false

/-! ### what the footer states -/

def footerFields (file : List UInt8) : Option (List (Int × TVal)) :=
  if file.length < 12 then none
  else
    let flen := leNat ((file.drop (file.length - 8)).take 4)
    if flen + 8 > file.length then none
    else match decodeStruct ((file.drop (file.length - 8 - flen)).take flen) with
      | some (.struct fs) => some fs
      | _ => none

def statedRgm (fs : List (Int × TVal)) : Option (Int × List String) :=
  match field fs 4 with
  | some (.list _ rgs) =>
    some (intOf (field fs 3), rgs.map (fun g =>
      let gf := fieldsOf g
      let bytes := intOf (field gf 2)
      s!"0:{intOf (field gf 3)}:{bytes}:{match field gf 6 with | some v => intOf (some v) | none => bytes}:0"))
  | _ => none

/-- (codec, physical type) the footer states for column chunk `c` of row group `g` -/
def statedChunk (fs : List (Int × TVal)) (g c : Nat) : Option (Int × Int) :=
  match field fs 4 with
  | some (.list _ rgs) =>
    match (rgs[g]?).map (fun rg => field (fieldsOf rg) 1) with
    | some (some (.list _ chunks)) =>
      (chunks[c]?).map (fun ch =>
        let m := fieldsOf ((field (fieldsOf ch) 3).getD (.struct []))
        (intOf (field m 4), intOf (field m 1)))
    | _ => none
  | _ => none

def fixedType (t : Int) : Bool := t == 1 || t == 2 || t == 3 || t == 4 || t == 5 || t == 7

def handle (l : Line) : Option Verdict :=
  match l.op with
  | "apimeta" => some <|
    match l.inHex "file" with
    | none => .bad "file"
    | some file =>
      let per := (List.range 3).map (fun m =>
        let mode := modeOf m
        match l.outStr s!"a{m}" with
        | none => ([(s!"a{m}_present", false)], [], none)
        | some got =>
          match openFile mode file with
          | .error e => ([(s!"impl_model_open_error_a{m}", got == s!"!E{e.code}")], [], none)
          | .ok o =>
            match parseShown got with
            | none => ([(s!"impl_model_opens_a{m}", false)], [], none)
            | some sh =>
              let nrg := numRowGroups o
              let nc := numColumns o
              let mc : List (String × Bool) :=
                [(s!"impl_model_counts_a{m}", sh.head == s!"{bit (isMmap mode)}.{numRows o}.{nrg}.{nc}"),
                 (s!"impl_model_row_group_metadata_a{m}",
                    sh.rgm == "_".intercalate ((intRange (-1) (nrg + 2)).map (fun g => showRgm (rowGroupMetadata o g)))),
                 (s!"impl_model_can_zero_copy_a{m}", sh.czc == czcRows true mode o || sh.czc == czcRows false mode o),
                 (s!"impl_model_view_branch_a{m}", sh.view == viewRows mode file o)]
              let viewsSound := (List.range nrg).all (fun g => (List.range nc).all (fun c =>
                let row := (sh.view.splitOn "_")[g]?.getD ""
                !(row.toList[c]? == some '1') || czcAt sh.czc g c))
              let batchSound := (List.range nc).all (fun c =>
                !(sh.bview.toList[c]? == some '1') || (List.range nrg).any (fun g => czcAt sh.czc g c))
              let outOfRange := (intRange (-1) (nrg + 2)).all (fun g => (intRange (-1) (nc + 2)).all (fun c =>
                (0 ≤ g && g < nrg && 0 ≤ c && c < nc) || !czcAt sh.czc g c))
              -- what the header documents of the predicate, against what the footer states of the chunk
              let onlyEligible := match footerFields file with
                | some fs => (List.range nrg).all (fun g => (List.range nc).all (fun c =>
                    !czcAt sh.czc g c || (match statedChunk fs g c with
                                          | some (codec, ty) => codec == 0 && fixedType ty
                                          | none => false)))
                | none => false
              let pc : List (String × Bool) :=
                [(s!"zero_copy_view_implies_can_zero_copy_a{m}", viewsSound),
                 (s!"can_zero_copy_only_for_uncompressed_fixed_width_chunks_a{m}", onlyEligible),
                 (s!"zero_copy_batch_column_implies_can_zero_copy_a{m}", batchSound),
                 (s!"can_zero_copy_false_out_of_range_a{m}", outOfRange && sh.ext == "1"),
                 (s!"is_mmap_names_the_mode_a{m}", sh.head.startsWith (if m == 1 then "1." else "0."))] ++
                (if m == 0 then [("can_zero_copy_false_without_mapping", !sh.czc.contains '1' && !sh.view.contains '1' && !sh.bview.contains '1')] else []) ++
                (match (footerFields file).bind statedRgm with
                 | some (rows, rgs) =>
                   [(s!"metadata_is_what_the_file_states_a{m}",
                      sh.head == s!"{bit (m == 1)}.{rows}.{rgs.length}.{nc}" &&
                      sh.rgm == "_".intercalate (["62:0:0:0:1"] ++ rgs ++ ["62:0:0:0:1"]))]
                 | none => [(s!"spec_decodes_footer_a{m}", false)])
              (mc, pc, some ((sh.head.drop 2).toString ++ ";" ++ sh.rgm)))
      let metas := per.filterMap (·.2.2)
      let agree := match metas with
        | [] => true
        | x :: xs => xs.all (· == x)
      verdict (per.flatMap (·.1)) (per.flatMap (·.2.1) ++ [("metadata_modes_agree", agree)])
  | _ => none

end Driver.Ops.ApiMeta
