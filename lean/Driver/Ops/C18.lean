import Carquet.Util
/-
Driver ops of harness/ops_c18.c.
`trunc`: every proper prefix of a carquet-written file offered to the three open paths; `acc`
lists the accepted ones.  The property allows one exception (the prefix is itself a complete
Parquet file); the harness never plants a complete file inside user data (its planted tails
lack required metadata fields), so for its inputs no proper prefix may open at all.
`sink`, `abort`: judged by the C-side predicates carried on the line (p_fail_surfaces,
p_ok_implies_bytes, p_close_ok_implies_bytes, p_no_file).
-/
namespace Driver.Ops.C18
open Carquet.Util

def handle (l : Line) : Option Verdict :=
  match l.op with
  | "trunc" => some <|
    if (l.outStr "err").isSome then .ok
    else match l.outStr "acc" with
      | some a => verdict [] [("no_proper_prefix_opens", a == "-")]
      | none => .bad "trunc outs"
  | "c04" => some .ok      -- harness/ops_c04.c: judged by the C-side predicate p_safe (child exit status)
  | "sink" => some .ok
  | "sinkok" => some .ok    -- C05 under a faulty sink: p_close_ok_implies_file
  | "abort" => some .ok
  | _ => none

end Driver.Ops.C18
