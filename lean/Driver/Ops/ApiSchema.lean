import Carquet.Util
import Carquet.Impl.Reader
import Carquet.Impl.SchemaApi
import Carquet.Spec.SchemaAnnot
import Carquet.Spec.Thrift
/-
Driver ops of the component `apischema` (harness/ops_api.c): what the public schema-node accessors return
(a) on reference files whose footer was built from parquet.thrift's field numbers (Driver/Gen/ApiSchema) and
(b) on builder schemas made with carquet_schema_add_column WITH logical types, and on the file the real writer
makes from them.

Model checks: `Impl.Reader.openFile` + `Impl.SchemaApi` accessors (resp. `Impl.SchemaApi.Builder`) render exactly
what the harness printed.  Property checks (the Spec side, nothing of carquet's parser involved): the footer is
decoded with the generic `Spec.Thrift.decode`; per element the accessor's logical type must be the one the element
STATES (`Spec.SchemaAnnot.statedLogical`: parquet.thrift union field number → annotation → public enum id), the
converted type the stated field 6, the per-node level accessors the contribution of the stated repetition, and the
leaf levels the reader computed must be the sums of the per-node accessor values along the Spec's paths.
-/
namespace Driver.Ops.ApiSchema
open Carquet Carquet.Util Carquet.Spec.Schema Carquet.Spec.SchemaAnnot Carquet.Spec.Thrift
open Carquet.Impl.ThriftParquet Carquet.Impl.SchemaApi

/-- one element as the harness prints it -/
structure Shown where
  name : String
  isLeaf : Nat
  ptype : Int
  rep : Int
  tlen : Int
  ndef : Nat
  nrep : Nat
  lt : String
  ct : String
  deriving BEq, Repr

def parseShown (s : String) : Option Shown :=
  match s.splitOn "." with
  | [nm, lf, pt, rp, tl, d, r, lt, ct] => do
    some ⟨nm, ← lf.toNat?, ← pt.toInt?, ← rp.toInt?, ← tl.toInt?, ← d.toNat?, ← r.toNat?, lt, ct⟩
  | _ => none

def showLogical : Option LogicalType → String
  | none => "N"
  | some l => s!"{logicalId l}:{(logicalParams l).1}:{(logicalParams l).2}"

def showConverted : Option Int → String
  | none => "-"
  | some c => toString c

def nameStr (n : Option (List UInt8)) : String := Impl.Reader.nameOf n

/-- the model's rendering of one element through the accessor models -/
def shownOf (e : SchemaElement) : Shown :=
  ⟨nameStr (nodeName e), if nodeIsLeaf e then 1 else 0, nodePhysicalType e,
   if e.repetition.isSome then nodeRepetition e else -1, nodeTypeLength e, nodeMaxDefLevel e, nodeMaxRepLevel e,
   showLogical (nodeLogicalType e), showConverted e.convertedType⟩

/-- elements by `carquet_schema_get_element(s, 0 .. n-1)` -/
def modelElements (sch : List SchemaElement) : List Shown :=
  (List.range sch.length).filterMap (fun i => (getElement sch (i : Nat)).map shownOf)

def parseEls (s : String) : Option (List Shown) := parseList parseShown s

/-! ### the Spec side -/

/-- the SchemaElement values of a file, decoded generically from its footer -/
def specElements (file : List UInt8) : Option (List TVal) :=
  if file.length < 12 then none
  else
    let flen := leNat ((file.drop (file.length - 8)).take 4)
    if flen + 8 > file.length then none
    else
      match decodeStruct ((file.drop (file.length - 8 - flen)).take flen) with
      | some (.struct fs) =>
        match field fs 2 with
        | some (.list _ els) => some els
        | _ => none
      | _ => none

def specRep (el : TVal) : Option Rep :=
  match field (fieldsOf el) 3 with
  | some (.i32 0) => some .required
  | some (.i32 1) => some .optional
  | some (.i32 2) => some .repeated
  | _ => none

def specChildren (el : TVal) : Int := intOf (field (fieldsOf el) 5)

/-- the tree shape the file states (names and annotations do not matter for paths) -/
def specTreeElements (els : List TVal) : List Element :=
  els.map (fun el => ⟨⟨"", specRep el, (field (fieldsOf el) 1).map (fun _ => 0), 0, none, none⟩, specChildren el⟩)

def parseLeaf (s : String) : Option Leaf :=
  match s.splitOn "." with
  | [a, b, c] => do some ⟨← a.toNat?, ← b.toNat?, ← c.toNat?⟩
  | _ => none

/-- property checks on the elements one mode printed, against what the file states -/
def specChecks (tag : String) (file : List UInt8) (shown : List Shown) (leaves : Option (List Leaf)) : List (String × Bool) :=
  match specElements file with
  | none => [(tag ++ "spec_decodes_footer", false)]
  | some els =>
    let stated := els.map (fun el => (showLogical (statedLogical el), showConverted (statedConverted el),
                                       defInc (specRep el), repInc (specRep el)))
    [(tag ++ "element_count_is_what_the_file_states", shown.length == els.length),
     (tag ++ "logical_type_is_what_the_file_states", shown.map (·.lt) == stated.map (·.1)),
     (tag ++ "converted_type_is_what_the_file_states", shown.map (·.ct) == stated.map (·.2.1)),
     (tag ++ "node_level_accessors_are_the_nodes_contribution",
        shown.map (fun s => (s.ndef, s.nrep)) == stated.map (fun s => (s.2.2.1, s.2.2.2)))] ++
    (match leaves, parseTree (specTreeElements els) with
     | some lv, some root =>
       let ndef (i : Nat) : Nat := ((shown[i]?).map (·.ndef)).getD 0
       let nrep (i : Nat) : Nat := ((shown[i]?).map (·.nrep)).getD 0
       [(tag ++ "leaf_levels_are_path_sums_of_node_accessors",
          lv == (paths root).map (fun p => ⟨p.getLastD 0, (p.map ndef).sum, (p.map nrep).sum⟩))]
     | _, _ => [])

def modeOf : Nat → Impl.Reader.Mode
  | 0 => .fread | 1 => .mmap | _ => .buffer

/-- the three readings `<key>0 <key>1 <key>2` of a file against the reader model and the Spec -/
def readChecks (l : Line) (key : String) (file : List UInt8) : List (String × Bool) × List (String × Bool) :=
  let leaves := (l.outStr s!"{key}lv").bind (parseList parseLeaf)
  (List.range 3).foldl (fun (acc : List (String × Bool) × List (String × Bool)) m =>
    match l.outStr s!"{key}{m}" with
    | none => (acc.1 ++ [(s!"{key}{m}_present", false)], acc.2)
    | some got =>
      match Impl.Reader.openFile (modeOf m) file with
      | .error e => (acc.1 ++ [(s!"impl_model_open_error_{key}{m}", got == s!"!E{e.code}")], acc.2)
      | .ok o =>
        match parseEls got with
        | none => (acc.1 ++ [(s!"impl_model_opens_{key}{m}", false)], acc.2)
        | some shown =>
          (acc.1 ++ [(s!"impl_model_elements_{key}{m}", modelElements o.md.schema == shown)] ++
             (if m == 0 then [("impl_model_leaf_levels", leaves == some o.leaves)] else []),
           acc.2 ++ specChecks s!"{key}{m}_" file shown (if m == 0 then leaves else none)))
    ([], [])

/-! ### generator intent and builder calls -/

/-- `N|-` / `member:a:b|ct` of the generator: the annotation it meant, rendered as the accessor would show it -/
def wantLogical (s : String) : Option String :=
  if s == "N" then some "N" else
  match s.splitOn ":" with
  | [m, a, b] => do
    let m ← m.toNat?; let a ← a.toInt?; let b ← b.toInt?
    let unit : TimeUnit := if a == 0 then .millis else if a == 1 then .micros else .nanos
    let lt : LogicalType :=
      if m == 1 then .string else if m == 2 then .map else if m == 3 then .list else if m == 4 then .enum
      else if m == 5 then .decimal a b else if m == 6 then .date else if m == 7 then .time (b != 0) unit
      else if m == 8 then .timestamp (b != 0) unit else if m == 10 then .integer a (b != 0) else if m == 11 then .null
      else if m == 12 then .json else if m == 13 then .bson else if m == 14 then .uuid else if m == 15 then .float16
      else .unknown
    some (showLogical (some lt))
  | _ => none

def parseWant (s : String) : Option (List (String × String)) :=
  parseList (fun w => match w.splitOn "|" with
    | [a, b] => (wantLogical a).map (fun x => (x, b))
    | _ => none) s

def ltOfShown (s : String) : Option (Option LogicalType) :=
  if s == "N" then some none else
  match s.splitOn ":" with
  | [i, a, b] => do
    let i ← i.toNat?; let a ← a.toInt?; let b ← b.toInt?
    let unit : TimeUnit := if a == 0 then .millis else if a == 1 then .micros else .nanos
    some (some (match i with
      | 0 => .unknown | 1 => .string | 2 => .map | 3 => .list | 4 => .enum | 5 => .decimal b a | 6 => .date
      | 7 => .time (b != 0) unit | 8 => .timestamp (b != 0) unit | 9 => .integer a (b != 0) | 10 => .null
      | 11 => .json | 12 => .bson | 13 => .uuid | _ => .float16))
  | _ => none

def parseCall (s : String) : Option Call :=
  match s.splitOn "." with
  | ["g", nm, rep] => do some (.group nm.toUTF8.toList (← rep.toInt?))
  | ["c", nm, pt, rep, tl, lt] => do
    some (.column nm.toUTF8.toList (← pt.toInt?) (← ltOfShown lt) (← rep.toInt?) (← tl.toInt?))
  | _ => none

def handle (l : Line) : Option Verdict :=
  match l.op with
  | "apischema" => some <|
    match l.inHex "file", (l.inStr "want").bind parseWant with
    | some file, some want =>
      let (mc, pc) := readChecks l "m" file
      let coherent := match specElements file with
        | some els => els.map (fun el => (showLogical (statedLogical el), showConverted (statedConverted el))) == want
        | none => false
      verdict (mc ++ [("generator_intent_is_what_the_spec_reads", coherent)])
              (pc ++ [("get_element_out_of_range_is_null", l.outNat "moob" == some 1),
                      ("modes_agree", l.outStr "m0" == l.outStr "m1" && l.outStr "m1" == l.outStr "m2")])
    | _, _ => .bad "apischema"
  | "apibuild" => some <|
    match (l.inStr "calls").bind (parseList parseCall) with
    | none => .bad "calls"
    | some calls =>
      if l.outStr "err" == some "1" then .diverge "builder-refused"
      else
        match (l.outStr "els").bind parseEls, (l.outStr "lv").bind (parseList parseLeaf) with
        | some els, some _ =>
          let b := Builder.run calls
          let builderModel := [("impl_model_builder_elements", modelElements b.elements == els)]
          let builderProp := [("builder_reports_the_logical_types_passed",
                                (els.drop 1).map (·.lt) == calls.map (fun c => showLogical c.logical)),
                              ("builder_get_element_out_of_range_is_null", l.outNat "boob" == some 1)]
          match l.outStr "wst", l.outHex "file" with
          | some "0.0", some file =>
            let (mc, pc) := readChecks l "r" file
            let cols := calls.filter Call.isColumn
            let expect := "N" :: cols.map (fun c => showLogical (normLogical c.logical))
            let back (m : Nat) : Bool :=
              match (l.outStr s!"r{m}").bind parseEls with
              | some sh => sh.map (·.lt) == expect
              | none => cols.isEmpty     -- a schema without a column cannot be opened
            verdict (builderModel ++ mc ++
                     [("impl_model_writer_schema", match Impl.Reader.openFile .fread file with
                        | .ok o => o.md.schema.map (·.logicalType) == (writerSchema b).map (fun e => normLogical e.logicalType)
                        | .error _ => cols.isEmpty)])
                    (builderProp ++ pc ++ [("written_file_reads_back_the_logical_types", back 0 && back 1 && back 2),
                                    ("get_element_out_of_range_is_null", l.outNat "roob" == some 1)])
          | some w, _ => verdict (builderModel ++ [("writer_accepts_the_schema", w == "0.0")]) builderProp
          | _, _ => .bad "wst"
        | _, _ => .bad "els"
  | _ => none

end Driver.Ops.ApiSchema
