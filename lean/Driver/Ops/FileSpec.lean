import Carquet.Util
import Carquet.Spec.File
import Driver.Ops.FileWrite
import Carquet.Impl.WriterSpecTable
/-
Driver op `wrspec` (harness/ops_filespec.c): a write history executed by the real writer; the
file it produced is handed to the independent reader of the Spec.

Property check (C05, and C16 for the page-header statistics): if every call including close
returned OK, then `Spec.File.read file (strictTiling := true) oracle = ok table`, where `table`
is the table the history intends (rule of harness/ops_file.c `expected_chunk`: row groups are
the maximal runs of batches between `rg` steps; a column's entries are the rows of its batches
in order; OPTIONAL columns carry definition levels 0/1 and the values are dense; a NULL
def_levels pointer means all present; REPEATED columns carry definition levels 0 = empty list /
1 = element and the repetition levels of the history, 0 throughout under a NULL rep_levels pointer).  There is no model check here: this op ties nothing to
an Impl model, it evaluates the property on what the real code produced.

The table compared with is `Impl.Writer.specTableOf cols ops` — the very function of the theorem
`C05_spec_reader_accepts_writer` — so the run-time check and the theorem speak about the same
table; `intendedRowGroups` (the rule above, written independently) is kept as a cross-check.
-/
namespace Driver.Ops.FileSpec
open Carquet Carquet.Util Carquet.Impl.Writer Carquet.Spec Carquet.Spec.File

def ptypeOfImpl : Impl.Writer.PType → Order.PType
  | .boolean => .boolean | .int32 => .int32 | .int64 => .int64 | .int96 => .int96
  | .float => .float | .double => .double | .byteArray => .byteArray | .flba => .flba

def leafOfCol (c : Col) : LeafInfo :=
  ⟨if c.rep = .required then 0 else 1, if c.rep = .repeated then 1 else 0, ptypeOfImpl c.ptype,
   if c.ptype = .flba then c.typeLen else 0, [c.name]⟩

/-- entries one batch contributes to its column -/
def entriesOfBatch (c : Col) (b : Batch) : List Entry :=
  if c.rep = .required then b.vals.map (fun v => ⟨0, 0, some v⟩)
  else
    -- the repetition levels: those handed to write_batch for a REPEATED column (NULL pointer: every
    -- entry starts a row), 0 otherwise
    let rs := if c.rep = .repeated then (match b.reps with | some rs => rs | none => List.replicate b.nrows 0)
              else List.replicate b.nrows 0
    match b.defs with
    | none => assemble 1 rs (List.replicate b.nrows 1) b.vals
    | some ds => assemble 1 rs ds b.vals

/-- split the history at `rg` steps; runs without any batch are no row group -/
def runsOf : List Op → List Batch → List (List Batch)
  | [], cur => if cur.isEmpty then [] else [cur.reverse]
  | .newRowGroup :: r, cur => if cur.isEmpty then runsOf r [] else cur.reverse :: runsOf r []
  | .batch b :: r, cur => runsOf r (b :: cur)

def intendedRowGroups (cols : List Col) (ops : List Op) : List RowGroup :=
  (runsOf ops []).map (fun run =>
    ⟨(List.range cols.length).map (fun ci =>
      match cols[ci]? with
      | none => []
      | some c => (run.filter (fun b => b.col == ci)).flatMap (entriesOfBatch c))⟩)

def parsePair (s : String) : Option (List UInt8 × List UInt8) :=
  match s.splitOn ":" with
  | [a, b] => do let x ← parseHex a; let y ← parseHex b; some (x, y)
  | _ => none

def reasonStr (r : Reason) : String := ((toString (repr r)).replace " " "_").replace "\n" "_"

/-- verdict parts for a file and the table it should contain -/
def judge (cols : List Col) (ops : List Op) (file : List UInt8) (oracle : Oracle) : List (String × Bool) :=
  match Spec.File.read file (strictTiling := true) (oracle := oracle) with
  | .error r => [("spec_reader_accepts:" ++ reasonStr r, false)]
  | .ok t =>
    [("spec_reader_accepts", true),
     ("spec_columns", (match columnsOf t.schema with
                       | .ok ls => ls == cols.map leafOfCol
                       | .error _ => false)),
     -- the table of the theorem `C05_spec_reader_accepts_writer` (Properties/C05/SpecWriter.lean):
     -- schema tree and row groups of `Impl.Writer.specTableOf`
     ("spec_table", Table.beq t (specTableOf cols ops)),
     -- the same row groups by the rule of harness/ops_file.c (independent formulation, cross-check)
     ("spec_table_rule", t.rowGroups == intendedRowGroups cols ops)]

def handle (l : Line) : Option Verdict :=
  match l.op with
  | "wrspec" => some <|
    match Driver.Ops.FileWrite.parseCase l with
    | none => .bad "wrspec case"
    | some c =>
      if (l.outStr "err").isSome then .ok
      else match l.outNats "st", l.outHex "file", (l.outStr "oracle").bind (parseList parsePair) with
      | some st, some file, some oracle =>
        if st.all (· == 0) then verdict [] (judge c.cols c.ops file oracle)
        else if st.getLast? == some 0 then
          -- some call failed but close returned OK: the file must still be a valid Parquet file
          verdict [] (match Spec.File.read file (strictTiling := true) (oracle := oracle) with
                      | .error r => [("spec_reader_accepts_after_failed_call:" ++ reasonStr r, false)]
                      | .ok _ => [])
        else .ok
      | _, _, _ => .bad "wrspec outs"
  | _ => none

end Driver.Ops.FileSpec
