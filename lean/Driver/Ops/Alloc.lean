import Carquet.Util
import Carquet.Impl.Buffer
import Carquet.Impl.Arena
import Carquet.Impl.AllocFlow
import Carquet.Impl.AllocExt
import Driver.Lib.AllocScn
/-
Driver ops for C19 (behaviour under allocation failure).  See harness/ops_alloc.c for the line formats.
Component-level lines (alloc_buf, alloc_arena, alloc_schema, alloc_thrift, alloc_pw) are compared with the
Impl models run under the same oracle (tie); scenario lines (alloc_scn) are judged by the property's own
predicate: no crash, no leak, and "an error was reported or the effect is that of the fault-free run".
-/
namespace Driver.Ops.Alloc
open Carquet Carquet.Util
open Carquet.Impl.Alloc

def horizon : Nat := 4096

def oracleOf (fail : List Nat) : Oracle := failSet fail horizon

def consumed (o' : Oracle) : Nat := horizon - o'.length

def fnv (bs : List UInt8) : UInt64 :=
  bs.foldl (fun h b => (h ^^^ b.toUInt64) * 0x100000001b3) 0xcbf29ce484222325

def pairs : List Nat → List (Nat × Nat)
  | a :: b :: r => (a, b) :: pairs r
  | _ => []

def triples : List Nat → List (Nat × Nat × Nat)
  | a :: b :: c :: r => (a, b, c) :: triples r
  | _ => []

def pattern (i salt n : Nat) : List UInt8 := (List.range n).map (fun j => UInt8.ofNat ((i * 37 + j * 11 + salt) % 256))

/-! ### alloc_buf -/

def bufOp (i : Nat) (c : Nat × Nat) : Buffer.Op :=
  match c.1 with
  | 0 => .reserve c.2
  | 1 => .append (pattern i 5 c.2)
  | 2 => .advance (pattern i 9 c.2)
  | 3 => .resize c.2
  | 4 => .clear
  | 5 => .shrink
  | 6 => .append (List.replicate c.2 (UInt8.ofNat (i % 256)))
  | 7 => .append [UInt8.ofNat (c.2 % 256)]
  | _ => .append (Flow.le32 c.2)

def bufOps (l : List (Nat × Nat)) : List Buffer.Op := (l.zipIdx).map (fun p => bufOp p.2 p.1)

def initialBuf (wrap : Int) : Buffer.Buf :=
  if wrap ≥ 0 then Buffer.initWrap ((List.range wrap.toNat).map (fun i => UInt8.ofNat ((i * 7 + 3) % 256))) true
  else if wrap = -2 then Buffer.initWrap [] false
  else Buffer.init

def handleBuf (l : Line) : Verdict :=
  match l.inInt "wrap", l.inNats "ops", l.inNats "fail", l.outNats "st", l.outNat "size", l.outNat "cap",
        l.outNat "owns", l.outNat "hasdata", l.outNat "dh", l.outNat "nreq" with
  | some wrap, some ops, some fail, some st, some size, some cap, some owns, some hasdata, some dh, some nreq =>
    match Buffer.run (bufOps (pairs ops)) (initialBuf wrap) (oracleOf fail) with
    | (mst, b, o') =>
      verdict [("status", mst == st), ("size", b.size == size), ("capacity", b.capacity == cap),
               ("owns", (if b.owns then 1 else 0) == owns), ("hasdata", (if b.hasData then 1 else 0) == hasdata),
               ("content", (fnv b.data).toNat == dh), ("requests", consumed o' == nreq)]
              [("size_le_capacity", size ≤ cap)]
  | _, _, _, _, _, _, _, _, _, _ => .bad "alloc_buf args"

/-! ### alloc_arena -/

def arenaOp (maxn : Nat) (c : Nat × Nat × Nat) : Arena.Op :=
  match c.1 with
  | 0 => .alloc c.2.1
  | 1 => .allocAligned c.2.1 c.2.2
  | 2 => .calloc c.2.1 c.2.2
  | 3 => .strdup c.2.1
  | 7 => .strndup maxn c.2.2
  | 8 => .memdup c.2.1
  | 4 => .save (c.2.1 % 4)
  | 5 => .restore (c.2.1 % 4)
  | _ => .reset

def resBlock : Option (Option (Nat × Nat)) → Int
  | none => -2
  | some none => -1
  | some (some p) => p.1

def resOff : Option (Option (Nat × Nat)) → Int
  | some (some p) => p.2
  | _ => 0

/-- size and alignment of the request an op makes (0 for ops that do not allocate) -/
def opRequest (maxn : Nat) (c : Nat × Nat × Nat) : Nat × Nat :=
  match c.1 with
  | 0 => (c.2.1, 16)
  | 1 => (c.2.1, if c.2.2 = 0 then 1 else c.2.2)
  | 2 => (c.2.1 * c.2.2, 16)
  | 3 => (c.2.1 + 1, 1)
  | 7 => (min maxn c.2.2 + 1, 1)
  | 8 => (c.2.1, 16)
  | _ => (0, 1)

def handleArena (l : Line) : Verdict :=
  match l.inNat "bs", l.inNats "ops", l.inNats "fail", l.outNat "init", l.outNat "nreq" with
  | some bs, some ops, some fail, some init, some nreq =>
    let t := triples ops
    let maxn := t.foldl (fun m c => max m c.2.1) 1
    let bases := (l.outNats "bbase").getD []
    match Arena.initSize bs (bases.headD 8) (oracleOf fail) with
    | (none, o') => verdict [("init", init == 1), ("requests", consumed o' == nreq)] []
    | (some ar, o1) =>
      match l.outInts "rb", l.outInts "ro", l.outNats "bsz", l.outNats "bused", l.outNat "cur", l.outNat "talloc", l.outNat "tcap" with
      | some rb, some ro, some bsz, some bused, some cur, some talloc, some tcap =>
        match Arena.run (t.map (arenaOp maxn)) ⟨ar, [none, none, none, none], bases.drop 1⟩ o1 with
        | (rs, st, o') =>
          let inBlock := (List.zip (List.zip rb ro) t).all (fun x =>
            x.1.1 < 0 || (match bsz[x.1.1.toNat]?, bases[x.1.1.toNat]? with
              | some sz, some base =>
                decide (x.1.2.toNat + (opRequest maxn x.2).1 ≤ sz) && (base + x.1.2.toNat) % (opRequest maxn x.2).2 == 0
              | _, _ => false))
          -- n-ary disjointness of everything handed out between two rewinds (restore / reset): within a block,
          -- later pointers start at or after the end of earlier ones
          let segs := (List.zip (List.zip rb ro) t).foldl (fun (acc : List (List (Int × Int × Nat)) × List (Int × Int × Nat)) x =>
            if x.2.1 == 5 || x.2.1 == 6 then (acc.1 ++ [acc.2], []) else
            if x.1.1 < 0 then acc else (acc.1, acc.2 ++ [(x.1.1, x.1.2, (opRequest maxn x.2).1)])) ([], [])
          let pairwise := (segs.1 ++ [segs.2]).all (fun seg =>
            (List.range seg.length).all (fun i => (List.range i).all (fun j =>
              match seg[j]?, seg[i]? with
              | some a, some b => a.1 != b.1 || decide (a.2.1 + (a.2.2 : Int) ≤ b.2.1)
              | _, _ => true)))
          verdict [("init", init == 0), ("block", rs.map resBlock == rb), ("offset", rs.map resOff == ro),
                   ("sizes", st.ar.blocks.map (·.size) == bsz), ("used", st.ar.blocks.map (·.used) == bused),
                   ("current", st.ar.current == cur), ("allocated", st.ar.totalAllocated == talloc),
                   ("capacity", st.ar.totalCapacity == tcap), ("requests", consumed o' == nreq),
                   ("base_mod16", bases.all (fun b => b % 16 == 8))]
                  [("in_block_aligned", inBlock), ("pairwise_disjoint", pairwise)]
      | _, _, _, _, _, _, _ => .bad "alloc_arena outs"
  | _, _, _, _, _ => .bad "alloc_arena args"

/-! ### alloc_schema -/

def handleSchema (l : Line) : Verdict :=
  match l.inNats "names", l.inNats "reps", l.inNats "fail", l.outNat "create", l.outNat "nreq" with
  | some names, some reps, some fail, some create, some nreq =>
    match Flow.schemaCreate true (oracleOf fail) with
    | (.error _, o') => verdict [("create", create == 1), ("requests", consumed o' == nreq)] []
    | (.ok s0, o1) =>
      match l.outNats "st", l.outNat "nelem", l.outNat "nleaf", l.outNat "cap", l.outNat "nullnames", l.outNat "talloc" with
      | some st, some nelem, some nleaf, some cap, some nulln, some talloc =>
        let cols := (List.zip names reps).map (fun c => (List.replicate c.1 (120 : UInt8), c.2))
        match Flow.schemaAddAll true cols s0 o1 with
        | (sts, s, o') =>
          verdict [("create", create == 0), ("status", sts.map (fun x => if x = .ok then 0 else 1) == st),
                   ("elements", s.elems.length == nelem), ("leaves", s.leaves.length == nleaf),
                   ("capacity", s.capacity == cap), ("null_names", (s.elems.filter (·.name.isNone)).length == nulln),
                   ("arena_allocated", s.arena.totalAllocated == talloc), ("requests", consumed o' == nreq)]
                  [("ok_means_named", nulln == 0), ("count", nelem == 1 + (st.filter (· == 0)).length ∧ nleaf + 1 == nelem)]
      | _, _, _, _, _, _ => .bad "alloc_schema outs"
  | _, _, _, _, _ => .bad "alloc_schema args"

/-! ### alloc_thrift -/

def varintLen (v : Nat) : Nat := if v < 128 then 1 else 1 + varintLen (v / 128)
termination_by v
decreasing_by omega

/-- zigzag of a signed 64-bit value -/
def zigzag (v : Int) : Nat := if v ≥ 0 then (2 * v).toNat else (-2 * v - 1).toNat

def thriftChunks (c : Nat × Int) : List Nat :=
  match c.1 with
  | 0 => [1]
  | 1 => [varintLen c.2.toNat]
  | 2 => if c.2 > 0 then [varintLen c.2.toNat, c.2.toNat] else [varintLen c.2.toNat]
  | 3 => [8]
  | 4 => [varintLen (zigzag c.2)]
  | 5 => if c.2 > 0 ∧ c.2 ≤ 15 then [1] else [1, varintLen (zigzag c.2)]
  | _ => [1]

def ipairs : List Int → List (Nat × Int)
  | a :: b :: r => (a.toNat, b) :: ipairs r
  | _ => []

def zeros (sizes : List Nat) : List (List UInt8) := sizes.map (fun n => List.replicate n 0)

def handleThrift (l : Line) : Verdict :=
  match l.inInts "ops", l.inNats "fail", l.outNat "status", l.outNat "size", l.outNat "cap", l.outNat "nreq" with
  | some ops, some fail, some status, some size, some cap, some nreq =>
    let sizes := (ipairs ops).flatMap thriftChunks
    match (Flow.Enc.init Buffer.init).putAll (zeros sizes) (oracleOf fail) with
    | (e, o', _) =>
      verdict [("status", (if e.status = .ok then 0 else 1) == status), ("size", e.buf.size == size),
               ("capacity", e.buf.capacity == cap), ("requests", consumed o' == nreq)]
              [("ok_means_complete", status != 0 || size == sizes.foldl (· + ·) 0)]
  | _, _, _, _, _, _ => .bad "alloc_thrift args"

/-! ### alloc_pw -/

/-- the appends the page header makes (sizes), from the fields that determine varint lengths -/
def pageHeaderSizes (unc cmp crc numValues nulls : Nat) (stats : Bool) : List Nat :=
  let crcZ := if crc < 2147483648 then 2 * crc else 2 * (4294967296 - crc) - 1
  [1, 1, 1, varintLen (2 * unc), 1, varintLen (2 * cmp), 1, varintLen crcZ, 1,
   1, varintLen (2 * numValues), 1, 1, 1, 1, 1, 1] ++
  (if stats then [1, 1, varintLen (2 * nulls), 1, 1, 4, 1, 1, 4, 1] else []) ++ [1, 1]

def pwPayload (comp crc numValues nulls : Nat) (stats : Bool) : Flow.Payload where
  rle := fun _ _ => zeros [1, 1]
  packBool := fun b => b
  compress := fun _ _ => List.replicate comp 0
  bound := fun _ n => n
  header := fun unc cmp _ => zeros (pageHeaderSizes unc cmp crc numValues nulls stats)

def statusCode : Except Flow.Fault α → Nat
  | .ok _ => 0
  | .error _ => 1

def handlePw (l : Line) : Verdict :=
  match l.inNat "n", l.inNat "nullable", l.inNat "first", l.inNat "codec", l.inNat "crc", l.inNat "comp", l.inNats "fail",
        l.outNat "create", l.outNat "add", l.outNat "fin", l.outNat "page", l.outNat "unc", l.outNat "cmp", l.outNat "nreq" with
  | some n, some nullable, some first, some codec, some crc, some comp, some fail,
    some create, some add, some fin, some page, some unc, some cmp, some nreq =>
    let nn := if nullable = 1 then ((List.range n).filter (fun i => (i + first) % 2 = 1)).length else n
    let P := pwPayload comp crc n (n - nn) (nn > 0)
    match Flow.pageWriterCreate nullable 0 false codec (oracleOf fail) with
    | (.error _, o') => verdict [("create", create == 1), ("requests", consumed o' == nreq)] []
    | (.ok w, o1) =>
      match Flow.pageAddValues w n (.given (List.replicate (2 * n) 0)) (.absent [0, 0] 0) [List.replicate (4 * nn) 0] o1 with
      | (.error _, o') => verdict [("create", create == 0), ("add", add == 1), ("requests", consumed o' == nreq)] []
      | (.ok w1, o2) =>
        match Flow.pageFinalize P w1 o2 with
        | (.error _, o') =>
          verdict [("create", create == 0), ("add", add == 0), ("finalize", fin == 1), ("requests", consumed o' == nreq)] []
        | (.ok r, o') =>
          verdict [("create", create == 0), ("add", add == 0), ("finalize", fin == 0), ("page_size", r.2.length == page),
                   ("uncompressed", unc == (if nullable = 1 then 6 else 0) + 4 * nn),
                   ("compressed", cmp == (if codec = 0 then unc else comp)), ("requests", consumed o' == nreq)]
                  []
  | _, _, _, _, _, _, _, _, _, _, _, _, _, _ => .bad "alloc_pw args"

/-! ### alloc_scn -/

def handleScn (l : Line) : Verdict :=
  match l.outNat "crash", l.outNat "fired", l.outStr "fn" with
  | some crash, some fired, some fn =>
    let site := (fn.splitOn "@").headD "-"
    let known := [("site_modelled", fired == 0 || site == "-" || Flow.modelledSite site || Ext.modelledSiteExt site)] ++
                 Driver.Lib.AllocScn.countChecks l
    if crash == 1 then verdict known [("no_crash", false)]
    else
      match l.outInt "err", l.outNat "same", l.outNat "leak" with
      | some err, some same, some leak =>
        verdict known
          [("no_leak", leak == 0),
           ("error_or_same_effect", err ≥ 0 || same == 1),
           ("fault_free_run_ok", fired == 1 || (err < 0 && same == 1))]
      | _, _, _ => .bad "alloc_scn outs"
  | _, _, _ => .bad "alloc_scn args"

def handle (l : Line) : Option Verdict :=
  match l.op with
  | "alloc_buf" => some (handleBuf l)
  | "alloc_arena" => some (handleArena l)
  | "alloc_schema" => some (handleSchema l)
  | "alloc_thrift" => some (handleThrift l)
  | "alloc_pw" => some (handlePw l)
  | "alloc_scn" => some (handleScn l)
  | "alloc_leakcheck" => some (verdict [] [("no_leak", l.outNat "leak" == some 0)])
  | _ => none

end Driver.Ops.Alloc
