import Carquet.Util
import Carquet.Gen.CFun
import Carquet.Impl.Bloom
import Carquet.Impl.Xxh64
import Carquet.Impl.Snappy
import Carquet.Impl.Lz4
import Carquet.Impl.Reader
import Carquet.Impl.Writer
import Carquet.Impl.Stats
import Carquet.Impl.Buffer
import Carquet.Impl.Arena
import Carquet.Impl.Thrift
import Carquet.Impl.Varint
import Carquet.Impl.Delta
import Carquet.Impl.Dictionary
import Carquet.Impl.Bitpack
/-
Driver op of the translator self-check (component `cfun`, harness/ops_cfun.c):

  cfun f=<name> a=<bit patterns> d=<0|1> | r=<bit pattern> ub=<n>   the real C function was called (d=1)
  cfun f=<name> a=<bit patterns> d=<0|1> | triv=1              not executed: `<f>_defined` is false (d=0)
  cfun ... | missing=1                                          the C wrapper table has no such function / arity

model checks (a failure = the translator, clang's AST, or CSem disagrees with the compiled C code):
  `defined_flag`  the `d` the generator wrote is what `<f>_defined` says now
  `cfun_value`    the generated Lean definition returns the value the real C function returned
  `no_ubsan_report_when_defined`  UBSan stayed silent during the call (`ub=0`): `<f>_defined = true` was right
property checks (`model_link`): the hand-written Impl model that the link theorem of the function
(lean/Carquet/Properties/Cnn/CFun.lean) equates it with, evaluated on the same arguments inside the theorem's
hypotheses, returns what the real C function returned.  This is the sampled shadow of the link theorems: when a C
function is changed so that its theorem no longer builds, it supplies the concrete failing input.
-/
namespace Driver.Ops.CFun
open Carquet Carquet.Util

def sInt (w : Nat) (x : Nat) : Int := if 2 * x < 2 ^ w then (x : Int) else (x : Int) - (2 ^ w : Nat)

def ptypeOf : Nat → Option Spec.Order.PType
  | 0 => some .boolean | 1 => some .int32 | 2 => some .int64 | 3 => some .int96
  | 4 => some .float | 5 => some .double | 6 => some .byteArray | 7 => some .flba
  | _ => none

def b2n (b : Bool) : Nat := if b then 1 else 0

/-- the model side of the link theorem of function `f`, compared with the C result `r`; `g` looks an argument up BY
NAME (the names of the generated Lean parameters: C parameter names, `p_field` for struct access paths);
`none`: no model link evaluated for these arguments (outside the theorem's hypotheses, or no executable model) -/
def modelLink (f : String) (g : String → Nat) (r : Nat) : Option Bool :=
  match f with
  | "bloom_filter_block_index" => some (Impl.Bloom.blockIndex (BitVec.ofNat 64 (g "hash")) (g "num_blocks") == r)
  | "xxh64_rotl" => if g "r" ≤ 64 then some ((Impl.Xxh64.rotl (BitVec.ofNat 64 (g "x")) (g "r")).toNat == r) else none
  | "xxh64_round" => some ((Impl.Xxh64.round (BitVec.ofNat 64 (g "acc")) (BitVec.ofNat 64 (g "input"))).toNat == r)
  | "xxh64_merge_round" =>
    some ((Impl.Xxh64.mergeRound (BitVec.ofNat 64 (g "acc")) (BitVec.ofNat 64 (g "val"))).toNat == r)
  | "snappy_hash" => some ((Impl.Snappy.hashIdx (g "val")).val == r)
  | "carquet_snappy_compress_bound" =>
    if Impl.Snappy.compressBound (g "src_size") < 2 ^ 64 then some (Impl.Snappy.compressBound (g "src_size") == r) else none
  | "lz4_hash" => some (Impl.Lz4.hash (g "val") == r)
  | "carquet_lz4_compress_bound" =>
    if Impl.Lz4.bound (g "src_size") < 2 ^ 64 then some (Impl.Lz4.bound (g "src_size") == r) else none
  | "next_power_of_two" => if g "n" ≤ 2 ^ 63 then some (Impl.Alloc.Buffer.nextPow2 (g "n") == r) else none
  | "align_up" =>
    if g "alignment" ≠ 0 ∧ g "alignment" &&& (g "alignment" - 1) = 0 ∧ g "value" + g "alignment" - 1 < 2 ^ 64 then
      some (Impl.Alloc.Arena.alignUp (g "value") (g "alignment") == r)
    else none
  | "statistics_get_value_size" =>
    (match ptypeOf (g "type") with
     | some pt => some (Impl.Stats.valueSize pt (sInt 32 (g "type_length")) == r)
     | none => some (r == 0))
  | "get_compare_width" =>
    (match ptypeOf (g "type") with
     | some pt => some ((Impl.Stats.cmpWidth pt).getD 0 == r)
     | none => some (r == 0))
  | "fixed_width" =>
    (match ptypeOf (g "type") with
     | some pt => some (Impl.Stats.fixedWidth pt == r)
     | none => some (r == 0))
  | "page_reader_get_value_size" =>
    if g "type" = 7 ∧ sInt 32 (g "type_length") < 0 then none
    else some (Impl.Reader.valueSize (g "type") (sInt 32 (g "type_length")) == r)
  | "page_reader_bit_width_for_max" =>
    if g "max_val" < 2 ^ 31 then some (Impl.Reader.bitWidthForMax (g "max_val") == r) else none
  | "page_writer_bit_width_for_max" =>
    if g "max_level" < 2 ^ 15 then some (Impl.Writer.bitWidthForMax (g "max_level") == r) else none
  | "page_header_sizes_valid" =>
    some (b2n (Impl.Reader.sizesValid { type := 0, uncompressed := sInt 32 (g "h_uncompressed_page_size"),
                                        compressed := sInt 32 (g "h_compressed_page_size"), crc := none,
                                        word0 := 0, word4 := 0 }) == r)
  | "mmap_header_window" =>
    -- the mapped branch of Impl.Reader.loadHeader: outside the file = no window, else everything up to the end
    some ((if sInt 64 (g "offset") < 0 ∨ sInt 64 (g "offset") ≥ g "file_reader_file_size" then 0
           else g "file_reader_file_size" - g "offset") == r)
  | "mmap_body_in_file" =>
    -- the mapped branch of Impl.Reader.bodyBytes (precondition of the C function: 0 <= offset <= file_size)
    if 0 ≤ sInt 64 (g "offset") ∧ g "offset" ≤ g "file_reader_file_size" then
      some (b2n (decide (0 ≤ sInt 32 (g "compressed_size")) &&
                 decide (g "header_size" ≤ g "file_reader_file_size" - g "offset") &&
                 decide (g "compressed_size" ≤ g "file_reader_file_size" - g "offset" - g "header_size")) == r)
    else none
  | "carquet_page_is_zero_copy_eligible" =>
    some (b2n (Impl.Reader.zeroCopyEligible (g "codec") (g "encoding") (g "type")) == r)
  | "carquet_zigzag_encode32" => some ((Impl.Varint.zigzagEncode32 (BitVec.ofNat 32 (g "v"))).toNat == r)
  | "carquet_zigzag_decode32" => some ((Impl.Varint.zigzagDecode32 (BitVec.ofNat 32 (g "v"))).toNat == r)
  | "carquet_zigzag_encode64" =>
    some ((Impl.Varint.zigzagEncode64 (BitVec.ofNat 64 (g "v"))).toNat == r && Impl.Thrift.zigzagEnc (sInt 64 (g "v")) == r)
  | "carquet_zigzag_decode64" =>
    some ((Impl.Varint.zigzagDecode64 (BitVec.ofNat 64 (g "v"))).toNat == r && Impl.Thrift.zigzagDec (g "v") == sInt 64 r)
  | "delta_zigzag_encode64" => some ((Impl.Delta.zigzagEncode64 (BitVec.ofNat 64 (g "n"))).toNat == r)
  | "delta_zigzag_decode64" => some ((Impl.Delta.zigzagDecode64 (BitVec.ofNat 64 (g "n"))).toNat == r)
  | "bit_width_required" => some (Impl.Delta.bitWidthRequired (BitVec.ofNat 64 (g "value")) == r)
  | "bit_width_for_count" => some (Impl.Dictionary.bitWidthForCount (g "count") == r)
  | "carquet_packed_size" =>
    if g "bit_width" < 2 ^ 31 ∧ g "count" * g "bit_width" + 7 < 2 ^ 64 then
      some (Impl.Bitpack.packedSize (g "count") (g "bit_width") == r)
    else none
  | "carquet_bit_width32" | "carquet_bit_width64" => some (Impl.CSem.bitLen (g "v") == r)
  | "carquet_clz32" => some (32 - Impl.CSem.bitLen (g "v") == r)
  | "carquet_clz64" => some (64 - Impl.CSem.bitLen (g "v") == r)
  | "carquet_buffer_reader_has" =>
    if g "reader_pos" ≤ g "reader_size" then some (b2n (decide (g "n" ≤ g "reader_size" - g "reader_pos")) == r) else none
  | "has_bytes" =>
    if g "dec_reader_pos" ≤ g "dec_reader_size" then
      (if g "dec_reader_size" - g "dec_reader_pos" ≤ 100000 then
         some (b2n (Impl.Thrift.lengthGe (List.replicate (g "dec_reader_size" - g "dec_reader_pos") 0) (g "n")) == r)
       else some (b2n (decide (g "n" ≤ g "dec_reader_size" - g "dec_reader_pos")) == r))
    else none
  | _ => none

def linkChecks (e : Gen.CFun.Entry) (a : List Nat) (r : Nat) : List (String × Bool) :=
  let kv := (e.args.map (·.1)).zip a
  match modelLink e.name (fun k => ((kv.find? (·.1 == k)).map (·.2)).getD 0) r with
  | some b => [("model_link_" ++ e.name, b)]
  | none => []

def handle (l : Line) : Option Verdict :=
  match l.op with
  | "cfun" => some <|
    match l.inStr "f", l.inNats "a", l.inNat "d" with
    | some f, some a, some d =>
      match Gen.CFun.table.find? (·.name == f) with
      | none => .bad s!"cfun: unknown function {f}"
      | some e =>
        match e.eval a with
        | none => .bad s!"cfun: {f} takes {e.args.length} arguments"
        | some (v, df) =>
          if l.outStr "missing" == some "1" then verdict [("c_wrapper_exists", false)] []
          else if d == 1 then
            match l.outNat "r" with
            | some r =>
              verdict [("defined_flag", df), ("cfun_value", v == r),
                       ("no_ubsan_report_when_defined", (l.outNat "ub").getD 0 == 0)] (linkChecks e a r)
            | none => .bad "cfun: d=1 but no r"
          else verdict [("defined_flag", !df)] []
    | _, _, _ => .bad "cfun args"
  | _ => none

end Driver.Ops.CFun
