import Carquet.Util
import Carquet.Gen.CFun
import Carquet.Impl.Bloom
import Carquet.Impl.Xxh64
import Carquet.Impl.Snappy
import Carquet.Impl.Lz4
import Carquet.Impl.Reader
import Carquet.Impl.Writer
import Carquet.Impl.Stats
import Carquet.Impl.Buffer
import Carquet.Impl.Arena
import Carquet.Impl.Thrift
import Carquet.Impl.Varint
import Carquet.Impl.Delta
import Carquet.Impl.Dictionary
import Carquet.Impl.Bitpack
import Carquet.Impl.Crc32
import Carquet.Spec.Sbbf
import Carquet.Impl.BitIO
import Carquet.Impl.BufferReader
import Carquet.Impl.CFun3.BitReader
import Carquet.Impl.CFun3.BitWriter
import Carquet.Impl.CFun3.BufReader
import Carquet.Impl.CFun3.ThriftDec
import Carquet.Impl.CFun3.RleDec
import Carquet.Impl.Rle
import Carquet.Impl.SimdMore     -- cfunb
import Carquet.Gen.Dispatch      -- cfunb
import Carquet.Impl.Bss          -- cfunb
import Carquet.Impl.Plain        -- cfunb
import Carquet.Impl.DeltaStrings -- cfunb
/-
Driver op of the translator self-check (component `cfun`, harness/ops_cfun.c):

  cfun f=<name> a=<bit patterns> d=<0|1> | r=<bit pattern> ub=<n>   the real C function was called (d=1)
  cfun f=<name> a=<bit patterns> d=<0|1> | triv=1              not executed: `<f>_defined` is false (d=0)
  cfun ... | missing=1                                          the C wrapper table has no such function / arity

model checks (a failure = the translator, clang's AST, or CSem disagrees with the compiled C code):
  `defined_flag`  the `d` the generator wrote is what `<f>_defined` says now
  `cfun_value`    the generated Lean definition returns the value the real C function returned
  `no_ubsan_report_when_defined`  UBSan stayed silent during the call (`ub=0`): `<f>_defined = true` was right
property checks (`model_link`): the hand-written Impl model that the link theorem of the function
(lean/Carquet/Properties/Cnn/CFun.lean) equates it with, evaluated on the same arguments inside the theorem's
hypotheses, returns what the real C function returned.  This is the sampled shadow of the link theorems: when a C
function is changed so that its theorem no longer builds, it supplies the concrete failing input.
-/
namespace Driver.Ops.CFun
open Carquet Carquet.Util

def sInt (w : Nat) (x : Nat) : Int := if 2 * x < 2 ^ w then (x : Int) else (x : Int) - (2 ^ w : Nat)

def ptypeOf : Nat → Option Spec.Order.PType
  | 0 => some .boolean | 1 => some .int32 | 2 => some .int64 | 3 => some .int96
  | 4 => some .float | 5 => some .double | 6 => some .byteArray | 7 => some .flba
  | _ => none

def b2n (b : Bool) : Nat := if b then 1 else 0

/-- the model side of the link theorem of function `f`, compared with the C result `r`; `g` looks an argument up BY
NAME (the names of the generated Lean parameters: C parameter names, `p_field` for struct access paths);
`none`: no model link evaluated for these arguments (outside the theorem's hypotheses, or no executable model) -/
def modelLink (f : String) (g : String → Nat) (r : Nat) : Option Bool :=
  match f with
  | "bloom_filter_block_index" => some (Impl.Bloom.blockIndex (BitVec.ofNat 64 (g "hash")) (g "num_blocks") == r)
  | "xxh64_rotl" => if g "r" ≤ 64 then some ((Impl.Xxh64.rotl (BitVec.ofNat 64 (g "x")) (g "r")).toNat == r) else none
  | "xxh64_round" => some ((Impl.Xxh64.round (BitVec.ofNat 64 (g "acc")) (BitVec.ofNat 64 (g "input"))).toNat == r)
  | "xxh64_merge_round" =>
    some ((Impl.Xxh64.mergeRound (BitVec.ofNat 64 (g "acc")) (BitVec.ofNat 64 (g "val"))).toNat == r)
  | "snappy_hash" => some ((Impl.Snappy.hashIdx (g "val")).val == r)
  | "carquet_snappy_compress_bound" =>
    if Impl.Snappy.compressBound (g "src_size") < 2 ^ 64 then some (Impl.Snappy.compressBound (g "src_size") == r) else none
  | "lz4_hash" => some (Impl.Lz4.hash (g "val") == r)
  | "carquet_lz4_compress_bound" =>
    if Impl.Lz4.bound (g "src_size") < 2 ^ 64 then some (Impl.Lz4.bound (g "src_size") == r) else none
  | "next_power_of_two" => if g "n" ≤ 2 ^ 63 then some (Impl.Alloc.Buffer.nextPow2 (g "n") == r) else none
  | "align_up" =>
    if g "alignment" ≠ 0 ∧ g "alignment" &&& (g "alignment" - 1) = 0 ∧ g "value" + g "alignment" - 1 < 2 ^ 64 then
      some (Impl.Alloc.Arena.alignUp (g "value") (g "alignment") == r)
    else none
  | "statistics_get_value_size" =>
    (match ptypeOf (g "type") with
     | some pt => some (Impl.Stats.valueSize pt (sInt 32 (g "type_length")) == r)
     | none => some (r == 0))
  | "get_compare_width" =>
    (match ptypeOf (g "type") with
     | some pt => some ((Impl.Stats.cmpWidth pt).getD 0 == r)
     | none => some (r == 0))
  | "fixed_width" =>
    (match ptypeOf (g "type") with
     | some pt => some (Impl.Stats.fixedWidth pt == r)
     | none => some (r == 0))
  | "page_reader_get_value_size" =>
    if g "type" = 7 ∧ sInt 32 (g "type_length") < 0 then none
    else some (Impl.Reader.valueSize (g "type") (sInt 32 (g "type_length")) == r)
  | "page_reader_bit_width_for_max" =>
    if g "max_val" < 2 ^ 31 then some (Impl.Reader.bitWidthForMax (g "max_val") == r) else none
  | "page_writer_bit_width_for_max" =>
    if g "max_level" < 2 ^ 15 then some (Impl.Writer.bitWidthForMax (g "max_level") == r) else none
  | "page_header_sizes_valid" =>
    some (b2n (Impl.Reader.sizesValid { type := 0, uncompressed := sInt 32 (g "h_uncompressed_page_size"),
                                        compressed := sInt 32 (g "h_compressed_page_size"), crc := none,
                                        word0 := 0, word4 := 0 }) == r)
  | "mmap_header_window" =>
    -- the mapped branch of Impl.Reader.loadHeader: outside the file = no window, else everything up to the end
    some ((if sInt 64 (g "offset") < 0 ∨ sInt 64 (g "offset") ≥ g "file_reader_file_size" then 0
           else g "file_reader_file_size" - g "offset") == r)
  | "mmap_body_in_file" =>
    -- the mapped branch of Impl.Reader.bodyBytes (precondition of the C function: 0 <= offset <= file_size)
    if 0 ≤ sInt 64 (g "offset") ∧ g "offset" ≤ g "file_reader_file_size" then
      some (b2n (decide (0 ≤ sInt 32 (g "compressed_size")) &&
                 decide (g "header_size" ≤ g "file_reader_file_size" - g "offset") &&
                 decide (g "compressed_size" ≤ g "file_reader_file_size" - g "offset" - g "header_size")) == r)
    else none
  | "carquet_page_is_zero_copy_eligible" =>
    some (b2n (Impl.Reader.zeroCopyEligible (g "codec") (g "encoding") (g "type")) == r)
  | "carquet_zigzag_encode32" => some ((Impl.Varint.zigzagEncode32 (BitVec.ofNat 32 (g "v"))).toNat == r)
  | "carquet_zigzag_decode32" => some ((Impl.Varint.zigzagDecode32 (BitVec.ofNat 32 (g "v"))).toNat == r)
  | "carquet_zigzag_encode64" =>
    some ((Impl.Varint.zigzagEncode64 (BitVec.ofNat 64 (g "v"))).toNat == r && Impl.Thrift.zigzagEnc (sInt 64 (g "v")) == r)
  | "carquet_zigzag_decode64" =>
    some ((Impl.Varint.zigzagDecode64 (BitVec.ofNat 64 (g "v"))).toNat == r && Impl.Thrift.zigzagDec (g "v") == sInt 64 r)
  | "delta_zigzag_encode64" => some ((Impl.Delta.zigzagEncode64 (BitVec.ofNat 64 (g "n"))).toNat == r)
  | "delta_zigzag_decode64" => some ((Impl.Delta.zigzagDecode64 (BitVec.ofNat 64 (g "n"))).toNat == r)
  | "bit_width_required" => some (Impl.Delta.bitWidthRequired (BitVec.ofNat 64 (g "value")) == r)
  | "bit_width_for_count" => some (Impl.Dictionary.bitWidthForCount (g "count") == r)
  | "carquet_packed_size" =>
    if g "bit_width" < 2 ^ 31 ∧ g "count" * g "bit_width" + 7 < 2 ^ 64 then
      some (Impl.Bitpack.packedSize (g "count") (g "bit_width") == r)
    else none
  | "carquet_bit_width32" | "carquet_bit_width64" => some (Impl.CSem.bitLen (g "v") == r)
  | "carquet_clz32" => some (32 - Impl.CSem.bitLen (g "v") == r)
  | "carquet_clz64" => some (64 - Impl.CSem.bitLen (g "v") == r)
  | "carquet_buffer_reader_has" =>
    if g "reader_pos" ≤ g "reader_size" then some (b2n (decide (g "n" ≤ g "reader_size" - g "reader_pos")) == r) else none
  | "has_bytes" =>
    if g "dec_reader_pos" ≤ g "dec_reader_size" then
      (if g "dec_reader_size" - g "dec_reader_pos" ≤ 100000 then
         some (b2n (Impl.Thrift.lengthGe (List.replicate (g "dec_reader_size" - g "dec_reader_pos") 0) (g "n")) == r)
       else some (b2n (decide (g "n" ≤ g "dec_reader_size" - g "dec_reader_pos")) == r))
    else none
  | _ => none

def linkChecks (e : Gen.CFun.Entry) (a : List Nat) (r : Nat) : List (String × Bool) :=
  let kv := (e.args.map (·.1)).zip a
  match modelLink e.name (fun k => ((kv.find? (·.1 == k)).map (·.2)).getD 0) r with
  | some b => [("model_link_" ++ e.name, b)]
  | none => []

/-! ### stage 2 (`cfun2`): arguments / results are integers or arrays -/

open Carquet.Impl.CSem (Val Kind)

def parseVal (k : Kind) (v : Option String) : Option Val :=
  match k, v with
  | .arr 8, some t => (parseHex t).map (fun bs => Val.a (bs.map (·.toNat)))
  | .arr _, some t => (parseList String.toNat? t).map Val.a
  | _, some t => t.toNat?.map Val.n
  | _, none => none

def allSome : List (Option α) → Option (List α)
  | [] => some []
  | some x :: r => (allSome r).map (x :: ·)
  | none :: _ => none

def vN : Val → Nat
  | .n x => x
  | .a _ => 0

def vA : Val → List Nat
  | .a xs => xs
  | .n _ => []

def vBytes (v : Val) : List UInt8 := (vA v).map UInt8.ofNat

def bytesOfWords (ws : List Nat) : List UInt8 := ws.flatMap (fun w => Impl.Bloom.store32 (BitVec.ofNat 32 w))

/-- the model side of the link theorem of a stage-2 function (lean/Carquet/Properties/Cnn/CFun2.lean), evaluated inside
the theorem's hypotheses on the arguments `g` (by parameter name) and compared with the results `r` of the real C
function; `none`: outside the hypotheses / no executable model -/
def modelLink2 (f : String) (g : String → Val) (r : List Val) : Option Bool :=
  let data := vBytes (g "data")
  let lenOk := fun (nm : String) (arr : String) => vN (g nm) == (vA (g arr)).length
  match f with
  | "carquet_xxhash64" =>
    if lenOk "length" "data" then
      some (r == [Val.n (Impl.Xxh64.xxh64 data (BitVec.ofNat 64 (vN (g "seed")))).toNat]) else none
  | "bloom_filter_block_insert" =>
    let ws := vA (g "block")
    if ws.length ≥ 8 then
      some (r == [Val.a ((Carquet.Spec.Sbbf.wordsOfBytes (Impl.Bloom.blockInsertLoop (BitVec.ofNat 32 (vN (g "hash")))
        Impl.Bloom.salt (bytesOfWords ws))).map (·.toNat))]) else none
  | "bloom_filter_block_check" =>
    let ws := vA (g "block")
    if ws.length ≥ 8 then
      some (r == [Val.n (b2n (Impl.Bloom.blockCheckLoop (BitVec.ofNat 32 (vN (g "hash"))) Impl.Bloom.salt (bytesOfWords ws)))])
    else none
  | "crc32_slicing_by_8" | "carquet_crc32_update" =>
    -- on the not-yet-initialised state (flag 0) the content of the table memory does not matter
    if vN (g "crc32_tables_initialized") == 0 && lenOk "length" "data" then
      some (r.head? == some (Val.n (Impl.Crc32.update (BitVec.ofNat 32 (vN (g "crc"))) data).toNat)) else none
  | "carquet_crc32" =>
    if vN (g "crc32_tables_initialized") == 0 && lenOk "length" "data" then
      some (r.head? == some (Val.n (Impl.Crc32.crc32 data).toNat)) else none
  | "crc32_init_tables" =>
    if vN (g "crc32_tables_initialized") == 0 then
      some (r == [Val.a ((List.range 2048).map (fun n => (Impl.Crc32.table (n / 256) (n % 256)).toNat)), Val.n 1]) else none
  | "carquet_decode_varint32" =>
    let p := vBytes (g "p")
    if lenOk "len" "p" then
      some (match Impl.Varint.decodeVarint32 p with
        | some (v, rest) => r == [Val.n (p.length - rest.length), Val.n v]
        | none => r == [Val.n 4294967295, g "out"]) else none
  | "carquet_decode_varint64" =>
    let p := vBytes (g "p")
    if lenOk "len" "p" then
      some (match Impl.Varint.decodeVarint64 p with
        | some (v, rest) => r == [Val.n (p.length - rest.length), Val.n v]
        | none => r == [Val.n 4294967295, g "out"]) else none
  | "carquet_encode_varint32" =>
    let p := vBytes (g "p")
    let w := Impl.Varint.writeVarint32 (vN (g "v"))
    if w.length ≤ p.length then some (r == [Val.n w.length, Val.a ((w ++ p.drop w.length).map (·.toNat))]) else none
  | "carquet_encode_varint64" =>
    let p := vBytes (g "p")
    let w := Impl.Varint.writeVarint64 (vN (g "v"))
    if w.length ≤ p.length then some (r == [Val.n w.length, Val.a ((w ++ p.drop w.length).map (·.toNat))]) else none
  | "rle_read_varint" =>
    if lenOk "size" "data" && vN (g "pos") ≤ data.length then
      some (match Impl.Varint.readVarintRle (data.drop (vN (g "pos"))) with
        | some (v, rest) => r == [Val.n 0, Val.n (data.length - rest.length), Val.n v]
        | none => r == [Val.n 4294967295, g "pos", g "out"]) else none
  | "read_uleb128" =>
    if lenOk "size" "data" then
      some (match Impl.Delta.readUleb128 data with
        | some (v, n) => r == [Val.n n, Val.n v.toNat]
        | none => r.head? == some (Val.n 0)) else none
  | "stats_compare_int32" | "rstats_compare_int32" =>
    some (r == [Val.n (BitVec.ofInt 32 (Impl.Stats.cmpI32 (vBytes (g "a")) (vBytes (g "b")))).toNat])
  | "stats_compare_int64" | "rstats_compare_int64" =>
    some (r == [Val.n (BitVec.ofInt 32 (Impl.Stats.cmpI64 (vBytes (g "a")) (vBytes (g "b")))).toNat])
  | "stats_compare_int96" | "rstats_compare_int96" =>
    some (r == [Val.n (BitVec.ofInt 32 (Impl.Stats.cmpI96 (vBytes (g "a")) (vBytes (g "b")))).toNat])
  | "stats_compare_boolean" | "rstats_compare_boolean" =>
    some (r == [Val.n (BitVec.ofInt 32 (Impl.Stats.cmpBool (vBytes (g "a")) (vBytes (g "b")))).toNat])
  | "carquet_bitunpack8_3bit" =>
    let vs := vA (g "values")
    if vs.length ≥ 8 then some (r == [Val.a (Impl.Bitpack.unpack8_3bit (vBytes (g "input")) ++ vs.drop 8)]) else none
  | "carquet_read_u32_le" | "carquet_read_i32_le" => some (r == [Val.n (Impl.Bitpack.leNat ((vBytes (g "p")).take 4))])
  | "snappy_read_varint" =>
    let p := vBytes (g "p")
    if vN (g "end_") == p.length then
      some (match Impl.Snappy.readVarint Impl.Snappy.Fixes.all p.toArray with
        | some (v, n) => r == [Val.n n, Val.n v]
        | none => r.head? == some (Val.n 0)) else none
  | _ => none

/-- the hypotheses of the `…_defined` link theorem of a stage-2 function hold for these arguments: the theorem says the
call is free of undefined behaviour, so a regenerated `_defined = false` here is a concrete input on which the (changed) C
function reads out of bounds / shifts too far / runs out of fuel -/
def definedClaim (f : String) (g : String → Val) : Bool :=
  let lenOk := fun (nm : String) (arr : String) => vN (g nm) == (vA (g arr)).length
  match f with
  | "carquet_xxhash64" => lenOk "length" "data"
  | "read64_le" => (vA (g "p")).length ≥ 8
  | "read32_le" => (vA (g "p")).length ≥ 4
  | "bloom_filter_block_insert" | "bloom_filter_block_check" => (vA (g "block")).length ≥ 8
  | "crc32_slicing_by_8" | "carquet_crc32_update" | "carquet_crc32" =>
    vN (g "crc32_tables_initialized") == 0 && (vA (g "crc32_tables")).length == 2048 && lenOk "length" "data"
  | "crc32_init_tables" => vN (g "crc32_tables_initialized") == 0 && (vA (g "crc32_tables")).length == 2048
  | "carquet_decode_varint32" | "carquet_decode_varint64" => lenOk "len" "p"
  | "carquet_encode_varint32" => (Impl.Varint.writeVarint32 (vN (g "v"))).length ≤ (vA (g "p")).length
  | "carquet_encode_varint64" => (Impl.Varint.writeVarint64 (vN (g "v"))).length ≤ (vA (g "p")).length
  | "rle_read_varint" => lenOk "size" "data" && vN (g "pos") ≤ (vA (g "data")).length
  | "read_uleb128" => lenOk "size" "data"
  | "stats_compare_int32" | "rstats_compare_int32" => (vA (g "a")).length ≥ 4 && (vA (g "b")).length ≥ 4
  | "stats_compare_int64" | "rstats_compare_int64" => (vA (g "a")).length ≥ 8 && (vA (g "b")).length ≥ 8
  | "stats_compare_int96" | "rstats_compare_int96" => (vA (g "a")).length ≥ 12 && (vA (g "b")).length ≥ 12
  | "stats_compare_boolean" | "rstats_compare_boolean" => (vA (g "a")).length ≥ 1 && (vA (g "b")).length ≥ 1
  | "carquet_bitunpack8_3bit" => (vA (g "input")).length ≥ 3 && (vA (g "values")).length ≥ 8
  | "snappy_read_varint" => vN (g "end_") == (vA (g "p")).length
  | _ => false

/-! ### BEGIN cfunb: value side (`modelLinkB`) and definedness claims (`definedClaimB`) of the link theorems of the second
batch of stage-2 functions (lean/Carquet/Properties/Cnn/CFunB.lean), in executable form -/

def wordsOf (w : Nat) (v : Val) : List (BitVec w) := (vA v).map (BitVec.ofNat w)

/-- the `n` little-endian `k`-byte values a byte array holds (how the caller reads a `float*` / `double*` result) -/
def valuesOfD (k n : Nat) (bytes : List UInt8) : List (BitVec (8 * k)) :=
  (List.range n).map fun i => Spec.Kernels.leValue k ((List.range k).map fun b => bytes.getD (i * k + b) 0)

def natsOf {w : Nat} (xs : List (BitVec w)) : Val := Val.a (xs.map (·.toNat))
def natsOf8 (xs : List UInt8) : Val := Val.a (xs.map (·.toNat))

/-- a `count` argument that is the (non-negative, below 2^63) length `n` -/
def cntIs (v : Val) (n : Nat) : Bool := vN v == n && n < 2 ^ 63

open Impl.Simd in
def modelLinkB (f : String) (g : String → Val) (r : List Val) : Option Bool :=
  match f with
  | "scalar_prefix_sum_i32" =>
    let vs := wordsOf 32 (g "values")
    if cntIs (g "count") vs.length then some (r == [natsOf (scalarPrefixSum (BitVec.ofNat 32 (vN (g "initial"))) vs)]) else none
  | "scalar_prefix_sum_i64" =>
    let vs := wordsOf 64 (g "values")
    if cntIs (g "count") vs.length then some (r == [natsOf (scalarPrefixSum (BitVec.ofNat 64 (vN (g "initial"))) vs)]) else none
  | "scalar_gather_i32" | "scalar_gather_float" =>
    let idx := wordsOf 32 (g "indices")
    if cntIs (g "count") idx.length && (vA (g "output")).length == idx.length then
      some (match scalarGather (memOf (wordsOf 32 (g "dict"))) idx with
        | some m => r == [natsOf m]
        | none => false)      -- the C function was executed (`_defined` held) although the model refuses
    else none
  | "scalar_gather_i64" | "scalar_gather_double" =>
    let idx := wordsOf 32 (g "indices")
    if cntIs (g "count") idx.length && (vA (g "output")).length == idx.length then
      some (match scalarGather (memOf (wordsOf 64 (g "dict"))) idx with
        | some m => r == [natsOf m]
        | none => false)
    else none
  | "scalar_byte_split_encode_float" =>
    let src := vBytes (g "values")
    let n := vN (g "count")
    if src.length == 4 * n && (vA (g "output")).length == 4 * n && 4 * n + 8 < 2 ^ 63 then
      some (r == [natsOf8 (scalarBssEncodeFloat (valuesOfD 4 n src))]) else none
  | "scalar_byte_split_encode_double" =>
    let src := vBytes (g "values")
    let n := vN (g "count")
    if src.length == 8 * n && (vA (g "output")).length == 8 * n && 8 * n + 8 < 2 ^ 63 then
      some (r == [natsOf8 (scalarBssEncodeDouble (valuesOfD 8 n src))]) else none
  | "scalar_byte_split_decode_float" =>
    let data := vBytes (g "data")
    let n := vN (g "count")
    if data.length == 4 * n && (vA (g "values")).length == 4 * n && 4 * n + 8 < 2 ^ 63 then
      some (match r with
        | [out] => scalarBssDecodeFloat n data == some (valuesOfD 4 n (vBytes out))
        | _ => false) else none
  | "scalar_byte_split_decode_double" =>
    let data := vBytes (g "data")
    let n := vN (g "count")
    if data.length == 8 * n && (vA (g "values")).length == 8 * n && 8 * n + 8 < 2 ^ 63 then
      some (match r with
        | [out] => scalarBssDecodeDouble n data == some (valuesOfD 8 n (vBytes out))
        | _ => false) else none
  | "scalar_unpack_bools" =>
    let n := (vA (g "output")).length
    if cntIs (g "count") n && n < 2 ^ 34 then
      some (match scalarUnpackBools (vBytes (g "input")) n with
        | some m => r == [natsOf8 m]
        | none => false)
    else none
  | "scalar_pack_bools" =>
    let xs := vBytes (g "input")
    if cntIs (g "count") xs.length && (vA (g "output")).length == (xs.length + 7) / 8 then
      some (r == [natsOf8 (scalarPackBools xs)]) else none
  | "scalar_find_run_length_i32" =>
    let vs := wordsOf 32 (g "values")
    if cntIs (g "count") vs.length then some (r == [Val.n (scalarFindRunLength vs)]) else none
  | "scalar_crc32c" =>
    let data := vBytes (g "data")
    if vN (g "len") == data.length then
      some (r == [Val.n (scalarCrc32c Gen.Dispatch.crc32cTable (BitVec.ofNat 32 (vN (g "crc"))) data).toNat]) else none
  | "scalar_match_copy" =>
    let buf := vBytes (g "src")
    let dst := vN (g "dst")
    let len := vN (g "len")
    if 0 < dst && vN (g "offset") == dst && dst + len ≤ buf.length then
      let window := buf.take dst
      some (r == [natsOf8 (window ++ scalarMatchCopy window len ++ buf.drop (dst + len))]) else none
  | "scalar_match_length" =>
    let buf := vBytes (g "match_")
    if vN (g "limit") == buf.length && vN (g "p") ≤ buf.length then
      some (r == [Val.n (scalarMatchLength buf (vN (g "p")))]) else none
  | "scalar_count_non_nulls" =>
    let ls := wordsOf 16 (g "def_levels")
    if cntIs (g "count") ls.length then
      some (r == [Val.n (scalarCountNonNulls ls (BitVec.ofNat 16 (vN (g "max_def_level"))))]) else none
  | "scalar_build_null_bitmap" =>
    let ls := wordsOf 16 (g "def_levels")
    if cntIs (g "count") ls.length && (vA (g "null_bitmap")).length == (ls.length + 7) / 8 then
      some (r == [natsOf8 (scalarBuildNullBitmap ls (BitVec.ofNat 16 (vN (g "max_def_level"))))]) else none
  | "scalar_fill_def_levels" =>
    let ls := wordsOf 16 (g "def_levels")
    if cntIs (g "count") ls.length then
      some (r == [natsOf (scalarFillDefLevels ls (BitVec.ofNat 16 (vN (g "value"))))]) else none
  | "carquet_byte_stream_split_encode" =>
    let values := vBytes (g "values")
    let out := vBytes (g "output")
    let n := vN (g "count")
    let k := sInt 32 (vN (g "type_length"))
    let cap := vN (g "output_capacity")
    if k ≤ 0 then some (r == [Val.n 1, g "output", g "bytes_written"])
    else if k < 2 ^ 30 && n < 2 ^ 63 && n * k.toNat < 2 ^ 63 && cap < n * k.toNat then
      some (r == [Val.n 41, g "output", g "bytes_written"])
    else if k < 2 ^ 30 && values.length == n * k.toNat && out.length == n * k.toNat && n * k.toNat + k.toNat + n < 2 ^ 63 then
      some (match Impl.Bss.encode values (n : Int) k cap with
        | .ok L => r == [Val.n 0, natsOf8 L, Val.n L.length]
        | _ => false)
    else none
  | "carquet_byte_stream_split_decode" =>
    let data := vBytes (g "data")
    let out := vBytes (g "values")
    let n := vN (g "count")
    let k := sInt 32 (vN (g "type_length"))
    if k ≤ 0 then some (r == [Val.n 1, g "values"])
    else if vN (g "data_size") != data.length then none
    else if k < 2 ^ 30 && n < 2 ^ 63 && n * k.toNat < 2 ^ 63 && data.length < n * k.toNat then some (r == [Val.n 40, g "values"])
    else if k < 2 ^ 30 && k.toNat * n ≤ data.length && out.length == k.toNat * n && k.toNat * n + k.toNat + n < 2 ^ 63 then
      some (match Impl.Bss.decode data k (n : Int) with
        | .ok L => r == [Val.n 0, natsOf8 L]
        | _ => false)
    else none
  | "carquet_decode_plain_fixed_byte_array" =>
    let input := vBytes (g "input")
    let out := vBytes (g "output")
    if vN (g "input_size") != input.length then none
    else match Impl.Plain.decodeFlba input (sInt 64 (vN (g "count"))) (sInt 32 (vN (g "fixed_len"))) with
      | .ok vals c => if c ≤ out.length then some (r == [Val.n c, natsOf8 (vals ++ out.drop c)]) else none
      | .err => some (r == [Val.n (2 ^ 64 - 1), g "output"])
      | .oob => none
  | "carquet_decode_plain_boolean" =>
    let input := vBytes (g "input")
    let out := vBytes (g "output")
    if vN (g "input_size") != input.length || !cntIs (g "count") out.length || out.length ≥ 2 ^ 62 then none
    else match Impl.Plain.decodeBoolean input (out.length : Int) with
      | .ok vals c => some (r == [Val.n c, natsOf8 vals])
      | .err => some (r == [Val.n (2 ^ 64 - 1), g "output"])
      | .oob => some false
  | "dict_hash" =>
    let data := vBytes (g "data")
    if vN (g "size") == data.length then some (r == [Val.n (Impl.Dictionary.dictHash data).toNat]) else none
  | "write_uleb128" =>
    let data := vBytes (g "data")
    let w := Impl.Delta.writeUleb128 (BitVec.ofNat 64 (vN (g "value")))
    if w.length ≤ data.length then some (r == [Val.n w.length, natsOf8 (w ++ data.drop w.length)]) else none
  | "common_prefix_length" =>
    let a := vBytes (g "a")
    let b := vBytes (g "b")
    if vN (g "a_len") == a.length && vN (g "b_len") == b.length && a.length < 2 ^ 31 && b.length < 2 ^ 31 then
      some (r == [Val.n (Impl.DeltaStrings.commonPrefixLength a b)]) else none
  | "snappy_write_varint" =>
    let p := vBytes (g "p")
    let w := Impl.Snappy.writeVarint 4 (vN (g "value"))
    if w.length ≤ p.length then some (r == [Val.n w.length, natsOf8 (w ++ p.drop w.length)]) else none
  | "snappy_read32" | "lz4_read32" =>
    let p := vBytes (g "p")
    if 4 ≤ p.length then some (r == [Val.n (Impl.Lz4.read32 p.toArray 0)]) else none
  -- bitunpack_wide / bitpack_wide: translated and self-checked, no link theorem yet (NOTES_cfunb.md); sampled comparison with
  -- the model only
  | "bitunpack_wide" =>
    let input := vBytes (g "input")
    let n := (vA (g "values")).length
    let w := vN (g "bit_width")
    if vN (g "count") == n && 1 ≤ w && w ≤ 64 && (n * w + 7) / 8 ≤ input.length then
      some (r == [natsOf (Impl.Delta.unpackBits w n input)]) else none
  | "bitpack_wide" =>
    let vals := wordsOf 64 (g "values")
    let w := vN (g "bit_width")
    let out := vBytes (g "output")
    if vN (g "count") == vals.length && 1 ≤ w && w ≤ 64 && out.length == (vals.length * w + 7) / 8 then
      some (r == [Val.n out.length, natsOf8 (Impl.Delta.packBits w vals)]) else none
  | "lz4_count" =>
    let buf := vBytes (g "match_")
    let p := vN (g "p")
    let lim := vN (g "limit")
    if p ≤ lim && lim ≤ buf.length && 7 ≤ lim then some (r == [Val.n (Impl.Lz4.count buf.toArray p 0 lim)]) else none
  | "snappy_emit_literal" =>
    let op := vBytes (g "op")
    let lit := vBytes (g "literal")
    let len := vN (g "len")
    let hdr := Impl.Snappy.literalHeader len
    if 0 < len && len ≤ lit.length && hdr.length + len ≤ op.length then
      some (r == [Val.n (hdr.length + len), natsOf8 (hdr ++ lit.take len ++ op.drop (hdr.length + len))]) else none
  | "snappy_emit_copy" =>
    let op := vBytes (g "op")
    let off := vN (g "offset")
    let len := vN (g "len")
    if 4 ≤ len && len < 2 ^ 20 then          -- the theorem covers len < 2^61; the model recurses len / 64 deep
      let w := Impl.Snappy.copyBytes off len
      if w.length ≤ op.length then some (r == [Val.n w.length, natsOf8 (w ++ op.drop w.length)]) else none
    else none
  | _ => none

open Impl.Simd in
/-- the hypotheses of the `…_defined` link theorem hold AND the theorem says `_defined = true` there -/
def definedClaimB (f : String) (g : String → Val) : Bool :=
  let len := fun (nm : String) => (vA (g nm)).length
  match f with
  | "scalar_prefix_sum_i32" | "scalar_prefix_sum_i64" => cntIs (g "count") (len "values")
  | "scalar_gather_i32" | "scalar_gather_float" =>
    cntIs (g "count") (len "indices") && len "output" == len "indices" &&
      (scalarGather (memOf (wordsOf 32 (g "dict"))) (wordsOf 32 (g "indices"))).isSome
  | "scalar_gather_i64" | "scalar_gather_double" =>
    cntIs (g "count") (len "indices") && len "output" == len "indices" &&
      (scalarGather (memOf (wordsOf 64 (g "dict"))) (wordsOf 32 (g "indices"))).isSome
  | "scalar_byte_split_encode_float" =>
    len "values" == 4 * vN (g "count") && len "output" == 4 * vN (g "count") && 4 * vN (g "count") + 8 < 2 ^ 63
  | "scalar_byte_split_encode_double" =>
    len "values" == 8 * vN (g "count") && len "output" == 8 * vN (g "count") && 8 * vN (g "count") + 8 < 2 ^ 63
  | "scalar_byte_split_decode_float" =>
    len "data" == 4 * vN (g "count") && len "values" == 4 * vN (g "count") && 4 * vN (g "count") + 8 < 2 ^ 63
  | "scalar_byte_split_decode_double" =>
    len "data" == 8 * vN (g "count") && len "values" == 8 * vN (g "count") && 8 * vN (g "count") + 8 < 2 ^ 63
  | "scalar_unpack_bools" =>
    cntIs (g "count") (len "output") && len "output" < 2 ^ 34 && len "output" ≤ 8 * len "input"
  | "scalar_pack_bools" => cntIs (g "count") (len "input") && len "output" == (len "input" + 7) / 8
  | "scalar_find_run_length_i32" => cntIs (g "count") (len "values")
  | "scalar_crc32c" => vN (g "len") == len "data"
  | "scalar_match_copy" => 0 < vN (g "dst") && vN (g "offset") == vN (g "dst") && vN (g "dst") + vN (g "len") ≤ len "src"
  | "scalar_match_length" => vN (g "limit") == len "match_" && vN (g "p") ≤ len "match_"
  | "scalar_count_non_nulls" | "scalar_fill_def_levels" => cntIs (g "count") (len "def_levels")
  | "scalar_build_null_bitmap" => cntIs (g "count") (len "def_levels") && len "null_bitmap" == (len "def_levels" + 7) / 8
  | "carquet_byte_stream_split_encode" =>
    let n := vN (g "count")
    let k := sInt 32 (vN (g "type_length"))
    k ≤ 0 || (k < 2 ^ 30 && n < 2 ^ 63 && n * k.toNat < 2 ^ 63 && vN (g "output_capacity") < n * k.toNat) ||
      (k < 2 ^ 30 && len "values" == n * k.toNat && len "output" == n * k.toNat && n * k.toNat + k.toNat + n < 2 ^ 63)
  | "carquet_byte_stream_split_decode" =>
    -- C08: any input whose true size is `data_size`
    let n := vN (g "count")
    let k := sInt 32 (vN (g "type_length"))
    k ≤ 0 || (vN (g "data_size") == len "data" && k < 2 ^ 30 && len "values" == k.toNat * n && k.toNat * n + k.toNat + n < 2 ^ 63)
  | "carquet_decode_plain_fixed_byte_array" =>
    vN (g "input_size") == len "input" &&
      (match Impl.Plain.decodeFlba (vBytes (g "input")) (sInt 64 (vN (g "count"))) (sInt 32 (vN (g "fixed_len"))) with
       | .ok _ c => c ≤ len "output"
       | .err => true
       | .oob => false)
  | "carquet_decode_plain_boolean" =>
    vN (g "input_size") == len "input" && cntIs (g "count") (len "output") && len "output" < 2 ^ 62
  | "dict_hash" => vN (g "size") == len "data"
  | "write_uleb128" => (Impl.Delta.writeUleb128 (BitVec.ofNat 64 (vN (g "value")))).length ≤ len "data"
  | "common_prefix_length" =>
    vN (g "a_len") == len "a" && vN (g "b_len") == len "b" && len "a" < 2 ^ 31 && len "b" < 2 ^ 31
  | "snappy_write_varint" => (Impl.Snappy.writeVarint 4 (vN (g "value"))).length ≤ len "p"
  | "snappy_read32" | "lz4_read32" => 4 ≤ len "p"
  | "lz4_count" => vN (g "p") ≤ vN (g "limit") && vN (g "limit") ≤ len "match_" && 7 ≤ vN (g "limit")
  | "snappy_emit_literal" =>
    let l := vN (g "len")
    0 < l && l ≤ len "literal" && (Impl.Snappy.literalHeader l).length + l ≤ len "op"
  | "snappy_emit_copy" =>
    let l := vN (g "len")
    4 ≤ l && l < 2 ^ 20 && (Impl.Snappy.copyBytes (vN (g "offset")) l).length ≤ len "op"
  | _ => false
/-! ### END cfunb -/

def handle2 (l : Line) : Verdict :=
  match l.inStr "f", l.inNat "d" with
  | some f, some d =>
    match Gen.CFun.table2.find? (·.name == f) with
    | none => .bad s!"cfun2: unknown function {f}"
    | some e =>
      match allSome (e.args.zipIdx.map (fun p => parseVal p.1.2 (l.inStr s!"a{p.2}"))) with
      | none => .bad s!"cfun2: {f}: bad arguments"
      | some a =>
        match e.eval a with
        | none => .bad s!"cfun2: {f} takes {e.args.length} arguments"
        | some (v, df) =>
          if l.outStr "missing" == some "1" then verdict [("c_wrapper_exists", false)] []
          else if d == 1 then
            match allSome (e.outs.zipIdx.map (fun p => parseVal p.1.2 (l.outStr s!"r{p.2}"))) with
            | some r =>
              let kv := (e.args.map (·.1)).zip a
              let gk := fun k => ((kv.find? (·.1 == k)).map (·.2)).getD (Val.n 0)
              let link := match modelLink2 e.name gk r with
                | some b => [("model_link_" ++ e.name, b)]
                | none => match modelLinkB e.name gk r with          -- cfunb
                  | some b => [("model_link_" ++ e.name, b)]
                  | none => []
              verdict ([("defined_flag", df), ("cfun_value", v == r),
                        ("no_ubsan_report_when_defined", (l.outNat "ub").getD 0 == 0)]) link
            | none => .bad "cfun2: d=1 but results missing"
          else
            let kv := (e.args.map (·.1)).zip a
            let gk := fun k => ((kv.find? (·.1 == k)).map (·.2)).getD (Val.n 0)
            let claim := definedClaim e.name gk || definedClaimB e.name gk          -- cfunb
            verdict [("defined_flag", !df)] (if claim then [("model_link_defined_" ++ e.name, false)] else [])
  | _, _ => .bad "cfun2 args"

/-! ### stage 3 (`cfun3`): struct arguments travel as the list of their leaf values -/

/-- the model side of the link theorem of a stage-3 function (lean/Carquet/Properties/Cnn/Impl.CFun3.lean), evaluated inside
the theorem's hypotheses on the arguments `g` (by parameter name; a struct is the `Val.a` of its leaves) and compared with
the results `r` of the real C function; `none`: outside the hypotheses / no executable model -/
def modelLink3 (f : String) (g : String → Val) (r : List Val) : Option Bool :=
  let rd := Gen.CFun.carquet_bit_reader_t.ofLeaves
  let wr := Gen.CFun.carquet_bit_writer_t.ofLeaves
  let br := Gen.CFun.carquet_buffer_reader_t.ofLeaves
  let rA := fun (i : Nat) => vA (r.getD i (Val.n 0))
  let rN := fun (i : Nat) => vN (r.getD i (Val.n 0))
  let nonneg32 := fun (nm : String) => vN (g nm) < 2 ^ 31
  match f with
  -- A. bit reader (C11_cfun_bit_reader_*, C11_cfun_refill_buffer)
  | "carquet_bit_reader_init" =>
    let data := vBytes (g "data")
    if vN (g "size") == data.length then
      some (Impl.CFun3.rdAbs (rd (rA 0)) data == Impl.BitIO.Reader.init data && Impl.CFun3.rdInv (rd (rA 0)) data) else none
  | "refill_buffer" =>
    let data := vBytes (g "reader_data")
    let s := rd (vA (g "reader"))
    if Impl.CFun3.rdInv s data then
      some (Impl.CFun3.rdAbs (rd (rA 0)) data == (Impl.BitIO.refill (Impl.CFun3.rdAbs s data)).1 && Impl.CFun3.rdInv (rd (rA 0)) data) else none
  | "carquet_bit_reader_read_bit" =>
    let data := vBytes (g "reader_data")
    let s := rd (vA (g "reader"))
    if Impl.CFun3.rdInv s data then
      let m := Impl.BitIO.readBit (Impl.CFun3.rdAbs s data)
      some (sInt 32 (rN 0) == m.1 && Impl.CFun3.rdAbs (rd (rA 1)) data == m.2.1 && Impl.CFun3.rdInv (rd (rA 1)) data) else none
  | "carquet_bit_reader_read_bits" =>
    let data := vBytes (g "reader_data")
    let s := rd (vA (g "reader"))
    if Impl.CFun3.rdInv s data && nonneg32 "num_bits" then
      let m := Impl.BitIO.readBits (Impl.CFun3.rdAbs s data) (vN (g "num_bits"))
      some (rN 0 == m.1 && Impl.CFun3.rdAbs (rd (rA 1)) data == m.2.1 && Impl.CFun3.rdInv (rd (rA 1)) data) else none
  | "carquet_bit_reader_read_bits64" =>
    let data := vBytes (g "reader_data")
    let s := rd (vA (g "reader"))
    if Impl.CFun3.rdInv s data && nonneg32 "num_bits" then
      let m := Impl.BitIO.readBits64 (Impl.CFun3.rdAbs s data) (vN (g "num_bits"))
      some (rN 0 == m.1 && Impl.CFun3.rdAbs (rd (rA 1)) data == m.2.1 && Impl.CFun3.rdInv (rd (rA 1)) data) else none
  | "carquet_bit_reader_has_more" =>
    let s := rd (vA (g "reader"))
    -- the data array is not an argument: any array of the right length stands for it
    if s.data == 0 && s.byte_pos.toNat ≤ s.size.toNat && s.size.toNat ≤ 100000 && s.buffer_bits.toNat ≤ 64 then
      some (rN 0 == b2n (Impl.BitIO.hasMore (Impl.CFun3.rdAbs s (List.replicate (if s.size.toNat ≤ 100000 then s.size.toNat else 0) 0)))) else none
  | "carquet_bit_reader_remaining_bits" =>
    let s := rd (vA (g "reader"))
    if s.data == 0 && s.byte_pos.toNat ≤ s.size.toNat && s.size.toNat ≤ 100000 && s.buffer_bits.toNat ≤ 64 then
      some (rN 0 == Impl.BitIO.remainingBits (Impl.CFun3.rdAbs s (List.replicate (if s.size.toNat ≤ 100000 then s.size.toNat else 0) 0))) else none
  -- A. bit writer (C11_cfun_bit_writer_*, C11_cfun_flush_buffer)
  | "carquet_bit_writer_init" =>
    let data := vBytes (g "data")
    if vN (g "capacity") ≤ data.length then
      some (Impl.CFun3.wrAbs (wr (rA 0)) (rA 1 |>.map UInt8.ofNat) == Impl.BitIO.Writer.init (vN (g "capacity")) &&
            Impl.CFun3.wrInv (wr (rA 0)) (rA 1 |>.map UInt8.ofNat) && rA 1 == vA (g "data")) else none
  | "flush_buffer" | "carquet_bit_writer_write_bit" | "carquet_bit_writer_write_bits" | "carquet_bit_writer_write_bits64"
  | "carquet_bit_writer_flush" =>
    let data := vBytes (g "writer_data")
    let s := wr (vA (g "writer"))
    let pre := if f == "flush_buffer" then Impl.CFun3.wrFlushInv s data
               else Impl.CFun3.wrInv s data && (f == "carquet_bit_writer_write_bit" || f == "carquet_bit_writer_flush" || nonneg32 "num_bits")
    if pre then
      let w := Impl.CFun3.wrAbs s data
      let m := if f == "flush_buffer" then Impl.BitIO.flushBuffer w
               else if f == "carquet_bit_writer_write_bit" then Impl.BitIO.writeBit w (vN (g "bit"))
               else if f == "carquet_bit_writer_write_bits" then Impl.BitIO.writeBits w (vN (g "value")) (vN (g "num_bits"))
               else if f == "carquet_bit_writer_write_bits64" then Impl.BitIO.writeBits64 w (vN (g "value")) (vN (g "num_bits"))
               else Impl.BitIO.flush w
      let s' := wr (rA 0)
      let data' := (rA 1).map UInt8.ofNat
      some (Impl.CFun3.wrAbs s' data' == m && Impl.CFun3.wrInv s' data' && data'.length == data.length &&
            data'.drop s'.byte_pos.toNat == data.drop s'.byte_pos.toNat) else none
  | "carquet_bit_writer_bytes_written" =>
    let s := wr (vA (g "writer"))
    some (rN 0 == s.byte_pos.toNat)
  -- B. buffer read cursor (C08_cfun_buffer_reader_*)
  | "carquet_buffer_reader_init_data" =>
    let data := vBytes (g "data")
    if Impl.CFun3.brInitPre data (BitVec.ofNat 64 (vN (g "size"))) then
      some (Impl.CFun3.brAbs (br (rA 0)) data == Impl.BufferReader.init data && Impl.CFun3.brInv (br (rA 0)) data) else none
  | "carquet_buffer_reader_skip" =>
    let s := br (vA (g "reader"))
    if s.data == 0 && s.pos.toNat ≤ s.size.toNat && s.size.toNat ≤ 100000 then
      let data := List.replicate (if s.size.toNat ≤ 100000 then s.size.toNat else 0) (0 : UInt8)
      let m := Impl.BufferReader.step true (Impl.CFun3.brAbs s data) (.skip (vN (g "size")))
      some (Impl.CFun3.brAbs (br (rA 1)) data == m.next && Impl.CFun3.stObs (BitVec.ofNat 32 (rN 0)) == m.obs) else none
  | "carquet_buffer_reader_read" =>
    let data := vBytes (g "reader_data")
    let s := br (vA (g "reader"))
    if Impl.CFun3.brInv s data then
      let n := vN (g "size")
      let m := Impl.BufferReader.step true (Impl.CFun3.brAbs s data) (.read n)
      some (Impl.CFun3.brAbs (br (rA 1)) data == m.next &&
            Impl.CFun3.bytesObs (BitVec.ofNat 32 (rN 0)) ((rA 2).map UInt8.ofNat) n == m.obs &&
            (rA 2).drop n == (vA (g "dest")).drop n) else none
  | "carquet_buffer_reader_read_byte" | "carquet_buffer_reader_read_u16_le" | "carquet_buffer_reader_read_u32_le"
  | "carquet_buffer_reader_read_u64_le" =>
    let data := vBytes (g "reader_data")
    let s := br (vA (g "reader"))
    if Impl.CFun3.brInv s data then
      let op : Impl.BufferReader.Op := if f == "carquet_buffer_reader_read_byte" then .readByte
        else if f == "carquet_buffer_reader_read_u16_le" then .readU16
        else if f == "carquet_buffer_reader_read_u32_le" then .readU32 else .readU64
      let m := Impl.BufferReader.step true (Impl.CFun3.brAbs s data) op
      some (Impl.CFun3.brAbs (br (rA 1)) data == m.next && Impl.CFun3.valObs (BitVec.ofNat 32 (rN 0)) (rN 2) == m.obs &&
            (rN 0 == 0 || (r.getD 2 (Val.n 0)) == g "value")) else none
  -- D. carquet_bitunpack_32 (C11_cfun_bitunpack_32)
  | "carquet_bitunpack_32" =>
    let input := vBytes (g "input")
    let w := vN (g "bit_width")
    let count := vN (g "count")
    if w ≤ 32 && count < 2 ^ 61 && count ≤ (vA (g "values")).length && (vA (g "temp_indet")).length == 8 &&
       (Impl.Bitpack.unpack w input count).2 ≤ input.length then
      some (rN 0 == (Impl.Bitpack.unpack w input count).2 &&
            rA 1 == (Impl.Bitpack.unpack w input count).1 ++ (vA (g "values")).drop count) else none
  -- E. RLE decoder pieces (C11_cfun_rle_decoder_*, C11_cfun_fill_bitpack_buffer): the untouched C fields in_rle_run / rle_value as false / 0
  | "carquet_rle_decoder_init" =>
    let data := vBytes (g "data")
    if vN (g "size") == data.length then
      let s' := Gen.CFun.carquet_rle_decoder_t.ofLeaves (rA 0)
      some (Impl.CFun3.rleAbs false 0 s' data == Impl.Rle.Dec.init (vN (g "bit_width")) data && Impl.CFun3.rleInv s' data) else none
  | "carquet_rle_decoder_has_next" =>
    let s := Gen.CFun.carquet_rle_decoder_t.ofLeaves (vA (g "dec"))
    let data := List.replicate (if s.size.toNat ≤ 100000 then s.size.toNat else 0) (0 : UInt8)
    if s.size.toNat ≤ 100000 && Impl.CFun3.rleInv s data then
      some (rN 0 == b2n (Impl.Rle.hasNext (Impl.CFun3.rleAbs false 0 s data))) else none
  | "fill_bitpack_buffer" =>
    let s := Gen.CFun.carquet_rle_decoder_t.ofLeaves (vA (g "dec"))
    let data := vBytes (g "dec_data")
    if Impl.CFun3.rleInv s data && s.status == 0#32 then
      let m := Impl.Rle.fill (Impl.CFun3.rleAbs false 0 s data)
      let s' := Gen.CFun.carquet_rle_decoder_t.ofLeaves (rA 1)
      some (rN 0 == b2n m.1 && Impl.CFun3.rleAbs false 0 s' data == m.2 && Impl.CFun3.rleInv s' data) else none
  -- C. Thrift compact decoder primitives (C13_cfun_*): ghost fields overlay = false, budget = 0
  | "set_error" =>
    let s := Gen.CFun.thrift_decoder_t.ofLeaves (vA (g "dec"))
    -- the data array is not an argument; the latch does not look at it
    let data := List.replicate (if s.reader.size.toNat ≤ 100000 then s.reader.size.toNat else 0) (0 : UInt8)
    (match [Impl.Thrift.Err.invalidArgument, .oom, .invalidMetadata, .decode, .encode, .invalidType, .truncated].find?
            (fun e => e.code == vN (g "status")) with
     | some e =>
       if s.reader.size.toNat ≤ 100000 && Impl.CFun3.decInv s data then
         some (Impl.CFun3.decAbs false 0 (Gen.CFun.thrift_decoder_t.ofLeaves (rA 0)) data ==
                 (Impl.CFun3.decAbs false 0 s data).setError e) else none
     | none => none)
  | "thrift_read_struct_begin" | "thrift_read_struct_end" =>
    let s := Gen.CFun.thrift_decoder_t.ofLeaves (vA (g "dec"))
    let data := List.replicate (if s.reader.size.toNat ≤ 100000 then s.reader.size.toNat else 0) (0 : UInt8)
    if s.reader.size.toNat ≤ 100000 && Impl.CFun3.decInv s data then
      let d := Impl.CFun3.decAbs false 0 s data
      let s' := Gen.CFun.thrift_decoder_t.ofLeaves (rA 0)
      some (Impl.CFun3.decAbs false 0 s' data == (if f == "thrift_read_struct_begin" then Impl.Thrift.structBegin d else Impl.Thrift.structEnd d)
            && Impl.CFun3.decInv s' data) else none
  | "read_byte_raw" | "thrift_read_varint" | "thrift_read_zigzag" | "thrift_read_byte" | "thrift_read_i16" | "thrift_read_i32"
  | "thrift_read_i64" | "thrift_read_bool" =>
    let s := Gen.CFun.thrift_decoder_t.ofLeaves (vA (g "dec"))
    let data := vBytes (g "dec_reader_data")
    if Impl.CFun3.decInv s data then
      let d := Impl.CFun3.decAbs false 0 s data
      let s' := Gen.CFun.thrift_decoder_t.ofLeaves (rA 1)
      let st := Impl.CFun3.decAbs false 0 s' data
      some (Impl.CFun3.decInv s' data &&
        (match f with
         | "read_byte_raw" => rN 0 == (Impl.Thrift.readByteRaw d).1.toNat && st == (Impl.Thrift.readByteRaw d).2
         | "thrift_read_varint" => rN 0 == (Impl.Thrift.readVarint d).1 && st == (Impl.Thrift.readVarint d).2
         | "thrift_read_zigzag" => sInt 64 (rN 0) == (Impl.Thrift.readZigzag d).1 && st == (Impl.Thrift.readZigzag d).2
         | "thrift_read_byte" => sInt 8 (rN 0) == (Impl.Thrift.readI8 d).1 && st == (Impl.Thrift.readI8 d).2
         | "thrift_read_i16" => sInt 16 (rN 0) == (Impl.Thrift.readI16 d).1 && st == (Impl.Thrift.readI16 d).2
         | "thrift_read_i32" => sInt 32 (rN 0) == (Impl.Thrift.readI32 d).1 && st == (Impl.Thrift.readI32 d).2
         | "thrift_read_i64" => sInt 64 (rN 0) == (Impl.Thrift.readI64 d).1 && st == (Impl.Thrift.readI64 d).2
         | _ => rN 0 == b2n (Impl.Thrift.readBool d).1 && st == (Impl.Thrift.readBool d).2)) else none
  | "thrift_read_field_begin" =>
    let s := Gen.CFun.thrift_decoder_t.ofLeaves (vA (g "dec"))
    let data := vBytes (g "dec_reader_data")
    if Impl.CFun3.decInv s data then
      let m := Impl.Thrift.readFieldBegin (Impl.CFun3.decAbs false 0 s data)
      let s' := Gen.CFun.thrift_decoder_t.ofLeaves (rA 1)
      some (Impl.CFun3.decAbs false 0 s' data == m.dec && rN 0 == b2n m.more && rN 2 == m.ty && sInt 16 (rN 3) == m.fid &&
            Impl.CFun3.decInv s' data) else none
  | "thrift_read_list_begin" =>
    let s := Gen.CFun.thrift_decoder_t.ofLeaves (vA (g "dec"))
    let data := vBytes (g "dec_reader_data")
    if Impl.CFun3.decInv s data then
      let m := Impl.Thrift.readListBegin (Impl.CFun3.decAbs false 0 s data)
      let s' := Gen.CFun.thrift_decoder_t.ofLeaves (rA 0)
      some (Impl.CFun3.decAbs false 0 s' data == m.dec && rN 1 == m.elemTy && sInt 32 (rN 2) == m.count &&
            Impl.CFun3.decInv s' data) else none
  | _ => none

/-- the hypotheses of the `…_defined` link theorem of a stage-3 function hold for these arguments: the theorem says the
call is free of undefined behaviour, so a regenerated `_defined = false` here is a concrete input on which the (changed) C
function reads or writes out of bounds / shifts too far / overflows / runs out of fuel -/
def definedClaim3 (f : String) (g : String → Val) : Bool :=
  let rd := Gen.CFun.carquet_bit_reader_t.ofLeaves
  let wr := Gen.CFun.carquet_bit_writer_t.ofLeaves
  let br := Gen.CFun.carquet_buffer_reader_t.ofLeaves
  let nonneg32 := fun (nm : String) => vN (g nm) < 2 ^ 31
  match f with
  | "carquet_bit_reader_init" | "carquet_bit_reader_has_more" | "carquet_bit_reader_remaining_bits"
  | "carquet_bit_writer_init" | "carquet_bit_writer_bytes_written" | "carquet_buffer_reader_init_data"
  | "carquet_buffer_reader_skip" => true
  | "refill_buffer" | "carquet_bit_reader_read_bit" => Impl.CFun3.rdInv (rd (vA (g "reader"))) (vBytes (g "reader_data"))
  | "carquet_bit_reader_read_bits" | "carquet_bit_reader_read_bits64" =>
    Impl.CFun3.rdInv (rd (vA (g "reader"))) (vBytes (g "reader_data")) && nonneg32 "num_bits"
  | "flush_buffer" => Impl.CFun3.wrFlushInv (wr (vA (g "writer"))) (vBytes (g "writer_data"))
  | "carquet_bit_writer_write_bit" | "carquet_bit_writer_flush" => Impl.CFun3.wrInv (wr (vA (g "writer"))) (vBytes (g "writer_data"))
  | "carquet_bit_writer_write_bits" | "carquet_bit_writer_write_bits64" =>
    Impl.CFun3.wrInv (wr (vA (g "writer"))) (vBytes (g "writer_data")) && nonneg32 "num_bits"
  | "carquet_buffer_reader_read" =>
    Impl.CFun3.brInv (br (vA (g "reader"))) (vBytes (g "reader_data")) && vN (g "size") ≤ (vA (g "dest")).length
  | "carquet_buffer_reader_read_byte" | "carquet_buffer_reader_read_u16_le" | "carquet_buffer_reader_read_u32_le"
  | "carquet_buffer_reader_read_u64_le" => Impl.CFun3.brInv (br (vA (g "reader"))) (vBytes (g "reader_data"))
  | "carquet_bitunpack_32" =>
    vN (g "bit_width") ≤ 32 && vN (g "count") < 2 ^ 61 && vN (g "count") ≤ (vA (g "values")).length &&
    (vA (g "temp_indet")).length == 8 &&
    (Impl.Bitpack.unpack (vN (g "bit_width")) (vBytes (g "input")) (vN (g "count"))).2 ≤ (vA (g "input")).length
  | "carquet_rle_decoder_has_next" => true
  | "carquet_rle_decoder_init" => vN (g "size") == (vA (g "data")).length
  | "fill_bitpack_buffer" =>
    let s := Gen.CFun.carquet_rle_decoder_t.ofLeaves (vA (g "dec"))
    Impl.CFun3.rleInv s (vBytes (g "dec_data")) && s.status == 0#32
  | "set_error" => true
  | "read_byte_raw" | "thrift_read_varint" | "thrift_read_zigzag" | "thrift_read_byte" | "thrift_read_i16" | "thrift_read_i32"
  | "thrift_read_i64" | "thrift_read_bool" | "thrift_read_field_begin" | "thrift_read_list_begin" =>
    Impl.CFun3.decInv (Gen.CFun.thrift_decoder_t.ofLeaves (vA (g "dec"))) (vBytes (g "dec_reader_data"))
  | "thrift_read_struct_begin" | "thrift_read_struct_end" =>
    let s := Gen.CFun.thrift_decoder_t.ofLeaves (vA (g "dec"))
    s.reader.size.toNat ≤ 100000 && Impl.CFun3.decInv s (List.replicate (if s.reader.size.toNat ≤ 100000 then s.reader.size.toNat else 0) (0 : UInt8))
  | _ => false

def handle3 (l : Line) : Verdict :=
  match l.inStr "f", l.inNat "d" with
  | some f, some d =>
    match Gen.CFun.table3.find? (·.name == f) with
    | none => .bad s!"cfun3: unknown function {f}"
    | some e =>
      match allSome (e.args.zipIdx.map (fun p => parseVal p.1.2 (l.inStr s!"a{p.2}"))) with
      | none => .bad s!"cfun3: {f}: bad arguments"
      | some a =>
        match e.eval a with
        | none => .bad s!"cfun3: {f} takes {e.args.length} arguments"
        | some (v, df) =>
          let kv := (e.args.map (·.1)).zip a
          let g := fun k => ((kv.find? (·.1 == k)).map (·.2)).getD (Val.n 0)
          if l.outStr "missing" == some "1" then verdict [("c_wrapper_exists", false)] []
          else if d == 1 then
            match allSome (e.outs.zipIdx.map (fun p => parseVal p.1.2 (l.outStr s!"r{p.2}"))) with
            | some r =>
              let link := match modelLink3 e.name g r with
                | some b => [("model_link_" ++ e.name, b)]
                | none => []
              verdict ([("defined_flag", df), ("cfun_value", v == r),
                        ("no_ubsan_report_when_defined", (l.outNat "ub").getD 0 == 0)]) link
            | none => .bad "cfun3: d=1 but results missing"
          else
            verdict [("defined_flag", !df)] (if definedClaim3 e.name g then [("model_link_defined_" ++ e.name, false)] else [])
  | _, _ => .bad "cfun3 args"

def handle (l : Line) : Option Verdict :=
  match l.op with
  | "cfun3" => some (handle3 l)
  | "cfun2" => some (handle2 l)
  | "cfun" => some <|
    match l.inStr "f", l.inNats "a", l.inNat "d" with
    | some f, some a, some d =>
      match Gen.CFun.table.find? (·.name == f) with
      | none => .bad s!"cfun: unknown function {f}"
      | some e =>
        match e.eval a with
        | none => .bad s!"cfun: {f} takes {e.args.length} arguments"
        | some (v, df) =>
          if l.outStr "missing" == some "1" then verdict [("c_wrapper_exists", false)] []
          else if d == 1 then
            match l.outNat "r" with
            | some r =>
              verdict [("defined_flag", df), ("cfun_value", v == r),
                       ("no_ubsan_report_when_defined", (l.outNat "ub").getD 0 == 0)] (linkChecks e a r)
            | none => .bad "cfun: d=1 but no r"
          else verdict [("defined_flag", !df)] []
    | _, _, _ => .bad "cfun args"
  | _ => none

end Driver.Ops.CFun
