import Carquet.Util
import Carquet.Spec.Plain
import Carquet.Spec.Bss
import Carquet.Spec.Dictionary
import Carquet.Impl.Plain
import Carquet.Impl.Bss
import Carquet.Impl.Dictionary
/-
Driver ops for C11 / C12 / C08 (PLAIN, BYTE_STREAM_SPLIT, dictionary parts); see harness/ops_plain.c.

  pl_enc   t=<bool|i32|i64|i96|f32|f64|ba|flba> vals=.. [k= count=] | st= bytes=x.. p_rt=
  pl_dec   t= src=<spec|pad|mut|raw|wrap> via= count= [k=] [vals=..] in=x.. | r= out=.. (ba: offs= lens= p_inside=)
  bss_enc  t=<gen|f32|f64> k= count= cap= vals=x.. | st= written= bytes=x.. p_rt= p_tail=
  bss_dec  t= k= count= src= [vals=x..] in=x.. | st= out=x..
  dict_build var= sz= vals=<hex list> | st= idx=.. dict=x.. cnt= bw= chain=
  dict_enc t=<i32|i64|f32|f64|ba> vals=.. | st= dict=x.. ilen= bw= f1= [ndec= idx=..] [p_rt=|rt=]
  dict_dec t= dc= n= note= idx=<values the index stream holds> dict=x.. ind=x.. | st= out=..

modelChecks: the Impl model returns what the real code returned.
propChecks: the property's predicate evaluated with the Spec (independent decoder recovers the
values from carquet's bytes; carquet's decoder agrees with the Spec decoder on this input; the
dictionary is the first-occurrence list, ...).
-/
namespace Driver.Ops.Plain
open Carquet Carquet.Util

def u32s (ns : List Nat) : List UInt32 := ns.map UInt32.ofNat
def u64s (ns : List Nat) : List UInt64 := ns.map UInt64.ofNat

def triples : List Nat → Option (List Impl.Plain.Int96)
  | [] => some []
  | a :: b :: c :: rest => (triples rest).map ((UInt32.ofNat a, UInt32.ofNat b, UInt32.ofNat c) :: ·)
  | _ => none

def untriples (vs : List Impl.Plain.Int96) : List Nat :=
  vs.flatMap (fun v => [v.1.toNat, v.2.1.toNat, v.2.2.toNat])

/-- cut a flat buffer into `k`-byte values -/
def chunks (k : Nat) : Nat → List UInt8 → List (List UInt8)
  | 0, _ => []
  | fuel + 1, bs => if bs.isEmpty || k == 0 then [] else bs.take k :: chunks k fuel (bs.drop k)

def chunksOf (k : Nat) (bs : List UInt8) : List (List UInt8) := chunks k bs.length bs

def inHexList (l : Line) (k : String) : Option (List (List UInt8)) := (l.inStr k).bind (parseList parseHex)

def isPrefix (a b : List UInt8) : Bool := b.take a.length == a

/-! ### PLAIN -/

def plEnc (l : Line) : Verdict :=
  match l.inStr "t", l.outStr "st", l.outHex "bytes" with
  | some t, some st, some bytes =>
    let okst := st == "ok"
    match t with
    | "bool" =>
      match l.inHex "vals" with
      | some vals =>
        let bs := vals.map (fun v => v != 0)
        let allBits := bytes.flatMap Spec.Plain.byteBits
        verdict [("status", okst), ("impl_model", Impl.Plain.encodeBoolean vals == bytes)]
          [("spec_decoder_reads_bytes", Spec.Plain.decodeBool bytes vals.length == some bs),
           ("spec_encoder_same_bytes", Spec.Plain.encodeBool bs == bytes),
           ("size_is_ceil_n_8", bytes.length == (vals.length + 7) / 8),
           ("padding_zero", (allBits.drop vals.length).all (· == false))]
      | none => .bad "pl_enc bool vals"
    | "i32" | "f32" =>
      match l.inNats "vals" with
      | some ns =>
        verdict [("status", okst),
                 ("impl_model", (if t == "i32" then Impl.Plain.encodeInt32 (u32s ns) else Impl.Plain.encodeFloat (u32s ns)) == bytes)]
          [("spec_decoder_reads_bytes", Spec.Plain.decodeFixed 4 ns.length bytes == some (ns, [])),
           ("spec_encoder_same_bytes", Spec.Plain.encodeFixed 4 ns == bytes)]
      | none => .bad "pl_enc 32 vals"
    | "i64" | "f64" =>
      match l.inNats "vals" with
      | some ns =>
        verdict [("status", okst),
                 ("impl_model", (if t == "i64" then Impl.Plain.encodeInt64 (u64s ns) else Impl.Plain.encodeDouble (u64s ns)) == bytes)]
          [("spec_decoder_reads_bytes", Spec.Plain.decodeFixed 8 ns.length bytes == some (ns, [])),
           ("spec_encoder_same_bytes", Spec.Plain.encodeFixed 8 ns == bytes)]
      | none => .bad "pl_enc 64 vals"
    | "i96" =>
      match (l.inNats "vals").bind triples with
      | some vs =>
        let ns := vs.map Impl.Plain.int96ToNat
        verdict [("status", okst), ("impl_model", Impl.Plain.encodeInt96 vs == bytes)]
          [("spec_decoder_reads_bytes", Spec.Plain.decodeFixed 12 ns.length bytes == some (ns, [])),
           ("spec_encoder_same_bytes", Spec.Plain.encodeFixed 12 ns == bytes)]
      | none => .bad "pl_enc i96 vals"
    | "ba" =>
      match inHexList l "vals" with
      | some vs =>
        verdict [("status", okst), ("impl_model", Impl.Plain.encodeByteArray vs == bytes)]
          [("spec_decoder_reads_bytes", Spec.Plain.decodeByteArray vs.length bytes == some (vs, [])),
           ("spec_encoder_same_bytes", Spec.Plain.encodeByteArray vs == bytes)]
      | none => .bad "pl_enc ba vals"
    | "flba" =>
      match l.inHex "vals", l.inInt "k", l.inInt "count" with
      | some flat, some k, some count =>
        let vs := chunksOf k.toNat flat
        verdict [("impl_model", match Impl.Plain.encodeFlba flat count k with
                                | .ok b => okst && b == bytes
                                | .error _ => st == "invalid_argument")]
          [("spec_decoder_reads_bytes", !okst || Spec.Plain.decodeFlba k.toNat count.toNat bytes == some (vs, [])),
           ("spec_encoder_same_bytes", !okst || Spec.Plain.encodeFlba vs == bytes)]
      | _, _, _ => .bad "pl_enc flba args"
    | _ => .bad "pl_enc type"
  | _, _, _ => .bad "pl_enc args"

/-- compare a model result with the C return value and the values it stored -/
def resEq {α : Type} [BEq α] (m : Impl.Plain.Res α) (r : Int) (out : Option α) : Bool :=
  match m with
  | .ok v c => r == (c : Int) && out == some v
  | .err => r == -1
  | .oob => false

def plDec (l : Line) : Verdict :=
  match l.inStr "t", l.inStr "src", l.inInt "count", l.inHex "in", l.outInt "r" with
  | some t, some src, some count, some inp, some r =>
    let wrap := src == "wrap"
    let n := count.toNat
    let inRange : Bool := r ≤ (inp.length : Int)
    -- for src=spec/pad the harness's own encoder is checked against the Spec first
    match t with
    | "bool" =>
      let m := Impl.Plain.decodeBoolean inp count
      let out := if r ≥ 0 then l.outHex "out" else none
      let spec := if count < 0 then none else Spec.Plain.decodeBool inp n
      let specOk := match spec with
        | none => r == -1
        | some bits => r == ((n + 7) / 8 : Nat) && out == some (bits.map (fun b => if b then 1 else 0))
      let srcOk := match src, l.inHex "vals" with
        | "spec", some vals => isPrefix (Spec.Plain.encodeBool (vals.map (· != 0))) inp &&
            out == some (vals.map (fun v => if v != 0 then 1 else 0))
        | "pad", some vals => out == some (vals.map (fun v => if v != 0 then 1 else 0)) &&
            Spec.Plain.decodeBool inp n == some (vals.map (· != 0))
        | "spec", none => false
        | _, _ => true
      verdict [("impl_model", resEq m r out)]
        [("reads_in_input", inRange), ("spec_decoder_agrees", specOk), ("spec_stream_decoded", srcOk),
         ("writes_count_values", r < 0 || (out.map List.length) == some n)]
    | "i32" | "f32" | "i64" | "f64" | "i96" =>
      let k := if t == "i32" || t == "f32" then 4 else if t == "i96" then 12 else 8
      let outNs : Option (List Nat) := if r ≥ 0 then l.outNats "out" else none
      let mOk : Bool :=
        if k == 4 then resEq (if t == "i32" then Impl.Plain.decodeInt32 inp count else Impl.Plain.decodeFloat inp count)
                        r (outNs.map u32s)
        else if k == 8 then resEq (if t == "i64" then Impl.Plain.decodeInt64 inp count else Impl.Plain.decodeDouble inp count)
                        r (outNs.map u64s)
        else resEq (Impl.Plain.decodeInt96 inp count) r (outNs.bind triples)
      let outVals : Option (List Nat) :=
        if k == 12 then (outNs.bind triples).map (·.map Impl.Plain.int96ToNat) else outNs
      let spec := if count < 0 then none else Spec.Plain.decodeFixed k n inp
      let specOk := wrap || match spec with
        | none => r == -1
        | some (ns, rest) => r == ((inp.length - rest.length : Nat) : Int) && outVals == some ns
      let srcOk := match src, l.inNats "vals" with
        | "spec", some vals =>
          let vs := if k == 12 then ((triples vals).getD []).map Impl.Plain.int96ToNat else vals
          isPrefix (Spec.Plain.encodeFixed k vs) inp && outVals == some vs && r == ((vs.length * k : Nat) : Int)
        | "spec", none => false
        | _, _ => true
      verdict [("impl_model", mOk)]
        [("reads_in_input", inRange), ("spec_decoder_agrees", specOk), ("spec_stream_decoded", srcOk)]
    | "ba" =>
      let m := Impl.Plain.decodeByteArray inp count
      let slices : Option (List (Nat × Nat)) :=
        if r ≥ 0 then
          match l.outNats "offs", l.outNats "lens" with
          | some o, some ln => if o.length == ln.length then some (o.zip ln) else none
          | _, _ => none
        else none
      let vals := slices.map (·.map (Impl.Plain.slice inp))
      let spec := if count < 0 then none else Spec.Plain.decodeByteArray n inp
      let specOk := match spec with
        | none => r == -1
        | some (vs, rest) => r == ((inp.length - rest.length : Nat) : Int) && vals == some vs
      let srcOk := match src, inHexList l "vals" with
        | "spec", some vs => isPrefix (Spec.Plain.encodeByteArray vs) inp && vals == some vs &&
            r == ((Spec.Plain.encodeByteArray vs).length : Int)
        | "spec", none => false
        | _, _ => true
      let inside := match slices with
        | some sl => sl.all (fun s => s.1 + s.2 ≤ inp.length)
        | none => r < 0
      verdict [("impl_model", resEq m r slices)]
        [("reads_in_input", inRange), ("slices_inside_input", inside), ("spec_decoder_agrees", specOk),
         ("spec_stream_decoded", srcOk)]
    | "flba" =>
      match l.inInt "k" with
      | some k =>
        let m := Impl.Plain.decodeFlba inp count k
        let out := if r ≥ 0 then l.outHex "out" else none
        let spec := if count < 0 || k ≤ 0 then none else Spec.Plain.decodeFlba k.toNat n inp
        let specOk := wrap || match spec with
          | none => r == -1
          | some (vs, rest) => r == ((inp.length - rest.length : Nat) : Int) && out == some vs.flatten
        let srcOk := match src, l.inHex "vals" with
          | "spec", some flat => isPrefix flat inp && out == some flat && r == (flat.length : Int)
          | "spec", none => false
          | _, _ => true
        verdict [("impl_model", resEq m r out)]
          [("reads_in_input", inRange), ("spec_decoder_agrees", specOk), ("spec_stream_decoded", srcOk)]
      | none => .bad "pl_dec flba k"
    | _ => .bad "pl_dec type"
  | _, _, _, _, _ => .bad "pl_dec args"

/-! ### BYTE_STREAM_SPLIT -/

def bssStatus : Impl.Bss.Res → String
  | .ok _ => "ok"
  | .error .invalidArgument => "invalid_argument"
  | .error .encode => "encode"
  | .error .decode => "decode"
  | .oob => "OOB"

def bssEnc (l : Line) : Verdict :=
  match l.inStr "t", l.inInt "k", l.inInt "count", l.inNat "cap", l.inHex "vals", l.outStr "st" with
  | some t, some k, some count, some cap, some vals, some st =>
    let fill : List UInt8 := List.replicate cap 0xEE
    let m := if t == "f32" then Impl.Bss.encodeFloatBuf vals count fill
             else if t == "f64" then Impl.Bss.encodeDoubleBuf vals count fill
             else Impl.Bss.encode vals count k cap
    if st != "ok" then verdict [("impl_model_status", bssStatus m == st)] []
    else
      match l.outNat "written", l.outHex "bytes" with
      | some written, some bytes =>
        let kk := if t == "f32" then 4 else if t == "f64" then 8 else k.toNat
        let mOk := match m with
          | .ok buf =>
            if t == "gen" then buf == bytes && written == buf.length
            else buf.take written == bytes && (buf.drop written).all (· == 0xEE) &&
              written == Impl.Bss.requiredSize count kk
          | _ => false
        let vs := chunksOf kk vals
        let positive := count ≥ 0
        verdict [("impl_model", mOk)]
          [("spec_decoder_reads_bytes", !positive || Spec.Bss.decode kk count.toNat bytes == some vs),
           ("spec_encoder_same_bytes", !positive || Spec.Bss.encode kk vs == bytes),
           ("written_is_n_times_k", !positive || written == count.toNat * kk)]
      | _, _ => .bad "bss_enc outs"
  | _, _, _, _, _, _ => .bad "bss_enc args"

def bssDec (l : Line) : Verdict :=
  match l.inStr "t", l.inInt "k", l.inInt "count", l.inStr "src", l.inHex "in", l.outStr "st" with
  | some t, some k, some count, some src, some inp, some st =>
    let m := if t == "f32" then Impl.Bss.decodeFloat inp count
             else if t == "f64" then Impl.Bss.decodeDouble inp count
             else Impl.Bss.decode inp k count
    let kk := if t == "f32" then 4 else if t == "f64" then 8 else k.toNat
    let out := if st == "ok" then l.outHex "out" else none
    let mOk := match m with
      | .ok v => st == "ok" && out == some v
      | r => bssStatus r == st
    let positive := count ≥ 0 && (t != "gen" || k > 0)
    let spec := Spec.Bss.decode kk count.toNat inp
    let specOk := !positive || match spec with
      | none => st == "decode"
      | some vs => st == "ok" && out == some vs.flatten
    let srcOk := match src, l.inHex "vals" with
      | "spec", some vals => isPrefix (Spec.Bss.encode kk (chunksOf kk vals)) inp && out == some vals
      | "spec", none => false
      | _, _ => true
    verdict [("impl_model", mOk), ("model_not_oob", bssStatus m != "OOB")]
      [("spec_decoder_agrees", specOk), ("spec_stream_decoded", srcOk)]
  | _, _, _, _, _, _ => .bad "bss_dec args"

/-! ### dictionary -/

/-- Spec-side facts about a dictionary and the indices carquet assigned (skipped for histories so
long that the quadratic reference computation would dominate the run). -/
def dictProps (isVar : Bool) (vals : List (List UInt8)) (idx : List Nat) (dict : List UInt8)
    (cnt bw : Nat) : List (String × Bool) :=
  if vals.length > 6000 then [("bit_width", bw == (if cnt == 0 then 0 else max 1 (Spec.Dictionary.bitsFor cnt)))]
  else
    let fo := Spec.Dictionary.firstOccurrences vals
    [("dict_is_first_occurrences_plain",
        dict == (if isVar then Spec.Plain.encodeByteArray fo else Spec.Plain.encodeFlba fo)),
     ("count_is_distinct", cnt == fo.length),
     ("index_is_position", idx == vals.map (fun v => Spec.Dictionary.indexIn v fo)),
     ("indices_below_count", idx.all (· < cnt)),
     ("lookup_gives_values", Spec.Dictionary.decode fo idx == some vals),
     ("bit_width", bw == (if cnt == 0 then 0 else max 1 (Spec.Dictionary.bitsFor cnt)))]

def dictBuild (l : Line) : Verdict :=
  match l.inNat "var", inHexList l "vals", l.outStr "st" with
  | some var, some vals, some st =>
    if st != "ok" then .diverge "dict_build status"
    else match l.outNats "idx", l.outHex "dict", l.outNat "cnt", l.outNat "bw" with
    | some idx, some dict, some cnt, some bw =>
      let b := Impl.Dictionary.build Impl.Dictionary.hashNat Gen.dictNumBuckets (var == 1) vals
      verdict [("impl_indices", b.indices == idx), ("impl_dict_buffer", b.dictBytes == dict),
               ("impl_count", b.count == cnt), ("impl_bit_width", Impl.Dictionary.bitWidthForCount b.count == bw)]
              (dictProps (var == 1) vals idx dict cnt bw)
    | _, _, _, _ => .bad "dict_build outs"
  | _, _, _ => .bad "dict_build args"

def dictEnc (l : Line) : Verdict :=
  match l.inStr "t", l.outStr "st" with
  | some t, some st =>
    if st != "ok" then .diverge "dict_enc status"
    else
      let vals? : Option (List (List UInt8)) :=
        if t == "ba" then inHexList l "vals"
        else if t == "i32" || t == "f32" then (l.inNats "vals").map (fun ns => (u32s ns).map Impl.Plain.memU32)
        else (l.inNats "vals").map (fun ns => (u64s ns).map Impl.Plain.memU64)
      match vals?, l.outHex "dict", l.outNat "ilen", l.outInt "bw" with
      | some vals, some dict, some ilen, some bw =>
        let e := Impl.Dictionary.finish (fun _ _ => [])
          (Impl.Dictionary.build Impl.Dictionary.hashNat Gen.dictNumBuckets (t == "ba") vals)
        let idxOk := match l.outNats "idx", l.outInt "ndec" with
          | some idx, some nd => idx == e.indices && nd == (vals.length : Int)
          | none, none => true
          | _, _ => false
        let cnt := (Spec.Dictionary.firstOccurrences vals).length
        verdict [("impl_dict_page", e.dictPage == dict), ("impl_bit_width", (e.bitWidth : Int) == bw),
                 ("impl_indices_via_real_rle_decoder", idxOk), ("width_byte_present", ilen ≥ 1)]
                (dictProps (t == "ba") vals e.indices dict cnt bw.toNat)
      | _, _, _, _ => .bad "dict_enc outs"
  | _, _ => .bad "dict_enc args"

def dictDec (l : Line) : Verdict :=
  match l.inStr "t", l.inInt "dc", l.inInt "n", l.inNats "idx", l.inHex "dict", l.inHex "ind", l.outStr "st" with
  | some t, some dc, some n, some held, some dict, some ind, some st =>
    let wide := t == "i64" || t == "f64"
    let sz := if wide then 8 else 4
    let idxDec : Nat → List UInt8 → Nat → Option (List Nat) := fun _ _ m => some (held.take m)
    let m := Impl.Dictionary.decodeFixed sz idxDec dict dc ind n
    let outImgs : Option (List (List UInt8)) :=
      if st == "ok" then
        (l.outNats "out").map (fun ns => if wide then (u64s ns).map Impl.Plain.memU64 else (u32s ns).map Impl.Plain.memU32)
      else none
    let mOk := match m with
      | .ok vs => st == "ok" && outImgs == some vs
      | .error => st == "decode"
      | .oob _ => false
    let used := held.take n.toNat
    -- property: an accepted call used only indices below dict_count, and returned dict[idx]
    let entries := chunksOf sz (dict.take (dc.toNat * sz))
    let propOk := st != "ok" || n ≤ 0 ||
      (used.all (fun i => (i : Int) < dc) && Spec.Dictionary.decode entries used == outImgs)
    let rejectOk := !(n > 0 && dc > 0 && used.any (fun i => (i : Int) ≥ dc)) || st == "decode"
    verdict [("impl_model", mOk)]
      [("accepted_indices_in_range", propOk), ("out_of_range_index_rejected", rejectOk)]
  | _, _, _, _, _, _, _ => .bad "dict_dec args"

def handle (l : Line) : Option Verdict :=
  match l.op with
  | "pl_enc" => some (plEnc l)
  | "pl_dec" => some (plDec l)
  | "bss_enc" => some (bssEnc l)
  | "bss_dec" => some (bssDec l)
  | "dict_build" => some (dictBuild l)
  | "dict_enc" => some (dictEnc l)
  | "dict_dec" => some (dictDec l)
  | _ => none

end Driver.Ops.Plain
