import Carquet.Util
import Carquet.Spec.Order
import Carquet.Impl.Stats
import Carquet.Gen.StatsConstants
/-
Driver ops for C16 (line formats: see harness/ops_stats.c).
modelChecks: the Impl model reproduces what the real code returned.
propChecks : the Spec's predicates (`TrueBounds`, `sat`, `inRange`) evaluated on what the real
             code returned — statistics are true bounds, no pruning answer is a false negative,
             the filter result is exactly the capped ascending list.
-/
namespace Driver.Ops.Stats
open Carquet Carquet.Util
open Carquet.Spec.Order
open Carquet.Impl.Stats

def ptypeOf : Nat → Option PType
  | 0 => some .boolean | 1 => some .int32 | 2 => some .int64 | 3 => some .int96
  | 4 => some .float | 5 => some .double | 6 => some .byteArray | 7 => some .flba
  | _ => none

def opOf : Nat → Option Op
  | 0 => some .eq | 1 => some .ne | 2 => some .lt | 3 => some .le | 4 => some .gt | 5 => some .ge
  | _ => none

def statusCode : Status → Int
  | .ok => Gen.statusOk
  | .invalidArgument => Gen.statusInvalidArgument
  | .rowGroupNotFound => Gen.statusRowGroupNotFound
  | .columnNotFound => Gen.statusColumnNotFound
  | .notImplemented => Gen.statusNotImplemented

/-- `~` absent, otherwise `x<hex>` -/
def optVal (s : String) : Option (Option (List UInt8)) :=
  if s == "~" then some none else (parseHex s).map some

def rowOf (s : String) : Option Row :=
  if s == "_" then some none else (parseHex s).map some

def sepList (sep : String) (f : String → Option α) (s : String) : Option (List α) :=
  if s == "-" then some [] else (s.splitOn sep).mapM f

def rowsOf (s : String) : Option (List Row) := sepList "." rowOf s
def valsOf (s : String) : Option (List (List UInt8)) := sepList "." parseHex s

def bit (b : Bool) : Nat := if b then 1 else 0
def crashed (l : Line) : Bool := (l.outNat "crashed") == some 1

def anySat (t : PType) (op : Op) (probe : List UInt8) (rows : List Row) : Bool := rows.any (satRow t op probe)
def anyInRange (t : PType) (lo hi : Option (List UInt8)) (rows : List Row) : Bool :=
  rows.any (fun r => match r with | none => false | some v => inRange t lo hi v)

/-! ### fcmp -/
def handleFcmp (l : Line) : Verdict :=
  match l.inNat "w", l.inNat "a", l.inNat "b", l.outNat "lt", l.outNat "gt", l.outNat "eq", l.outNat "na", l.outNat "nb" with
  | some w, some a, some b, some lt, some gt, some eq, some na, some nb =>
    let f := if w == 32 then f32 else f64
    verdict
      [("fLt", bit (fLt f a b) == lt), ("fGt", bit (fLt f b a) == gt), ("fNanA", bit (fNan f a) == na),
       ("fNanB", bit (fNan f b) == nb),
       ("cmpFloatR", cmpFloatR f a b == (if lt == 1 then -1 else if gt == 1 then 1 else 0))]
      [("spec_lt", (fcmp f a b == some .lt) == (lt == 1)), ("spec_gt", (fcmp f a b == some .gt) == (gt == 1)),
       ("spec_eq", (fcmp f a b == some .eq) == (eq == 1)), ("spec_unordered", (fcmp f a b == none) == (na == 1 || nb == 1)),
       ("spec_nan", bit (fisNaN f a) == na)]
  | _, _, _, _, _, _, _, _ => .bad "fcmp args"

/-! ### statistics builder -/
def bopOf (s : String) : Option BOp :=
  match s.toList with
  | 'N' :: r => (String.ofList r).toInt?.map BOp.nulls
  | 'V' :: r =>
    match (String.ofList r).splitOn ":" with
    | [n, d] => do let n ← n.toInt?; let d ← parseHex d; pure (BOp.values d n)
    | _ => none
  | 'B' :: r => (valsOf (String.ofList r)).map BOp.byteArrays
  | _ => none

/-- rows an accepted call contributes -/
def bopRows (t : PType) (tl : Int) : BOp → List Row
  | .nulls c => List.replicate c.toNat none
  | .values d n => (slices (valueSize t tl) n.toNat d).map some
  | .byteArrays vs => vs.map some

def runWithStatus (b : Builder) : List BOp → List Status × Builder
  | [] => ([], b)
  | o :: os =>
    let r := runOp b o
    let rest := runWithStatus r.2 os
    (r.1 :: rest.1, rest.2)

def handleSb (l : Line) : Verdict :=
  if crashed l then .propfail "real code crashed" else
  match (l.inNat "t").bind ptypeOf, l.inInt "tl", (l.inStr "ops").bind (sepList "," bopOf), l.outInts "st",
        l.outNat "hmin", l.outHex "min", l.outNat "emin", l.outNat "hmax", l.outHex "max", l.outNat "emax",
        l.outNat "hnc", l.outInt "nc" with
  | some t, some tl, some ops, some st, some hmin, some mn, some emin, some hmax, some mx, some emax, some hnc, some nc =>
    let r := runWithStatus (create t tl) ops
    let ps := build r.2
    let rows := ((ops.zip st).filter (fun p => p.2 == Gen.statusOk)).flatMap (fun p => bopRows t tl p.1)
    let produced : Stats := { min := if hmin == 1 then some mn else none, max := if hmax == 1 then some mx else none,
                              nullCount := if hnc == 1 then some nc else none }
    verdict
      [("status", r.1.map statusCode == st),
       ("min", ps.minValue == produced.min), ("max", ps.maxValue == produced.max),
       ("exact_min", bit (ps.isMinValueExact == some true) == emin), ("exact_max", bit (ps.isMaxValueExact == some true) == emax),
       ("null_count", ps.nullCount == produced.nullCount)]
      [("true_bounds", trueBoundsB t produced rows),
       ("exact_is_attained", (emin == 0 || rows.contains (some mn)) && (emax == 0 || rows.contains (some mx)))]
  | _, _, _, _, _, _, _, _, _, _, _, _ => .bad "sb args"

/-! ### page writer -/
def defsOf (s : String) : Option (Option (List Int)) :=
  if s == "n" then some none
  else if s == "e" then some (some [])
  else (s.toList.mapM (fun c => if '0' ≤ c ∧ c ≤ '9' then some ((c.toNat - 48 : Nat) : Int) else none)).map some

def batchOf (s : String) : Option Batch :=
  match s.splitOn ":" with
  | [n, d, ds] => do
    let n ← n.toNat?; let d ← parseHex d; let ds ← defsOf ds
    pure { data := d, numValues := n, defs := ds }
  | _ => none

def pwRunStatus (w : PageW) : List Batch → List Status × PageW
  | [] => ([], w)
  | b :: bs =>
    let r := pwAdd w b
    let rest := pwRunStatus r.2 bs
    (r.1 :: rest.1, rest.2)

/-- logical rows of a batch: the dense values placed where the definition level is maximal -/
def placeRows (maxDef : Int) (defs : List Int) (vals : List (List UInt8)) : List Row :=
  match defs with
  | [] => []
  | d :: ds =>
    if d == maxDef then
      match vals with
      | v :: vs => some v :: placeRows maxDef ds vs
      | [] => none :: placeRows maxDef ds []
    else none :: placeRows maxDef ds vals

def batchRows (t : PType) (maxDef : Int) (b : Batch) : List Row :=
  let w := (t.width).getD 4
  match b.defs with
  | some ds =>
    if maxDef > 0 then
      placeRows maxDef (ds.take b.numValues) (slices w ((ds.take b.numValues).filter (· == maxDef)).length b.data)
    else (slices w b.numValues b.data).map some
  | none => (slices w b.numValues b.data).map some

def handlePw (l : Line) : Verdict :=
  match (l.inNat "t").bind ptypeOf, l.inInt "maxdef", (l.inStr "batches").bind (sepList ";" batchOf), l.outInts "st",
        l.outNat "has", l.outHex "min", l.outHex "max", l.outNat "sz", l.outInt "nc" with
  | some t, some maxDef, some bs, some st, some has, some mn, some mx, some sz, some nc =>
    let r := pwRunStatus { type := t, maxDef := maxDef } bs
    let rows := bs.flatMap (batchRows t maxDef)
    let produced : Stats := if has == 1 then { min := some mn, max := some mx, nullCount := some nc } else {}
    verdict
      -- the status of add_values is the PLAIN encoder's (BOOLEAN refuses an empty batch); only INT96 is the page writer's own
      [("status", t != .int96 || r.1.map statusCode == st),
       ("stats", pwGetStatistics r.2 == (if has == 1 then some (mn, mx, sz, nc) else none)),
       ("header", (pwHeaderStats r.2).isSome == (has == 1))]
      [("true_bounds", trueBoundsB t produced rows)]
  | _, _, _, _, _, _, _, _, _ => .bad "pw args"

/-! ### statistics_compare / range_overlaps / page_might_match -/
def handleScmp (l : Line) : Verdict :=
  match (l.inNat "t").bind ptypeOf, (l.inStr "smin").bind optVal, (l.inStr "smax").bind optVal, l.inHex "v",
        (l.inStr "data").bind rowsOf, l.outInt "st", l.outInt "r" with
  | some t, some smin, some smax, some v, some rows, some st, some r =>
    let m := statsCompare { minValue := smin, maxValue := smax } t v
    verdict [("status", statusCode m.1 == st), ("result", m.2 == r)]
            [("no_false_negative",
              !(trueBoundsB t { min := present smin, max := present smax } rows) || !(anySat t .eq v rows) || r == 0)]
  | _, _, _, _, _, _, _ => .bad "scmp args"

def handleSovl (l : Line) : Verdict :=
  match (l.inNat "t").bind ptypeOf, (l.inStr "smin").bind optVal, (l.inStr "smax").bind optVal,
        (l.inStr "qmin").bind optVal, (l.inStr "qmax").bind optVal, (l.inStr "data").bind rowsOf, l.outInt "st", l.outNat "ov" with
  | some t, some smin, some smax, some qmin, some qmax, some rows, some st, some ov =>
    let m := rangeOverlaps { minValue := smin, maxValue := smax } t qmin qmax
    verdict [("status", statusCode m.1 == st), ("overlaps", bit m.2 == ov)]
            [("no_false_negative",
              !(trueBoundsB t { min := present smin, max := present smax } rows) || !(anyInRange t qmin qmax rows) || ov == 1)]
  | _, _, _, _, _, _, _, _ => .bad "sovl args"

def pageOf (s : String) : Option (Int × Option (List UInt8) × Option (List UInt8) × Bool) :=
  match s.splitOn ":" with
  | [nc, mn, mx, isn] => do
    let nc ← nc.toInt?; let mn ← optVal mn; let mx ← optVal mx; let isn ← isn.toNat?
    pure (nc, mn, mx, isn == 1)
  | _ => none

def handlePmm (l : Line) : Verdict :=
  match (l.inNat "t").bind ptypeOf, l.inInt "tl", (l.inStr "pages").bind (sepList ";" pageOf), l.inInt "idx",
        (l.inStr "qmin").bind optVal, (l.inStr "qmax").bind optVal, (l.inStr "data").bind rowsOf, l.outInt "st", l.outNat "mm" with
  | some t, some tl, some pages, some idx, some qmin, some qmax, some rows, some st, some mm =>
    let ci := pages.foldl (fun ci p => (addPage ci p.1 p.2.1 p.2.2.1 p.2.2.2).2) ({ type := t, typeLength := tl } : ColumnIndex)
    let m := pageMightMatch ci idx qmin qmax
    let sound :=
      match (if idx < 0 then none else ci.pages[idx.toNat]?) with
      | none => true
      | some p =>
        !(trueBoundsB t { min := p.minV, max := p.maxV } rows) || (p.nullPage && rows.any Option.isSome) ||
        !(anyInRange t qmin qmax rows) || mm == 1
    verdict [("status", statusCode m.1 == st), ("might_match", m.1 != .ok || bit m.2 == mm)]
            [("no_false_negative", st != Gen.statusOk || sound)]
  | _, _, _, _, _, _, _, _, _ => .bad "pmm args"

/-! ### reader API -/
def statsOf (s : String) : Option (Option PStats) :=
  match s.toList with
  | ['N'] => some none
  | 'S' :: r =>
    match (String.ofList r).splitOn ":" with
    | [mn, mx, mnd, mxd, nc] => do
      let mn ← optVal mn; let mx ← optVal mx; let mnd ← optVal mnd; let mxd ← optVal mxd
      let nc ← (if nc == "~" then some none else nc.toInt?.map some)
      -- a zero-length binary is not written by the footer serialiser
      pure (some { minValue := present mn, maxValue := present mx, minDeprecated := present mnd,
                   maxDeprecated := present mxd, nullCount := nc })
    | _ => none
  | _ => none

def groupOf (s : String) : Option (List Row × Option PStats) :=
  match s.splitOn "@" with
  | [rows, st] => do let rows ← rowsOf rows; let st ← statsOf st; pure (rows, st)
  | _ => none

def hexDots (s : String) : Option (List (List UInt8)) := (s.splitOn ".").mapM parseHex

def takeCap (n : Nat) (l : List Nat) : List Nat := l.take n

def handleRgm (l : Line) : Verdict :=
  if crashed l then .propfail "real code crashed" else
  if (l.outNat "setup") == some 0 then .ok else
  match (l.inNat "t").bind ptypeOf, (l.inStr "groups").bind (sepList ";" groupOf), (l.inNat "op").bind opOf,
        l.inHex "probe", l.inInt "maxidx", l.inInt "col" with
  | some t, some groups, some op, some probe, some maxIdx, some col =>
    match l.outInts "cst", l.outNats "hm", (l.outStr "mn").bind hexDots, (l.outStr "mx").bind hexDots, l.outNats "hn",
          l.outInts "nc", l.outInts "nv", l.outInts "st", l.outNats "mm", l.outInts "ost", l.outNats "omm",
          l.outInt "fr", l.outNats "fi" with
    | some cst, some hm, some mn, some mx, some hn, some nc, some nv, some st, some mm, some ost, some omm, some fr, some fi =>
      let rd : Reader :=
        { rowGroups := groups.map (fun g => { columns := [{ metaData := some { numValues := g.1.length, statistics := g.2 } }] }),
          leaves := [some t] }
      let idxs := List.range groups.length
      let mcs := idxs.map (fun (i : Nat) => columnStatistics rd (i : Int) col)
      let mrm := idxs.map (fun (i : Nat) => rowGroupMatches rd (i : Int) col op probe)
      let mo := [rowGroupMatches rd (-1) col op probe, rowGroupMatches rd (groups.length : Int) col op probe]
      let mf := filterRowGroups rd col op probe maxIdx
      -- property: a group holding a matching row may be pruned only if the statistics STORED in the file are
      -- not true bounds of its rows.  The stored bounds are taken through the model of column_statistics
      -- (new fields if complete, else the deprecated pair), not from what the real code returned: a reader
      -- that mis-reads true statistics is not excused.
      let perGroup := ((groups.zip mcs).zip mm)
      let sound := perGroup.all (fun x =>
        let g := x.1.1; let cs := x.1.2; let m := x.2
        col != 0 || m == 1 || !(anySat t op probe g.1) ||
          (statusCode cs.1 == Gen.statusOk && cs.2.hasMinMax &&
            !(trueBoundsB t { min := some cs.2.minValue, max := some cs.2.maxValue } g.1)))
      let expected := (idxs.zip (st.zip mm)).filter (fun x => x.2.1 != Gen.statusOk || x.2.2 == 1) |>.map (·.1)
      let filterExact := if maxIdx ≤ 0 then fr < 0 else (fi == takeCap maxIdx.toNat expected && fr == (fi.length : Int))
      verdict
        [("cs_status", mcs.map (fun r => statusCode r.1) == cst),
         ("cs_has_min_max", mcs.map (fun r => bit r.2.hasMinMax) == hm),
         ("cs_min", mcs.map (fun r => r.2.minValue) == mn), ("cs_max", mcs.map (fun r => r.2.maxValue) == mx),
         ("cs_has_null_count", mcs.map (fun r => bit r.2.hasNullCount) == hn),
         ("cs_null_count", mcs.map (fun r => r.2.nullCount) == nc), ("cs_num_values", mcs.map (fun r => r.2.numValues) == nv),
         ("rgm_status", mrm.map (fun r => statusCode r.1) == st), ("rgm_might_match", mrm.map (fun r => bit r.2) == mm),
         ("rgm_out_of_range", mo.map (fun r => statusCode r.1) == ost && mo.map (fun r => bit r.2) == omm),
         ("filter_count", mf.1 == fr), ("filter_indices", mf.2 == fi)]
        [("prune_no_false_negative", sound), ("filter_exact", filterExact)]
    | _, _, _, _, _, _, _, _, _, _, _, _, _ => .bad "rgm outs"
  | _, _, _, _, _, _ => .bad "rgm args"

def handle (l : Line) : Option Verdict :=
  match l.op with
  | "fcmp" => some (handleFcmp l)
  | "sb" => some (handleSb l)
  | "pw" => some (handlePw l)
  | "scmp" => some (handleScmp l)
  | "sovl" => some (handleSovl l)
  | "pmm" => some (handlePmm l)
  | "rgm" => some (handleRgm l)
  | _ => none

end Driver.Ops.Stats
