import Carquet.Util
import Carquet.Impl.Reader
import Carquet.Impl.FileReal
import Carquet.Impl.Sink
import Carquet.Spec.FileEnvelope
import Driver.ReadBack
import Driver.Ops.FileWrite
/-
Driver ops of the reader component (the `wr` read-back fields are judged inside
Driver/Ops/FileWrite through Driver/ReadBack):

  trunc <case> | n=<len> file=x.. acc=<k.mode.nrg.rows,...>          harness/ops_c18.c
      tie: the set of proper prefixes the model's `openFile` accepts, per mode, with the row-group
      and row counts it reports, equals `acc`;
      property (C18): every prefix the REAL code accepted is a complete Parquet file by the
      envelope + footer predicate `Spec.FileEnvelope.completeFile`.
  c04 mode=<m> mut=<..> file=x.. | rc=.. sum=.. p_safe=0/1            harness/ops_c04.c
      tie: model open error (with its code) <-> `sum=open-error_code_..`; when opened, nrg / nc equal.
      p_safe is the property predicate (C side).  Lines without `file=` (> 6000 bytes) carry
      only the C-side predicate.
  sink <case> kind=<k> k=<budget> buf=<b> | st=.. sunk=.. failed=..   harness/ops_c18.c
      tie (bufmode 0 only: every fwrite is pushed to the sink at once): the statuses and the
      bytes sunk predicted from Impl.Writer's write calls over Impl.Sink with the oracle the
      fault schedule defines; other buffer modes carry the C-side predicates only.
  abort <case> at=<i> | removed=.. p_no_file=..                        C-side predicate only
-/
namespace Driver.Ops.FileRead
open Carquet Carquet.Util Carquet.Impl Driver.ReadBack

/-- `k.mode.nrg.rows` -/
def parseAcc (s : String) : Option (Nat × Nat × Nat × Int) :=
  match s.splitOn "." with
  | [k, m, g, r] => do
    let k ← k.toNat?
    let m ← m.toNat?
    let g ← g.toNat?
    let r ← r.toInt?
    some (k, m, g, r)
  | _ => none

/-- positions `k` (prefix lengths) at which a prefix ends in the magic: only these can open -/
def magicEnds (file : Array UInt8) : List Nat :=
  (List.range file.size).filter (fun k =>
    k ≥ 12 && file[k - 4]! == 0x50 && file[k - 3]! == 0x41 && file[k - 2]! == 0x52 && file[k - 1]! == 0x31)

/-- the accepted proper prefixes the model predicts, in the harness's order (k, then mode) -/
def modelAccepted (file : List UInt8) : List (Nat × Nat × Nat × Int) :=
  (magicEnds file.toArray).flatMap (fun k =>
    [0, 1, 2].filterMap (fun m =>
      match Reader.openFile (modeOf m) (file.take k) with
      | .ok o => some (k, m, o.numRowGroups, o.md.numRows)
      | .error _ => none))

/-- every prefix shorter than 12 bytes or not ending in the magic is refused by the model in all
modes (cheap re-check of the shortcut `magicEnds` on the first bytes and on a sample) -/
def shortcutSound (file : List UInt8) : Bool :=
  (List.range (min file.length 40)).all (fun k =>
    (magicEnds file.toArray).contains k ||
    [0, 1, 2].all (fun m => match Reader.openFile (modeOf m) (file.take k) with | .ok _ => false | .error _ => true))

def startsWith (s pre : String) : Bool := s.take pre.length == pre

def fieldAfter (s key : String) : Option Nat :=
  match (s.splitOn key) with
  | _ :: rest :: _ => ((rest.splitOn "_").headD "").toNat?
  | _ => none

/-! ### sink prediction (unbuffered stream)

With `setvbuf(_IONBF)` every non-empty `fwrite` of the writer is one operation of the harness's
sink.  The healthy sequence of `fwrite`s per API call comes from Impl.Writer (`W.out` after each
step, `close`); the fault schedule of harness `sink_write` decides which operation fails:
  kind 0  byte budget `k`: the write during which the budget runs out sinks what is left and fails,
          every later non-empty write fails;
  kind 1  the sink fails from operation `k` on;
  kind 4  operation `k` fails once (nothing sunk), later ones succeed.
What the writer does after a failed `fwrite` (file_writer.c): a failed header magic leaves
`header_written` false, so every later call retries it first; a failed row-group write leaves the
row group current, so later batches go on into it, a later `new_row_group`/`close` writes it again;
`close` additionally fails on the stream's sticky error indicator (fix af51bb2). -/

/-- the non-empty writes each API call makes on a healthy stream: one list per op, then close -/
def callChunks (D : Writer.Deps) (cols : List Writer.Col) (codec page : Nat) (ops : List Writer.Op) : List (List Nat) :=
  let w0 : Writer.W := { cols := cols, codec := codec, pageSize := page, createdBy := "Carquet" }
  let rec go (w : Writer.W) (ops : List Writer.Op) (acc : List (List Nat)) : List (List Nat) :=
    match ops with
    | [] => acc ++ [(((Writer.close D w).1.drop w.out.length).map List.length).filter (· > 0)]
    | op :: rest =>
      let w' := (Writer.step D w op).1
      go w' rest (acc ++ [((w'.out.drop w.out.length).map List.length).filter (· > 0)])
  go w0 ops []

inductive CallKind | batch | newRg | close
  deriving DecidableEq

/-- index of the failing operation (in the healthy sequence) and the bytes sunk, if the schedule
makes one fail -/
def failingOp (kind k : Nat) (sizes : List Nat) : Option Nat × Nat :=
  if kind == 0 then
    let rec scan (i cum : Nat) (l : List Nat) : Option Nat × Nat :=
      match l with
      | [] => (none, cum)
      | n :: rest => if cum + n > k then (some i, k) else scan (i + 1) (cum + n) rest
    scan 0 0 sizes
  else if k < sizes.length then (some k, (sizes.take k).sum) else (none, sizes.sum)

/-- statuses of all calls (ops then close) for the unbuffered stream -/
def predictStatuses (kind k : Nat) (kinds : List CallKind) (chunks : List (List Nat)) : List Nat × Nat × Bool :=
  let flat : List (Nat × Nat) := (chunks.zipIdx.flatMap (fun p => p.1.map (fun n => (p.2, n))))
  match failingOp kind k (flat.map (·.2)) with
  | (none, sunk) => (kinds.map (fun _ => 0), sunk, false)
  | (some f, sunk) =>
    let c := (flat.getD f (0, 0)).1
    let headerFailed := f == 0
    let st := kinds.zipIdx.map (fun p =>
      if p.2 < c then 0
      else if p.2 == c then 13
      else if kind == 4 then (if p.1 == .close then 13 else 0)
      else if headerFailed then 13
      else match p.1 with
        | .batch => 0
        | .newRg => 13
        | .close => 13)
    (st, sunk, true)

def handleSink (l : Line) : Verdict :=
  match Driver.Ops.FileWrite.parseCase l, l.inNat "kind", l.inNat "k", l.inNat "buf", l.outStr "st", l.outNat "sunk", l.outNat "failed" with
  | some c, some kind, some k, some buf, some stS, some sunk, some failed =>
    if buf != 0 || !(kind == 0 || kind == 1 || kind == 4) || !(Driver.Ops.FileWrite.modelledCodec c.codec) then verdict [] []
    else
      match parseList String.toNat? stS with
      | none => verdict [("writer_created", false)] []
      | some st =>
        let D := Impl.FileReal.deps []
        let healthy := (Writer.fileOf D c.cols c.codec c.page "Carquet" c.ops).2
        if !(healthy.all (· == .ok)) then verdict [] []
        else
          let chunks := callChunks D c.cols c.codec c.page c.ops
          let kinds := c.ops.map (fun o => match o with | .batch _ => CallKind.batch | .newRowGroup => CallKind.newRg) ++ [CallKind.close]
          let pred := predictStatuses kind k kinds chunks
          -- Impl.Sink's session on the same schedule: its close status must be the real one
          let flatSizes := chunks.flatten
          let fo := (failingOp kind k flatSizes).1
          let oracle : Sink.Oracle := fun i =>
            match fo with
            | none => .push 1000000000
            | some f => if i == f then .fail 1000000000 0 else if kind != 4 && i > f then .fail 1000000000 0 else .push 1000000000
          let w0 : Writer.W := { cols := c.cols, codec := c.codec, pageSize := c.page, createdBy := "Carquet" }
          let calls := (c.ops.foldl (fun (acc : Writer.W × List (List Writer.Bytes)) op =>
              let w' := (Writer.step D acc.1 op).1
              (w', acc.2 ++ [w'.out.drop acc.1.out.length])) (w0, [])).2
          let wEnd := c.ops.foldl (fun w op => (Writer.step D w op).1) w0
          let closeWrites := (Writer.close D wEnd).1.drop wEnd.out.length
          let sess := Sink.session oracle false closeWrites {} 0 calls
          let sinkClose := match sess.2.2 with | .ok => 0 | .fileWrite => 13
          verdict ([("sink_statuses", pred.1 == st), ("sink_failed", (if pred.2.2 then 1 else 0) == failed),
                    ("sink_model_close_status", some sinkClose == st.getLast?)] ++
                   (if kind == 4 then [] else [("sink_bytes", pred.2.1 == sunk)])) []
  | _, _, _, _, _, _, _ => .bad "sink args"

def handleTrunc (l : Line) : Verdict :=
  match l.outStr "err" with
  | some _ => .diverge "writer-could-not-be-created"
  | none =>
    match l.outHex "file", (l.outStr "acc").bind (parseList parseAcc) with
    | some file, some acc =>
      let model := modelAccepted file
      verdict [("accepted_prefixes", model == acc), ("shortcut_sound", shortcutSound file)]
              [("accepted_prefix_is_complete_file",
                acc.all (fun a => Spec.FileEnvelope.completeFile (file.take a.1)))]
    | _, _ => .bad "trunc outs"

def handleC04 (l : Line) : Verdict :=
  match l.inHex "file", l.inNat "mode", l.outStr "sum" with
  | some file, some mode, some sum =>
    if startsWith sum "open-error" then
      match Reader.openFile (modeOf mode) file with
      | .error e => verdict [("open_error_code", fieldAfter sum "code_" == some e.code)] []
      | .ok _ => verdict [("model_opens_but_code_refuses", false)] []
    else if startsWith sum "opened" then
      match Reader.openFile (modeOf mode) file with
      | .error _ => verdict [("model_refuses_but_code_opens", false)] []
      | .ok o => verdict [("nrg", fieldAfter sum "nrg_" == some o.numRowGroups),
                          ("nc", fieldAfter sum "nc_" == some o.numColumns)] []
    else verdict [] []      -- the child died before reporting: p_safe=0 is the finding
  | none, _, _ => verdict [] []   -- file too large to be carried on the line: C-side predicate only
  | _, _, _ => .bad "c04 args"

def handle (l : Line) : Option Verdict :=
  match l.op with
  | "trunc" => some (handleTrunc l)
  | "c04" => some (handleC04 l)
  | "abort" => some (verdict [] [])
  | "sinkok" => some (verdict [] [])      -- C05 under a faulty sink: C-side predicate p_close_ok_implies_file
  | "sink" => some (handleSink l)
  | _ => none

end Driver.Ops.FileRead
