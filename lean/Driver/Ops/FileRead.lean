import Carquet.Util
import Carquet.Impl.Reader
import Carquet.Impl.FileReal
import Carquet.Spec.FileEnvelope
import Driver.ReadBack
import Driver.Ops.FileWrite
/-
Driver ops of the reader component (the `wr` read-back fields are judged inside
Driver/Ops/FileWrite through Driver/ReadBack):

  trunc <case> | n=<len> file=x.. acc=<k.mode.nrg.rows,...>          harness/ops_c18.c
      tie: the set of proper prefixes the model's `openFile` accepts, per mode, with the row-group
      and row counts it reports, equals `acc`;
      property (C18): every prefix the REAL code accepted is a complete Parquet file by the
      envelope + footer predicate `Spec.FileEnvelope.completeFile`.
  c04 mode=<m> mut=<..> file=x.. | rc=.. sum=.. p_safe=0/1            harness/ops_c04.c
      tie: model open error (with its code) <-> `sum=open-error_code_..`; when opened, nrg / nc equal.
      p_safe is the property predicate (C side).  Lines without `file=` (> 6000 bytes) carry
      only the C-side predicate.
  sink / sinkok lines of harness/ops_c18.c are judged in Driver/Ops/Sink.lean (the model
      Impl.WriterSink is run in the harness's environment).
  abort <case> at=<i> | removed=.. p_no_file=..                        C-side predicate only
-/
namespace Driver.Ops.FileRead
open Carquet Carquet.Util Carquet.Impl Driver.ReadBack

/-- `k.mode.nrg.rows` -/
def parseAcc (s : String) : Option (Nat × Nat × Nat × Int) :=
  match s.splitOn "." with
  | [k, m, g, r] => do
    let k ← k.toNat?
    let m ← m.toNat?
    let g ← g.toNat?
    let r ← r.toInt?
    some (k, m, g, r)
  | _ => none

/-- positions `k` (prefix lengths) at which a prefix ends in the magic: only these can open -/
def magicEnds (file : Array UInt8) : List Nat :=
  (List.range file.size).filter (fun k =>
    k ≥ 12 && file[k - 4]! == 0x50 && file[k - 3]! == 0x41 && file[k - 2]! == 0x52 && file[k - 1]! == 0x31)

/-- the accepted proper prefixes the model predicts, in the harness's order (k, then mode) -/
def modelAccepted (file : List UInt8) : List (Nat × Nat × Nat × Int) :=
  (magicEnds file.toArray).flatMap (fun k =>
    [0, 1, 2].filterMap (fun m =>
      match Reader.openFile (modeOf m) (file.take k) with
      | .ok o => some (k, m, o.numRowGroups, o.md.numRows)
      | .error _ => none))

/-- every prefix shorter than 12 bytes or not ending in the magic is refused by the model in all
modes (cheap re-check of the shortcut `magicEnds` on the first bytes and on a sample) -/
def shortcutSound (file : List UInt8) : Bool :=
  (List.range (min file.length 40)).all (fun k =>
    (magicEnds file.toArray).contains k ||
    [0, 1, 2].all (fun m => match Reader.openFile (modeOf m) (file.take k) with | .ok _ => false | .error _ => true))

def startsWith (s pre : String) : Bool := s.take pre.length == pre

def fieldAfter (s key : String) : Option Nat :=
  match (s.splitOn key) with
  | _ :: rest :: _ => ((rest.splitOn "_").headD "").toNat?
  | _ => none

def handleTrunc (l : Line) : Verdict :=
  match l.outStr "err" with
  | some _ => .diverge "writer-could-not-be-created"
  | none =>
    match l.outHex "file", (l.outStr "acc").bind (parseList parseAcc) with
    | some file, some acc =>
      let model := modelAccepted file
      verdict [("accepted_prefixes", model == acc), ("shortcut_sound", shortcutSound file)]
              [("accepted_prefix_is_complete_file",
                acc.all (fun a => Spec.FileEnvelope.completeFile (file.take a.1)))]
    | _, _ => .bad "trunc outs"

def handleC04 (l : Line) : Verdict :=
  match l.inHex "file", l.inNat "mode", l.outStr "sum" with
  | some file, some mode, some sum =>
    if startsWith sum "open-error" then
      match Reader.openFile (modeOf mode) file with
      | .error e => verdict [("open_error_code", fieldAfter sum "code_" == some e.code)] []
      | .ok _ => verdict [("model_opens_but_code_refuses", false)] []
    else if startsWith sum "opened" then
      match Reader.openFile (modeOf mode) file with
      | .error _ => verdict [("model_refuses_but_code_opens", false)] []
      | .ok o => verdict [("nrg", fieldAfter sum "nrg_" == some o.numRowGroups),
                          ("nc", fieldAfter sum "nc_" == some o.numColumns)] []
    else verdict [] []      -- the child died before reporting: p_safe=0 is the finding
  | none, _, _ => verdict [] []   -- file too large to be carried on the line: C-side predicate only
  | _, _, _ => .bad "c04 args"

def handle (l : Line) : Option Verdict :=
  match l.op with
  | "trunc" => some (handleTrunc l)
  | "c04" => some (handleC04 l)
  | "abort" => some (verdict [] [])
  | "abortw" => some (verdict [] [])    -- abort of a wide-schema writer: judged by the C-side predicates
  | _ => none

end Driver.Ops.FileRead
