import Carquet.Util
import Carquet.Spec.Thrift
import Carquet.Spec.ParquetThrift
import Carquet.Spec.ParquetThriftValue
import Carquet.Impl.Thrift
import Carquet.Impl.ThriftParquet
/-
Driver ops for C13 (harness/ops_thrift.c).  Model checks tie `Impl.Thrift*` (the repaired
code, `Cfg.fixed`) to what the real code returned; property checks evaluate C13's predicates on
what the real code returned, with the Spec as the independent reader:
  th_wfm / th_wph   the bytes carquet wrote decode (Spec.decode) to the Thrift value of the input
  th_pfm / th_pph   how=rt: carquet's own bytes parse back to `norm input`, all bytes consumed;
                    how=fe: bytes of the independent encoder (unknown fields, long forms) parse to
                    exactly the structure they were made from
  th_skip           whenever the Spec decoder reads a value of that wire type from the front of
                    the bytes, `thrift_skip` succeeds and consumes exactly that value
-/
namespace Driver.Ops.Thrift
open Carquet Carquet.Util
open Carquet.Impl.Thrift Carquet.Impl.ThriftParquet

/-! ### token reader (grammar: harness/thrift_tokens.h) -/

abbrev P (α : Type) := List String → Option (α × List String)

def pInt : P Int
  | t :: r => (String.toInt? t).map (·, r)
  | [] => none
def pOptInt : P (Option Int)
  | "-" :: r => some (none, r)
  | t :: r => (String.toInt? t).map (fun v => (some v, r))
  | [] => none
def pBool : P Bool := fun ts => (pInt ts).map (fun (v, r) => (v != 0, r))
def pOptBool : P (Option Bool) := fun ts => (pOptInt ts).map (fun (v, r) => (v.map (· != 0), r))
def pBytes : P (List UInt8)
  | t :: r => (parseHex t).map (·, r)
  | [] => none
def pOptStr : P (Option (List UInt8))
  | "-" :: r => some (none, r)
  | t :: r => (parseHex t).map (fun v => (some v, r))
  | [] => none
def pMany {α : Type} (p : P α) : Nat → P (List α)
  | 0, ts => some ([], ts)
  | n + 1, ts => do
    let (x, r) ← p ts
    let (xs, r') ← pMany p n r
    pure (x :: xs, r')
def pList {α : Type} (p : P α) : P (List α) := fun ts => do
  let (n, r) ← pInt ts
  if n < 0 then none else pMany p n.toNat r
def pOptStruct {α : Type} (p : P α) : P (Option α)
  | "-" :: r => some (none, r)
  | "+" :: r => (p r).map (fun (v, r') => (some v, r'))
  | _ => none

def pStats : P Statistics := fun ts => do
  let (a, ts) ← pBytes ts
  let (b, ts) ← pBytes ts
  let (c, ts) ← pOptInt ts
  let (d, ts) ← pOptInt ts
  let (e, ts) ← pBytes ts
  let (f, ts) ← pBytes ts
  let (g, ts) ← pOptBool ts
  let (h, ts) ← pOptBool ts
  pure (⟨a, b, c, d, e, f, g, h⟩, ts)

def unitOf (v : Int) : TimeUnit := if v = 0 then .millis else if v = 1 then .micros else .nanos

def pLogical : P (Option LogicalType)
  | "-" :: r => some (none, r)
  | ts => do
    let (id, ts) ← pInt ts
    match id with
    | 0 => pure (some .unknown, ts)
    | 1 => pure (some .string, ts)
    | 2 => pure (some .map, ts)
    | 3 => pure (some .list, ts)
    | 4 => pure (some .enum, ts)
    | 5 => do
      let (s, ts) ← pInt ts
      let (p, ts) ← pInt ts
      pure (some (.decimal s p), ts)
    | 6 => pure (some .date, ts)
    | 7 => do
      let (u, ts) ← pBool ts
      let (n, ts) ← pInt ts
      pure (some (.time u (unitOf n)), ts)
    | 8 => do
      let (u, ts) ← pBool ts
      let (n, ts) ← pInt ts
      pure (some (.timestamp u (unitOf n)), ts)
    | 9 => do
      let (w, ts) ← pInt ts
      let (s, ts) ← pBool ts
      pure (some (.integer w s), ts)
    | 10 => pure (some .null, ts)
    | 11 => pure (some .json, ts)
    | 12 => pure (some .bson, ts)
    | 13 => pure (some .uuid, ts)
    | 14 => pure (some .float16, ts)
    | _ => none

def pSchema : P SchemaElement := fun ts => do
  let (a, ts) ← pOptInt ts
  let (b, ts) ← pInt ts
  let (c, ts) ← pOptInt ts
  let (d, ts) ← pOptStr ts
  let (e, ts) ← pInt ts
  let (f, ts) ← pOptInt ts
  let (g, ts) ← pInt ts
  let (h, ts) ← pInt ts
  let (i, ts) ← pOptInt ts
  let (j, ts) ← pLogical ts
  pure (⟨a, b, c, d, e, f, g, h, i, j⟩, ts)

def pKV : P KeyValue := fun ts => do
  let (k, ts) ← pOptStr ts
  let (v, ts) ← pOptStr ts
  pure (⟨k, v⟩, ts)

def pEncStats : P PageEncodingStats := fun ts => do
  let (a, ts) ← pInt ts
  let (b, ts) ← pInt ts
  let (c, ts) ← pInt ts
  pure (⟨a, b, c⟩, ts)

def pColMeta : P ColumnMetaData := fun ts => do
  let (ty, ts) ← pInt ts
  let (enc, ts) ← pList pInt ts
  let (path, ts) ← pList pBytes ts
  let (codec, ts) ← pInt ts
  let (nv, ts) ← pInt ts
  let (tu, ts) ← pInt ts
  let (tc, ts) ← pInt ts
  let (kv, ts) ← pList pKV ts
  let (dpo, ts) ← pInt ts
  let (ipo, ts) ← pOptInt ts
  let (dipo, ts) ← pOptInt ts
  let (st, ts) ← pOptStruct pStats ts
  let (es, ts) ← pList pEncStats ts
  let (bfo, ts) ← pOptInt ts
  let (bfl, ts) ← pOptInt ts
  pure (⟨ty, enc, path, codec, nv, tu, tc, kv, dpo, ipo, dipo, st, es, bfo, bfl⟩, ts)

def pChunk : P ColumnChunk := fun ts => do
  let (fp, ts) ← pOptStr ts
  let (fo, ts) ← pInt ts
  let (md, ts) ← pOptStruct pColMeta ts
  let (a, ts) ← pOptInt ts
  let (b, ts) ← pOptInt ts
  let (c, ts) ← pOptInt ts
  let (d, ts) ← pOptInt ts
  pure (⟨fp, fo, md, a, b, c, d⟩, ts)

def pRowGroup : P RowGroup := fun ts => do
  let (cols, ts) ← pList pChunk ts
  let (a, ts) ← pInt ts
  let (b, ts) ← pInt ts
  let (c, ts) ← pOptInt ts
  let (d, ts) ← pOptInt ts
  let (e, ts) ← pOptInt ts
  pure (⟨cols, a, b, c, d, e⟩, ts)

def pFileMeta : P FileMetaData := fun ts => do
  let (v, ts) ← pInt ts
  let (sch, ts) ← pList pSchema ts
  let (nr, ts) ← pInt ts
  let (rgs, ts) ← pList pRowGroup ts
  let (kv, ts) ← pList pKV ts
  let (cb, ts) ← pOptStr ts
  pure (⟨v, sch, nr, rgs, kv, cb⟩, ts)

def pPageHeader : P PageHeader := fun ts => do
  let (ty, ts) ← pInt ts
  let (u, ts) ← pInt ts
  let (c, ts) ← pInt ts
  let (crc, ts) ← pOptInt ts
  if ty = 0 then do
    let (a, ts) ← pInt ts
    let (b, ts) ← pInt ts
    let (d, ts) ← pInt ts
    let (e, ts) ← pInt ts
    let (st, ts) ← pOptStruct pStats ts
    pure ({ type := ty, uncompressedPageSize := u, compressedPageSize := c, crc := crc,
            dataPageHeader := ⟨a, b, d, e, st⟩ }, ts)
  else if ty = 3 then do
    let (a, ts) ← pInt ts
    let (b, ts) ← pInt ts
    let (d, ts) ← pInt ts
    let (e, ts) ← pInt ts
    let (f, ts) ← pInt ts
    let (g, ts) ← pInt ts
    let (ic, ts) ← pBool ts
    let (st, ts) ← pOptStruct pStats ts
    pure ({ type := ty, uncompressedPageSize := u, compressedPageSize := c, crc := crc,
            dataPageHeaderV2 := ⟨a, b, d, e, f, g, ic, st⟩ }, ts)
  else if ty = 2 then do
    let (a, ts) ← pInt ts
    let (b, ts) ← pInt ts
    let (s, ts) ← pBool ts
    pure ({ type := ty, uncompressedPageSize := u, compressedPageSize := c, crc := crc,
            dictionaryPageHeader := ⟨a, b, s⟩ }, ts)
  else pure ({ type := ty, uncompressedPageSize := u, compressedPageSize := c, crc := crc }, ts)

def readAll {α : Type} (p : P α) (s : String) : Option α :=
  match p (s.splitOn ",") with
  | some (v, []) => some v
  | _ => none

/-- what the harness prints of a page header: the member selected by `type` only -/
def viewPH (h : PageHeader) : PageHeader :=
  { h with dataPageHeader := if h.type = pageData then h.dataPageHeader else {}
           dataPageHeaderV2 := if h.type = pageDataV2 then h.dataPageHeaderV2 else {}
           dictionaryPageHeader := if h.type = pageDictionary then h.dictionaryPageHeader else {} }

def stOk (st : Int) (e : Option Err) : Bool := (st == 0) == e.isNone

/-! ### encoder programs -/

def runEnc : List String → Enc → Option Enc
  | [], e => some e
  | "sb" :: r, e => runEnc r (writeStructBegin e)
  | "se" :: r, e => runEnc r (writeStructEnd e)
  | "fs" :: r, e => runEnc r (writeFieldStop e)
  | "fh" :: a :: b :: r, e => do
    let ty ← String.toInt? a
    let id ← String.toInt? b
    runEnc r (writeFieldHeader e (ty % 16).toNat id)
  | "i16" :: a :: r, e => do runEnc r (writeI e (← String.toInt? a))
  | "i32" :: a :: r, e => do runEnc r (writeI e (← String.toInt? a))
  | "i64" :: a :: r, e => do runEnc r (writeI e (← String.toInt? a))
  | "by" :: a :: r, e => do runEnc r (writeByte e (byteOfI8 (← String.toInt? a)))
  | "bo" :: a :: r, e => do runEnc r (writeBool e ((← String.toInt? a) != 0))
  | "db" :: a :: r, e => do runEnc r (writeDouble e (← String.toNat? a))
  | "bin" :: a :: r, e => do runEnc r (writeBinary e (← parseHex a))
  | "str" :: a :: r, e => do runEnc r (writeString e (some (← parseHex a)))
  | "strnull" :: r, e => runEnc r (writeString e none)
  | "uu" :: a :: r, e => do runEnc r (writeUuid e (← parseHex a))
  | "lb" :: a :: b :: r, e => do
    let ty ← String.toInt? a
    let n ← String.toInt? b
    runEnc r (writeListBegin e (ty % 16).toNat n)
  | "mb" :: a :: b :: c :: r, e => do
    let kt ← String.toInt? a
    let vt ← String.toInt? b
    let n ← String.toInt? c
    runEnc r (writeMapBegin e (kt % 16).toNat (vt % 16).toNat n)
  | "vi" :: a :: r, e => do runEnc r (writeVarint e (← String.toNat? a))
  | _, _ => none

/-! ### the Spec as independent reader -/

def specType (ty : Nat) : Option Spec.Thrift.TType := if ty = 1 ∨ ty = 2 then none else Spec.Thrift.elemType ty

def handle (l : Line) : Option Verdict :=
  match l.op with
  | "th_wfm" => some <|
    match (l.inStr "v").bind (readAll pFileMeta), l.outInt "st", l.outHex "out" with
    | some v, some st, some out =>
      verdict [("status", stOk st (writeFileMetaDataStatus v)), ("bytes", writeFileMetaData v == out)]
              [("write_ok", st == 0),
               ("spec_decodes_to_value",
                  (Spec.Thrift.decodeStruct out).map (Spec.Thrift.TVal.beq (Spec.ParquetThrift.fileMetaDataTV v)) == some true)]
    | _, _, _ => .bad "th_wfm args"
  | "th_wph" => some <|
    match (l.inStr "v").bind (readAll pPageHeader), l.outInt "st", l.outHex "out" with
    | some v, some st, some out =>
      verdict [("status", stOk st (writePageHeaderStatus v)), ("bytes", writePageHeader v == out)]
              [("write_ok", st == 0),
               ("spec_decodes_to_value",
                  (Spec.Thrift.decodeStruct out).map (Spec.Thrift.TVal.beq (Spec.ParquetThrift.pageHeaderTV v)) == some true)]
    | _, _, _ => .bad "th_wph args"
  | "th_pfm" => some <|
    match l.inHex "b", l.outInt "st" with
    | some b, some st =>
      let r := parseFileMetaDataX Cfg.fixed b
      let got := (l.outStr "v").bind (readAll pFileMeta)
      let tie := [("status", stOk st r.status),
                  ("value", st != 0 || r.overlay || got == some r.val)]
      match l.inStr "exp", l.inStr "how" with
      | some e, some how =>
        match readAll pFileMeta e with
        | none => .bad "th_pfm exp"
        | some ev =>
          verdict tie [("parses_back", st == 0 && got == some (if how == "rt" then ev.norm else ev))]
      | _, _ => verdict tie []
    | _, _ => .bad "th_pfm args"
  | "th_pph" => some <|
    match l.inHex "b", l.outInt "st", l.outNat "used" with
    | some b, some st, some used =>
      let r := parsePageHeaderX Cfg.fixed b
      let got := (l.outStr "v").bind (readAll pPageHeader)
      let tie := [("status", stOk st r.status),
                  ("consumed", st != 0 || used == r.consumed),
                  ("value", st != 0 || r.overlay || got == some (viewPH r.val))]
      match l.inStr "exp", l.inStr "how" with
      | some e, some how =>
        match readAll pPageHeader e with
        | none => .bad "th_pph exp"
        | some ev =>
          verdict tie [("parses_back", st == 0 && got == some (if how == "rt" then ev.norm else viewPH ev)),
                       ("consumed_all", used == b.length)]
      | _, _ => verdict tie []
    | _, _, _ => .bad "th_pph args"
  | "th_skip" => some <|
    match l.inNat "ty", l.inHex "b", l.outInt "st", l.outNat "pos", l.outNat "lvl", l.outNat "pend" with
    | some ty, some b, some st, some pos, some lvl, some pend =>
      let d := skipField Cfg.fixed ty (Dec.init b)
      let tie := [("status", stOk st d.status), ("pos", d.pos == pos), ("lvl", d.lastId.length == lvl),
                  ("pend", d.boolPending == (pend != 0))]
      match (specType ty).bind (fun t => Spec.Thrift.decode t b) with
      | some (v, rest) =>
        if v.depth ≤ maxNesting then verdict tie [("skip_consumes_value", st == 0 && pos + rest.length == b.length)]
        else verdict tie [("skip_refuses_deep_value", st != 0)]
      | none => verdict tie []
    | _, _, _, _, _, _ => .bad "th_skip args"
  | "th_rd" => some <|
    match l.inStr "k", l.inHex "b", l.outInt "st", l.outNat "pos" with
    | some k, some b, some st, some pos =>
      let d0 := Dec.init b
      let fin (d : Dec) (extra : List (String × Bool)) : Verdict :=
        verdict ([("status", stOk st d.status), ("pos", d.pos == pos)] ++ extra) []
      match k with
      | "varint" => fin (readVarint d0).2 [("r", l.outNat "r" == some (readVarint d0).1)]
      | "zz" => fin (readZigzag d0).2 [("r", l.outInt "r" == some (toI64 (readZigzag d0).1))]
      | "i16" => fin (readI16 d0).2 [("r", l.outInt "r" == some (readI16 d0).1)]
      | "i32" => fin (readI32 d0).2 [("r", l.outInt "r" == some (readI32 d0).1)]
      | "byte" => fin (readI8 d0).2 [("r", l.outInt "r" == some (readI8 d0).1)]
      | "double" => fin (readDouble d0).2 [("r", l.outNat "r" == some (readDouble d0).1)]
      | "bool" => fin (readBool d0).2 [("r", l.outNat "r" == some (if (readBool d0).1 then 1 else 0))]
      | "binary" =>
        let r := readBinary d0
        fin r.2.2 [("len", l.outInt "r" == some r.2.1), ("null", l.outNat "null" == some (if r.1.isNone then 1 else 0)),
                   ("data", l.outHex "data" == some (r.1.getD []))]
      | "listb" =>
        let r := readListBegin d0
        fin r.dec [("count", l.outInt "r" == some r.count), ("et", l.outNat "et" == some r.elemTy)]
      | "mapb" =>
        let r := readMapBegin d0
        fin r.dec [("count", l.outInt "r" == some r.count), ("kt", l.outNat "kt" == some r.keyTy),
                   ("vt", l.outNat "vt" == some r.valTy)]
      | "fieldb" =>
        let f1 := readFieldBegin (structBegin d0)
        let f2 := readFieldBegin f1.dec
        fin f2.dec [("m1", l.outNat "r" == some (if f1.more then 1 else 0)), ("t1", l.outNat "t1" == some f1.ty),
                    ("f1", l.outInt "f1" == some f1.fid), ("m2", l.outNat "m2" == some (if f2.more then 1 else 0)),
                    ("t2", l.outNat "t2" == some f2.ty), ("f2", l.outInt "f2" == some f2.fid),
                    ("pend", l.outNat "pend" == some (if f2.dec.boolPending then 1 else 0)),
                    ("bv", !f2.dec.boolPending || l.outNat "bv" == some (if f2.dec.boolValue then 1 else 0))]
      | "uuid" => fin (readUuid d0).2 [("data", l.outHex "data" == some (readUuid d0).1)]
      | _ => .bad "th_rd kind"
    | _, _, _, _ => .bad "th_rd args"
  | "th_enc" => some <|
    match l.inStr "prog", l.outInt "st", l.outHex "out", l.outNat "lvl", l.outNat "bad" with
    | some prog, some st, some out, some lvl, some bad =>
      if bad != 0 then .bad "th_enc program" else
      match runEnc (prog.splitOn ",") Enc.init with
      | none => .bad "th_enc program (driver)"
      | some e => verdict [("status", stOk st e.status), ("bytes", e.out == out), ("lvl", e.lastId.length == lvl)] []
    | _, _, _, _, _ => .bad "th_enc args"
  | _ => none

end Driver.Ops.Thrift
