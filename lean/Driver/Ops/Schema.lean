import Carquet.Util
import Carquet.Spec.Schema
import Carquet.Impl.Schema
/-
Driver ops for C17 (see harness/ops_schema.c for the line formats).
-/
namespace Driver.Ops.Schema
open Carquet Carquet.Util Carquet.Spec.Schema

def repOf : Int → Option (Option Rep)
  | -1 => some none
  | 0 => some (some .required)
  | 1 => some (some .optional)
  | 2 => some (some .repeated)
  | _ => none

def parseEl (s : String) : Option Element :=
  match s.splitOn "." with
  | [nm, rep, pt, tl, nc] => do
    let r ← repOf (← rep.toInt?)
    let p ← pt.toInt?
    let t ← tl.toInt?
    let n ← nc.toInt?
    some ⟨⟨nm, r, if p < 0 then none else some p.toNat, t, none, none⟩, n⟩
  | [nm, rep, pt, tl] => do
    let r ← repOf (← rep.toInt?)
    let p ← pt.toInt?
    let t ← tl.toInt?
    some ⟨⟨nm, r, if p < 0 then none else some p.toNat, t, none, none⟩, 0⟩
  | _ => none

def parseLeaf (s : String) : Option Leaf :=
  match s.splitOn "." with
  | [a, b, c] => do some ⟨← a.toNat?, ← b.toNat?, ← c.toNat?⟩
  | _ => none

def elsOf (l : Line) (k : String) : Option (List Element) := (l.inStr k).bind (parseList parseEl)

def handle (l : Line) : Option Verdict :=
  match l.op with
  -- `schema_file`: the same element list written as the footer of a file (no row groups) and opened through
  -- carquet_reader_open_buffer - footer parser, its limits and build_schema together (harness/ops_schema.c)
  | "schema_build" | "schema_file" => some <|
    match elsOf l "els" with
    | none => .bad "els"
    | some els =>
      if l.outStr "err" == some "1" then
        verdict [("impl_model_error", (Impl.Schema.build els).isNone)]
          [("wellformed_schema_accepted", match parseTree els with
              | some root => !(groupsNonEmpty root && typed root)
              | none => true)]
      else match l.outNat "n", (l.outStr "leaves").bind (parseList parseLeaf) with
      | some n, some lv =>
        let m := (Impl.Schema.build els).getD []
        let prop : List (String × Bool) :=
          match parseTree els with
          | some root =>
            if groupsNonEmpty root && typed root then [("leaves_and_levels_match_spec", lv == leaves root && n == (leaves root).length)]
            else []
          | none => []
        verdict [("impl_model_leaves", m == lv), ("impl_model_count", Impl.Schema.countLeaves els == n)] prop
      | _, _ => .bad "outs"
  | "schema_find" => some <|
    match elsOf l "els", l.inStr "name", l.outInt "r" with
    | some els, some nm, some r =>
      if (Impl.Schema.build els).isNone then .diverge "model-says-error" else
      let lv := Impl.Schema.buildLeaves els
      let m : Int := match Impl.Schema.findColumn els lv nm with | some i => i | none => -1
      let prop : List (String × Bool) :=
        match parseTree els with
        | some root =>
          if groupsNonEmpty root && typed root then
            let want : Int := match (leaves root).findIdx? (fun lf => (els[lf.elemIdx]?.map (·.info.name)) == some nm) with
              | some i => i | none => -1
            [("find_by_name", want == r)]
          else []
        | none => []
      verdict [("impl_model_find", m == r)] prop
    | _, _, _ => .bad "args"
  | "schema_builder_faults" => some .ok   -- builder calls under allocation failure: judged by the C-side predicates
  | "schema_builder" => some <|
    match (l.inStr "cols").bind (parseList parseEl) with
    | none => .bad "cols"
    | some cols =>
      if l.outStr "err" == some "1" then .diverge "unexpected-error"
      else match l.outNat "nel", l.outNat "n", (l.outStr "leaves").bind (parseList parseLeaf), (l.outStr "els").bind (parseList parseEl) with
      | some nel, some n, some lv, some els =>
        let b := cols.foldl (fun b c => b.add c.info) Impl.Schema.Builder.create
        let allCols := cols.all (fun c => c.info.ptype.isSome)
        let flat : Node := .group Impl.Schema.rootInfo (cols.map (fun c => .leaf c.info))
        -- with groups (empty groups under the root: the builder API cannot give them children) the property is the
        -- element list itself: every entry in call order under a root that counts them all, leaves = the typed entries
        let expectEls : List Element := ⟨Impl.Schema.rootInfo, cols.length⟩ ::
          cols.map (fun c => ⟨if c.info.ptype.isSome then c.info else { c.info with typeLength := 0 }, 0⟩)
        verdict [("impl_model_elements", b.elements == els), ("impl_model_leaves", b.leaves == lv),
                 ("impl_model_counts", b.elements.length == nel && b.leaves.length == n)]
                (if allCols then [("builder_matches_flat_spec", els == flatten flat && lv == leaves flat && n == cols.length)]
                 else [("builder_elements_in_call_order", els == expectEls),
                       ("builder_leaves_are_the_typed_entries", n == (cols.filter (fun c => c.info.ptype.isSome)).length)])
      | _, _, _, _ => .bad "outs"
  | _ => none

end Driver.Ops.Schema
