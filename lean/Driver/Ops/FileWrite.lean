import Carquet.Util
import Carquet.Impl.FileReal
import Driver.ReadBack
/-
Driver op `wr` (harness/ops_file.c): a write history executed by the real writer.
Tie: the bytes of the file equal `Impl.Writer.fileOf` instantiated with the component models
(codecs UNCOMPRESSED / SNAPPY / LZ4 / LZ4_RAW; GZIP and ZSTD pages depend on zlib / libzstd and
are compared structurally elsewhere), and the statuses of all calls are OK as the model says.
Property predicates carried by the line itself (C side): p_roundtrip (C01), p_modes (C03),
p_same_twice (C05).  The read-back fields `nrg rows ncol r<g>_<c>` (present when every call
returned OK) are judged by Driver/ReadBack: tie of the model READER on the real file, and C01's
own predicate (what was read back is the table the history intends).
-/
namespace Driver.Ops.FileWrite
open Carquet Carquet.Util Carquet.Impl.Writer

def parseCol (s : String) : Option Col :=
  match s.splitOn "." with
  | [nm, rep, pt, tl] => do
    let r ← rep.toNat?
    let p ← pt.toNat?
    let t ← tl.toNat?
    let ptype ← PType.ofCode p
    let rp ← (match r with | 0 => some Rep.required | 1 => some Rep.optional | 2 => some Rep.repeated | _ => none)
    some ⟨nm, ptype, rp, t⟩
  | _ => none

def parseDefs (s : String) : Option (Nat × Option (List Nat)) :=
  if s == "E" then some (0, some [])
  else if s.startsWith "N" then (s.drop 1).toString.toNat?.map (fun n => (n, none))
  else
    let ds := s.toList.map (fun c => if c == '1' then 1 else 0)
    if s.toList.all (fun c => c == '0' || c == '1') then some (ds.length, some ds) else none

def parseVals (s : String) : Option (List Val) :=
  if s == "-" then some [] else (s.splitOn ":").mapM parseHex

/-- `R0110…` (one character per entry) or `RE` (no entry) -/
def parseReps (n : Nat) (s : String) : Option (List Nat) :=
  if !s.startsWith "R" then none
  else
    let body := (s.drop 1).toString
    if body == "E" then (if n = 0 then some [] else none)
    else if body.toList.all (fun c => c == '0' || c == '1') && body.length == n then
      some (body.toList.map (fun c => if c == '1' then 1 else 0))
    else none

def parseStep (s : String) : Option Op :=
  if s == "rg" then some .newRowGroup
  else match s.splitOn "." with
    | ["b", col, defs, vals] => do
      let c ← col.toNat?
      let (n, ds) ← parseDefs defs
      let vs ← parseVals vals
      some (.batch ⟨c, n, ds, vs, none⟩)
    | ["b", col, defs, vals, reps] => do      -- fifth field `R<levels>`: a rep_levels array was passed
      let c ← col.toNat?
      let (n, ds) ← parseDefs defs
      let vs ← parseVals vals
      let rs ← parseReps n reps
      some (.batch ⟨c, n, ds, vs, some rs⟩)
    | _ => none

structure Case where
  cols : List Col
  codec : Nat
  page : Nat
  ops : List Op

def parseCase (l : Line) : Option Case := do
  let cols ← (l.inStr "cols").bind (parseList parseCol)
  let codec ← l.inNat "codec"
  let page ← l.inNat "page"
  let ns ← l.inNat "ns"
  let ops ← (List.range ns).mapM (fun i => (l.inStr s!"s{i}").bind parseStep)
  some ⟨cols, codec, page, ops⟩

def statusCode : Status → Nat
  | .ok => 0 | .invalidArgument => 1 | .fileWrite => 13 | .other => 999

def modelledCodec (c : Nat) : Bool := c == 0 || c == 1 || c == 5 || c == 7

/-- `woracle=u1:c1,u2:c2,…` of GZIP / ZSTD files: page bodies found in the file and what zlib / libzstd, called
directly with the writer's hard-wired parameters, compress them to -/
def parseOracle (s : String) : Option Impl.FileReal.Oracle :=
  parseList (fun p => match p.splitOn ":" with
    | [u, c] => do
      let ub ← parseHex u
      let cb ← parseHex c
      some (ub, cb)
    | _ => none) s

def handle (l : Line) : Option Verdict :=
  match l.op with
  | "wrtwice" => some .ok      -- directed determinism cases: judged by the C-side predicate p_same_twice
  | "wr" => some <|
    match parseCase l with
    | none => .bad "wr case"
    | some c =>
      if (l.outStr "err").isSome then .diverge "writer-could-not-be-created"
      else match l.outNats "st", l.outHex "file" with
      | some st, some file =>
        let rb := if st.all (· == 0) then Driver.ReadBack.readChecks c.cols c.codec c.ops file l else ([], [])
        if modelledCodec c.codec then
          let m := fileOf (Impl.FileReal.deps []) c.cols c.codec c.page "Carquet" c.ops
          verdict ([("writer_model_statuses", m.2.map statusCode == st),
                    ("writer_model_bytes", m.1 == file)] ++ rb.1) rb.2
        else if c.codec == 2 || c.codec == 6 then
          match (l.outStr "woracle").bind parseOracle with
          | some o =>
            let m := fileOf (Impl.FileReal.deps o) c.cols c.codec c.page "Carquet" c.ops
            verdict ([("writer_model_statuses", m.2.map statusCode == st),
                      ("writer_model_bytes_with_library_oracle", m.1 == file)] ++ rb.1) rb.2
          | none => verdict ([("writer_model_statuses_all_ok", st.all (· == 0))] ++ rb.1) rb.2
        else
          verdict ([("writer_model_statuses_all_ok", st.all (· == 0))] ++ rb.1) rb.2
      | _, _ => .bad "wr outs"
  | _ => none

end Driver.Ops.FileWrite
