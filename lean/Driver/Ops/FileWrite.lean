import Carquet.Util
import Carquet.Impl.FileReal
import Carquet.Impl.SchemaApi
import Carquet.Impl.WriterSpecTable
import Carquet.Spec.File
import Driver.ReadBack
/-
Driver op `wr` (harness/ops_file.c): a write history executed by the real writer.
Tie: the bytes of the file equal `Impl.Writer.fileOf` instantiated with the component models
(codecs UNCOMPRESSED / SNAPPY / LZ4 / LZ4_RAW; GZIP and ZSTD pages depend on zlib / libzstd and
are compared structurally elsewhere), and the statuses of all calls are OK as the model says.
Property predicates carried by the line itself (C side): p_roundtrip (C01), p_modes (C03),
p_same_twice (C05).  The read-back fields `nrg rows ncol r<g>_<c>` (present when every call
returned OK) are judged by Driver/ReadBack: tie of the model READER on the real file, and C01's
own predicate (what was read back is the table the history intends).
-/
namespace Driver.Ops.FileWrite
open Carquet Carquet.Util Carquet.Impl.Writer

/-- the `logical_type` argument of `carquet_schema_add_column`: `N` = NULL pointer, else `id:p1:p2` with the id of
`carquet_logical_type_id_t` and the two members of the `params` union that belong to it (DECIMAL precision:scale,
INTEGER bit_width:is_signed, TIME / TIMESTAMP unit:is_adjusted_to_utc, 0:0 otherwise) — the notation of the
`apibuild` lines -/
def parseLogical (s : String) : Option (Option Impl.ThriftParquet.LogicalType) :=
  if s == "N" then some none else
  match s.splitOn ":" with
  | [i, a, b] => do
    let i ← i.toNat?; let a ← a.toInt?; let b ← b.toInt?
    let unit : Impl.ThriftParquet.TimeUnit := if a == 0 then .millis else if a == 1 then .micros else .nanos
    match i with
    | 0 => some (some .unknown) | 1 => some (some .string) | 2 => some (some .map) | 3 => some (some .list)
    | 4 => some (some .enum) | 5 => some (some (.decimal b a)) | 6 => some (some .date)
    | 7 => some (some (.time (b != 0) unit)) | 8 => some (some (.timestamp (b != 0) unit))
    | 9 => some (some (.integer a (b != 0))) | 10 => some (some .null) | 11 => some (some .json)
    | 12 => some (some .bson) | 13 => some (some .uuid) | 14 => some (some .float16) | _ => none
  | _ => none

def showLogical : Option Impl.ThriftParquet.LogicalType → String
  | none => "N"
  | some l => s!"{Impl.SchemaApi.logicalId l}:{(Impl.SchemaApi.logicalParams l).1}:{(Impl.SchemaApi.logicalParams l).2}"

/-- `name.rep.ptype.tlen` (lines written before logical types were generated: NULL pointer) or
`name.rep.ptype.tlen.<logical>` -/
def parseCol (s : String) : Option Col :=
  let mk (nm rep pt tl : String) (lt : Option Impl.ThriftParquet.LogicalType) : Option Col := do
    let r ← rep.toNat?
    let p ← pt.toNat?
    let t ← tl.toNat?
    let ptype ← PType.ofCode p
    let rp ← (match r with | 0 => some Rep.required | 1 => some Rep.optional | 2 => some Rep.repeated | _ => none)
    some ⟨nm, ptype, rp, t, lt⟩
  match s.splitOn "." with
  | [nm, rep, pt, tl] => mk nm rep pt tl none
  | [nm, rep, pt, tl, lt] => (parseLogical lt).bind (mk nm rep pt tl)
  | _ => none

def parseDefs (s : String) : Option (Nat × Option (List Nat)) :=
  if s == "E" then some (0, some [])
  else if s.startsWith "N" then (s.drop 1).toString.toNat?.map (fun n => (n, none))
  else
    let ds := s.toList.map (fun c => if c == '1' then 1 else 0)
    if s.toList.all (fun c => c == '0' || c == '1') then some (ds.length, some ds) else none

def parseVals (s : String) : Option (List Val) :=
  if s == "-" then some [] else (s.splitOn ":").mapM parseHex

/-- `R0110…` (one character per entry) or `RE` (no entry) -/
def parseReps (n : Nat) (s : String) : Option (List Nat) :=
  if !s.startsWith "R" then none
  else
    let body := (s.drop 1).toString
    if body == "E" then (if n = 0 then some [] else none)
    else if body.toList.all (fun c => c == '0' || c == '1') && body.length == n then
      some (body.toList.map (fun c => if c == '1' then 1 else 0))
    else none

def parseStep (s : String) : Option Op :=
  if s == "rg" then some .newRowGroup
  else match s.splitOn "." with
    | ["b", col, defs, vals] => do
      let c ← col.toNat?
      let (n, ds) ← parseDefs defs
      let vs ← parseVals vals
      some (.batch ⟨c, n, ds, vs, none⟩)
    | ["b", col, defs, vals, reps] => do      -- fifth field `R<levels>`: a rep_levels array was passed
      let c ← col.toNat?
      let (n, ds) ← parseDefs defs
      let vs ← parseVals vals
      let rs ← parseReps n reps
      some (.batch ⟨c, n, ds, vs, some rs⟩)
    | _ => none

structure Case where
  cols : List Col
  codec : Nat
  page : Nat
  ops : List Op

def parseCase (l : Line) : Option Case := do
  let cols ← (l.inStr "cols").bind (parseList parseCol)
  let codec ← l.inNat "codec"
  let page ← l.inNat "page"
  let ns ← l.inNat "ns"
  let ops ← (List.range ns).mapM (fun i => (l.inStr s!"s{i}").bind parseStep)
  some ⟨cols, codec, page, ops⟩

def statusCode : Status → Nat
  | .ok => 0 | .invalidArgument => 1 | .fileWrite => 13 | .other => 999

def modelledCodec (c : Nat) : Bool := c == 0 || c == 1 || c == 5 || c == 7

/-- `woracle=u1:c1,u2:c2,…` of GZIP / ZSTD files: page bodies found in the file and what zlib / libzstd, called
directly with the writer's hard-wired parameters, compress them to -/
def parseOracle (s : String) : Option Impl.FileReal.Oracle :=
  parseList (fun p => match p.splitOn ":" with
    | [u, c] => do
      let ub ← parseHex u
      let cb ← parseHex c
      some (ub, cb)
    | _ => none) s

/-! ### logical types of the written columns

(b) the INDEPENDENT reader's metadata stages (`Spec.File.readSchema`: envelope, footer with the required-field
and union rules of parquet.thrift, schema tree) on the REAL file must return the schema tree of the theorem
(`specSchemaOf cols`: names, repetition, types, type lengths, no converted type, and for every column exactly
the logical type it was created with);
(c) `carquet_schema_node_logical_type` of every element of the re-opened file, in the three modes (`lt0` fread,
`lt1` mmap, `lt2` buffer): tie = the reader MODEL's accessor on the real bytes returns the same; property =
it is what the columns were created with (`colLogical`: NULL for a NULL pointer or id UNKNOWN). -/

def reasonStr (r : Spec.File.Reason) : String := ((toString (repr r)).replace " " "_").replace "\n" "_"

def specSchemaChecks (cols : List Col) (file : List UInt8) : List (String × Bool) :=
  match Spec.File.readSchema file with
  | .error r => [("spec_reader_accepts_footer:" ++ reasonStr r, false)]
  | .ok root => [("spec_reader_states_the_written_schema_and_logical_types", Spec.File.nodeBeq root (specSchemaOf cols))]

def modelAccessors (mode : Impl.Reader.Mode) (file : List UInt8) : Option String :=
  match Impl.Reader.openFile mode file with
  | .ok o => some (showList (fun e => showLogical (Impl.SchemaApi.nodeLogicalType e)) o.md.schema)
  | .error _ => none

def writtenAccessors (cols : List Col) : String :=
  showList id ("N" :: cols.map (fun c => showLogical (Impl.FileReal.colLogical c)))

def logicalChecks (cols : List Col) (file : List UInt8) (l : Line) : List (String × Bool) × List (String × Bool) :=
  let per (k : Nat) (nm : String) : List (String × Bool) × List (String × Bool) :=
    match l.outStr s!"lt{k}" with
    | none => ([], [])
    | some got =>
      ([(s!"reader_model_logical_types_{nm}", modelAccessors (Driver.ReadBack.modeOf k) file == some got)],
       [(s!"accessor_returns_written_logical_types_{nm}", got == writtenAccessors cols)])
  let a := per 0 "fread"; let b := per 1 "mmap"; let c := per 2 "buffer"
  (a.1 ++ b.1 ++ c.1,
   a.2 ++ b.2 ++ c.2 ++ [("logical_types_reported_in_fread_mode", (l.outStr "lt0").isSome || (l.outStr "open").isSome)])

def handle (l : Line) : Option Verdict :=
  match l.op with
  | "wrtwice" => some .ok      -- directed determinism cases: judged by the C-side predicate p_same_twice
  | "wrmany" => some .ok       -- tens of thousands of row groups: judged by the C-side predicate p_roundtrip
  | "wr" => some <|
    match parseCase l with
    | none => .bad "wr case"
    | some c =>
      if (l.outStr "err").isSome then .diverge "writer-could-not-be-created"
      else match l.outNats "st", l.outHex "file" with
      | some st, some file =>
        let rb0 := if st.all (· == 0) then Driver.ReadBack.readChecks c.cols c.codec c.ops file l else ([], [])
        let lg := if st.all (· == 0) then logicalChecks c.cols file l else ([], [])
        let sp := if st.getLast? == some 0 then specSchemaChecks c.cols file else []
        let rb := (rb0.1 ++ lg.1, rb0.2 ++ lg.2 ++ sp)
        if modelledCodec c.codec then
          let m := fileOf (Impl.FileReal.deps []) c.cols c.codec c.page "Carquet" c.ops
          verdict ([("writer_model_statuses", m.2.map statusCode == st),
                    ("writer_model_bytes", m.1 == file)] ++ rb.1) rb.2
        else if c.codec == 2 || c.codec == 6 then
          match (l.outStr "woracle").bind parseOracle with
          | some o =>
            let m := fileOf (Impl.FileReal.deps o) c.cols c.codec c.page "Carquet" c.ops
            verdict ([("writer_model_statuses", m.2.map statusCode == st),
                      ("writer_model_bytes_with_library_oracle", m.1 == file)] ++ rb.1) rb.2
          | none => verdict ([("writer_model_statuses_all_ok", st.all (· == 0))] ++ rb.1) rb.2
        else
          verdict ([("writer_model_statuses_all_ok", st.all (· == 0))] ++ rb.1) rb.2
      | _, _ => .bad "wr outs"
  | _ => none

end Driver.Ops.FileWrite
