import Carquet.Util
import Carquet.Spec.Xxh64
import Carquet.Spec.Sbbf
import Carquet.Impl.Xxh64
import Carquet.Impl.Bloom
/-
Driver ops for C20 (XXH64 and split-block Bloom filter); line formats are described at the top
of harness/ops_bloom.c.  Model checks compare `Impl.Xxh64` / `Impl.Bloom` (the model of the
repaired code) with what the real code returned; property checks evaluate C20's own predicates
on what the real code returned, using `Spec.Xxh64` / `Spec.Sbbf` only.
-/
namespace Driver.Ops.Bloom
open Carquet Carquet.Util

/-- An inserted / probed item: a typed value or a raw 64-bit hash. -/
inductive Item where
  | val (v : Spec.Sbbf.Value)
  | hash (h : BitVec 64)

def parseItem (s : String) : Option Item :=
  match s.toList with
  | 'i' :: r => (String.ofList r).toInt?.map (fun i => .val (.int32 (BitVec.ofInt 32 i)))
  | 'l' :: r => (String.ofList r).toInt?.map (fun i => .val (.int64 (BitVec.ofInt 64 i)))
  | 'f' :: r => (String.ofList r).toNat?.map (fun n => .val (.float (BitVec.ofNat 32 n)))
  | 'd' :: r => (String.ofList r).toNat?.map (fun n => .val (.double (BitVec.ofNat 64 n)))
  | 'h' :: r => (String.ofList r).toNat?.map (fun n => .hash (BitVec.ofNat 64 n))
  | 'b' :: r => (parseHex (String.ofList r)).map (fun b => .val (.bytes b))
  | _ => none

def items (l : Line) (k : String) : Option (List Item) := (l.inStr k).bind (parseList parseItem)

/-- the hash the model of the C code inserts for an item -/
def implHash : Item → BitVec 64
  | .val v => Impl.Bloom.hashOf v
  | .hash h => h

/-- the hash the format prescribes for an item -/
def specHash : Item → BitVec 64
  | .val v => Spec.Sbbf.hashValue v
  | .hash h => h

def b2n (b : Bool) : Nat := if b then 1 else 0

def implRun (req : Nat) (ins : List Item) : Option Impl.Bloom.Filter :=
  (Impl.Bloom.create req).map (fun f => ins.foldl (fun f i => Impl.Bloom.insertHash f (implHash i)) f)

def specRun (z : Nat) (ins : List Item) : Spec.Sbbf.Filter :=
  ins.foldl (fun f i => Spec.Sbbf.insert f (specHash i)) (Spec.Sbbf.empty z)

def statusNum : Impl.Bloom.Status → Nat
  | .ok => 0 | .invalidArgument => 1 | .outOfMemory => 2 | .encode => 3

def rounded (req size nblocks : Nat) : Bool :=
  size % 32 == 0 && size ≥ 32 && size ≥ req && nblocks == size / 32

def handle (l : Line) : Option Verdict :=
  match l.op with
  | "xxh" => some <|
    match l.inHex "data", l.inNat "seed", l.outNat "r" with
    | some d, some seed, some r =>
      verdict [("impl_model", (Impl.Xxh64.xxh64 d (BitVec.ofNat 64 seed)).toNat == r)]
              [("xxh64_spec", (Spec.Xxh64.xxh64 d (BitVec.ofNat 64 seed)).toNat == r)]
    | _, _, _ => .bad "xxh args"
  | "bloom_huge" => some (verdict [] [])   -- a filter of 4 GiB and more: judged by the C-side predicates (harness/ops_bloom.c)
  | "xxhbig" => some <|
    -- a length beyond 32 bits (zero bytes in a no-reserve mapping): judged on the C side against the reference
    -- XXH64 (`p_ref`); the model's list representation is not run on 4 GiB (see harness/ops_bloom.c)
    verdict [] []
  | "bloom" => some <|
    match l.inNat "req", items l "ins", items l "probe", l.outNat "null" with
    | some req, some ins, some probe, some 1 =>
      -- the real code returned NULL: the model must reject the request too
      let _ := ins; let _ := probe
      verdict [("create_null", (Impl.Bloom.create req).isNone)] []
    | some req, some ins, some probe, some 0 =>
      match l.outNat "size", l.outNat "nblocks", l.outHex "data", l.outNats "chk", l.outNats "prb",
            l.outNat "wst", l.outNat "wn", l.outNat "rst", l.outHex "rdata", l.outNats "rchk", l.outNat "rsize" with
      | some size, some nb, some data, some chk, some prb, some wst, some wn, some rst, some rdata, some rchk, some rsize =>
        let spec := specRun (size / 32) ins
        let props := [
          ("size_rounded", rounded req size nb),
          ("sbbf_bytes", Spec.Sbbf.serialize spec == data),
          ("no_false_negative", chk.all (· == 1) && chk.length == ins.length),
          ("sbbf_check", prb == probe.map (fun i => b2n (Spec.Sbbf.check spec (specHash i)))),
          ("survives_reload", wst == 0 && rst == 0 && rdata == data && rchk.all (· == 1) && rchk.length == ins.length)]
        match implRun req ins with
        | none => verdict [("create_null", false)] props
        | some f =>
          let w := Impl.Bloom.write f size
          let r := Impl.Bloom.read (some w.2)
          verdict [
            ("size", f.numBytes == size && f.numBlocks == nb),
            ("data", f.data == data),
            ("chk", chk == ins.map (fun i => b2n (Impl.Bloom.checkHash f (implHash i)))),
            ("prb", prb == probe.map (fun i => b2n (Impl.Bloom.checkHash f (implHash i)))),
            ("write", statusNum w.1 == wst && w.2.length == wn && w.2 == data),
            ("read", statusNum r.1 == rst &&
              (match r.2 with
               | some g => g.data == rdata && g.numBytes == rsize &&
                           rchk == ins.map (fun i => b2n (Impl.Bloom.checkHash g (implHash i)))
               | none => rdata.isEmpty))] props
      | _, _, _, _, _, _, _, _, _, _, _ => .bad "bloom outs"
    | _, _, _, _ => .bad "bloom args"
  | "bloom_merge" => some <|
    match l.inNat "req", l.inNat "req2", items l "ins", items l "ins2", l.outNat "null" with
    | some req, some req2, some a, some b, some 0 =>
      match l.outNat "st", l.outHex "data", l.outNats "chk" with
      | some st, some data, some chk =>
        match implRun req a, implRun req2 b with
        | some f, some g =>
          let m := Impl.Bloom.merge f g
          let checked := if st == 0 then a ++ b else a
          -- the property's predicate: a successful merge contains the union, and is the word-wise OR
          -- of the two Spec filters
          let sa := specRun (f.numBytes / 32) a
          let sb := specRun (g.numBytes / 32) b
          verdict [
            ("status", statusNum m.1 == st),
            ("data", m.2.data == data),
            ("chk", chk == checked.map (fun i => b2n (Impl.Bloom.checkHash m.2 (implHash i))))]
            [("merge_is_union", chk.all (· == 1) && chk.length == checked.length),
             ("merge_is_or", if st == 0 then Spec.Sbbf.serialize (Spec.Sbbf.union sa sb) == data
                              else Spec.Sbbf.serialize sa == data),
             ("merge_needs_equal_size", (st == 0) == (f.numBytes == g.numBytes))]
        | _, _ => .bad "bloom_merge: model rejects a size the real code accepted"
      | _, _, _ => .bad "bloom_merge outs"
    | some _, some _, some _, some _, some 1 => .bad "bloom_merge: unexpected NULL"
    | _, _, _, _, _ => .bad "bloom_merge args"
  | "bloom_create" => some <|
    match l.inNat "req", l.outNat "null", l.outNat "size", l.outNat "nblocks" with
    | some req, some nul, some size, some nb =>
      -- only the size computation: the data of a huge filter must not be materialised here
      let m := Impl.Bloom.createSize req
      if nul == 1 then
        -- NULL: rejected by the guard, or an allocation that cannot succeed (not modelled)
        verdict [("create_null", match m with | none => true | some n => n ≥ 2 ^ 40)] []
      else
        verdict [("create", match m with
                            | some n => n == size && n / Impl.Bloom.blockSize == nb
                            | none => false)]
                [("size_rounded", rounded req size nb)]
    | _, _, _, _ => .bad "bloom_create args"
  | "bloom_load" => some <|
    match l.inHex "data", l.outNat "st", l.outNat "size", l.outNat "nblocks" with
    | some d, some st, some size, some nb =>
      let r := Impl.Bloom.read (some d)
      verdict [("status", statusNum r.1 == st),
               ("filter", match r.2 with
                          | some f => f.numBytes == size && f.numBlocks == nb && f.data == d
                          | none => size == 0)]
              [("load_accepts_whole_blocks_only", (st == 0) == (d.length ≥ 32 && d.length % 32 == 0))]
    | _, _, _, _ => .bad "bloom_load args"
  | "bloom_write" => some <|
    match l.inNat "req", l.inNat "cap", l.outNat "st", l.outNat "n" with
    | some req, some cap, some st, some n =>
      match implRun req [.val (.int32 7#32)] with
      | some f =>
        let w := Impl.Bloom.write f cap
        verdict [("status", statusNum w.1 == st), ("written", w.2.length == n)] []
      | none => .bad "bloom_write: model rejects the size"
    | _, _, _, _ => .bad "bloom_write args"
  | "bloom_ndv" => some <|
    match l.outNat "null", l.outNat "req", l.outNat "size", l.outNat "nblocks" with
    | some nul, some req, some size, some nb =>
      if nul == 1 then verdict [] []
      else
        verdict [("create", match Impl.Bloom.create req with
                            | some f => f.numBytes == size && f.numBlocks == nb | none => false)]
                [("size_rounded", rounded req size nb)]
    | _, _, _, _ => .bad "bloom_ndv args"
  | "bloom_null" => some <|
    match l.inNat "h", l.outNat "chk", l.outNat "rst" with
    | some h, some chk, some rst =>
      verdict [("check_null", b2n (Impl.Bloom.checkHashOpt none (BitVec.ofNat 64 h)) == chk),
               ("insert_null", (Impl.Bloom.insertHashOpt none (BitVec.ofNat 64 h)).isNone),
               ("read_null", statusNum (Impl.Bloom.read none).1 == rst)] []
    | _, _, _ => .bad "bloom_null args"
  | _ => none

end Driver.Ops.Bloom
