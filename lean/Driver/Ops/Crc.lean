import Carquet.Util
import Carquet.Spec.Crc32
import Carquet.Impl.Crc32
/-
Driver ops for C14 (CRC part).
  crc data=x.. | r=<u32>                   carquet_crc32
  crc_upd a=x.. b=x.. | r=<u32> ra=<u32>   ra = carquet_crc32(a); r = carquet_crc32_update(ra, b)
  crc_dmg data=x.. d2=x.. | r=<u32> r2=<u32>   r = carquet_crc32(data); r2 = carquet_crc32(d2);
                                           d2 differs from data inside one window of <= 32 bits
-/
namespace Driver.Ops.Crc
open Carquet Carquet.Util

/-- Positions (in `Spec.Crc32.bits` order) at which two messages differ. -/
def diffPositions (d d' : List UInt8) : List Nat :=
  (((Spec.Crc32.bits d).zip (Spec.Crc32.bits d')).zipIdx.filter (fun p => p.1.1 != p.1.2)).map (·.2)

/-- Linear-time evaluation of `Spec.Crc32.BurstDamage w d d'` (first and last differing bit). -/
def isBurst (w : Nat) (d d' : List UInt8) : Bool :=
  d.length == d'.length &&
  (match (diffPositions d d').head?, (diffPositions d d').getLast? with
   | some a, some b => b < a + w
   | _, _ => false)

def handle (l : Line) : Option Verdict :=
  match l.op with
  | "crc" => some <|
    match l.inHex "data", l.outNat "r" with
    | some d, some r =>
      verdict [("impl_model", (Impl.Crc32.crc32 d).toNat == r)]
              [("ieee_crc32", (Spec.Crc32.crc32 d).toNat == r)]
    | _, _ => .bad "crc args"
  | "crc_upd" => some <|
    match l.inHex "a", l.inHex "b", l.outNat "r", l.outNat "ra" with
    | some a, some b, some r, some ra =>
      verdict [("impl_model_a", (Impl.Crc32.crc32 a).toNat == ra),
               ("impl_model_upd", (Impl.Crc32.update (BitVec.ofNat 32 ra) b).toNat == r)]
              [("update_composes", (Spec.Crc32.crc32 (a ++ b)).toNat == r)]
    | _, _, _, _ => .bad "crc_upd args"
  | "crc_dmg" => some <|
    match l.inHex "data", l.inHex "d2", l.outNat "r", l.outNat "r2" with
    | some d, some d2, some r, some r2 =>
      if isBurst 32 d d2 then
        verdict [("impl_model", (Impl.Crc32.crc32 d).toNat == r),
                 ("impl_model_d2", (Impl.Crc32.crc32 d2).toNat == r2)]
                [("ieee_crc32_d2", (Spec.Crc32.crc32 d2).toNat == r2),
                 ("burst_detected", r != r2)]
      else .bad "crc_dmg: d2 is not a <=32-bit burst damage of data"
    | _, _, _, _ => .bad "crc_dmg args"
  | _ => none

end Driver.Ops.Crc
