import Carquet.Util
import Carquet.Spec.Crc32
import Carquet.Impl.Crc32
/-
Driver ops for C14 (CRC part).
  crc data=x.. | r=<u32>                   carquet_crc32
  crc_upd a=x.. b=x.. | r=<u32> ra=<u32>   ra = carquet_crc32(a); r = carquet_crc32_update(ra, b)
  crc_dmg data=x.. d2=x.. | r=<u32> r2=<u32>   r = carquet_crc32(data); r2 = carquet_crc32(d2);
                                           d2 differs from data inside one window of <= 32 bits
-/
namespace Driver.Ops.Crc
open Carquet Carquet.Util

/-- Positions (in `Spec.Crc32.bits` order) at which two messages differ. -/
def diffPositions (d d' : List UInt8) : List Nat :=
  (((Spec.Crc32.bits d).zip (Spec.Crc32.bits d')).zipIdx.filter (fun p => p.1.1 != p.1.2)).map (·.2)

/-- Linear-time evaluation of `Spec.Crc32.BurstDamage w d d'` (first and last differing bit). -/
def isBurst (w : Nat) (d d' : List UInt8) : Bool :=
  d.length == d'.length &&
  (match (diffPositions d d').head?, (diffPositions d d').getLast? with
   | some a, some b => b < a + w
   | _, _ => false)

/-- bytes from bits, LSB first within each byte (inverse of `Spec.Crc32.bits`) -/
def packBits : List Bool → List UInt8
  | b0 :: b1 :: b2 :: b3 :: b4 :: b5 :: b6 :: b7 :: rest =>
    UInt8.ofNat ((if b0 then 1 else 0) + (if b1 then 2 else 0) + (if b2 then 4 else 0) + (if b3 then 8 else 0) +
      (if b4 then 16 else 0) + (if b5 then 32 else 0) + (if b6 then 64 else 0) + (if b7 then 128 else 0)) :: packBits rest
  | _ => []

def handle (l : Line) : Option Verdict :=
  match l.op with
  | "crc_big" => some <|
    -- a length beyond 32 bits (zero bytes in a no-reserve mapping): judged on the C side against zlib applied piecewise
    verdict [] []
  | "crc" => some <|
    match l.inHex "data", l.outNat "r" with
    | some d, some r =>
      verdict [("impl_model", (Impl.Crc32.crc32 d).toNat == r)]
              [("ieee_crc32", (Spec.Crc32.crc32 d).toNat == r)]
    | _, _ => .bad "crc args"
  | "crc_upd" => some <|
    match l.inHex "a", l.inHex "b", l.outNat "r", l.outNat "ra" with
    | some a, some b, some r, some ra =>
      verdict [("impl_model_a", (Impl.Crc32.crc32 a).toNat == ra),
               ("impl_model_upd", (Impl.Crc32.update (BitVec.ofNat 32 ra) b).toNat == r)]
              [("update_composes", (Spec.Crc32.crc32 (a ++ b)).toNat == r)]
    | _, _, _, _ => .bad "crc_upd args"
  | "crc_dmg" => some <|
    match l.inHex "data", l.inHex "d2", l.outNat "r", l.outNat "r2" with
    | some d, some d2, some r, some r2 =>
      if isBurst 32 d d2 then
        verdict [("impl_model", (Impl.Crc32.crc32 d).toNat == r),
                 ("impl_model_d2", (Impl.Crc32.crc32 d2).toNat == r2)]
                [("ieee_crc32_d2", (Spec.Crc32.crc32 d2).toNat == r2),
                 ("burst_detected", r != r2)]
      else .bad "crc_dmg: d2 is not a <=32-bit burst damage of data"
    | _, _, _, _ => .bad "crc_dmg args"
  | "pglz4" => some (verdict [] [])   -- all single-bit modifications of a small LZ4 page read without verification: judged by p_off_safe
  | "pgcrc" => some <|
    -- every page the writer produces carries a checksum (write_crc is on by default); see harness/ops_pagecrc.c
    match l.outNat "has_crc" with
    | some c => verdict [] [("page_has_crc", c == 1)]
    | none => .bad "pgcrc args"
  | "pgdmg" => some <|
    -- a page body of a carquet-written file, its stored CRC, and a damage pattern; see harness/ops_pagecrc.c
    match l.inHex "body", l.inNat "crc", l.inNat "start", l.inHex "mask", l.outInt "clean", l.outInt "von" with
    | some body, some crc, some start, some mask, some clean, some von =>
      let maskBits := Spec.Crc32.bits mask
      let dmgBits := (Spec.Crc32.bits body).zipIdx.map (fun p =>
        if start ≤ p.2 && p.2 < start + maskBits.length then p.1 != maskBits.getD (p.2 - start) false else p.1)
      let dmg := packBits dmgBits
      let changed := dmg != body
      verdict [("stored_crc_is_model_crc", (Impl.Crc32.crc32 body).toNat == crc),
               ("damage_is_burst", !changed || isBurst 32 body dmg)]
              [("stored_crc_is_ieee", (Spec.Crc32.crc32 body).toNat == crc),
               ("clean_page_accepted", clean ≥ 0),
               ("crc_changes", !changed || (Spec.Crc32.crc32 dmg).toNat != crc),
               ("damage_reported", !changed || von < 0)]
    | _, _, _, _, _, _ => .bad "pgdmg args"
  | _ => none

end Driver.Ops.Crc
