import Carquet.Util
import Carquet.Spec.Crc32
import Carquet.Impl.Crc32
/-
Driver ops for C14 (CRC part).
  crc data=x.. | r=<u32>                   carquet_crc32
  crc_upd a=x.. b=x.. | r=<u32> ra=<u32>   ra = carquet_crc32(a); r = carquet_crc32_update(ra, b)
-/
namespace Driver.Ops.Crc
open Carquet Carquet.Util

def handle (l : Line) : Option Verdict :=
  match l.op with
  | "crc" => some <|
    match l.inHex "data", l.outNat "r" with
    | some d, some r =>
      verdict [("impl_model", (Impl.Crc32.crc32 d).toNat == r)]
              [("ieee_crc32", (Spec.Crc32.crc32 d).toNat == r)]
    | _, _ => .bad "crc args"
  | "crc_upd" => some <|
    match l.inHex "a", l.inHex "b", l.outNat "r", l.outNat "ra" with
    | some a, some b, some r, some ra =>
      verdict [("impl_model_a", (Impl.Crc32.crc32 a).toNat == ra),
               ("impl_model_upd", (Impl.Crc32.update (BitVec.ofNat 32 ra) b).toNat == r)]
              [("update_composes", (Spec.Crc32.crc32 (a ++ b)).toNat == r)]
    | _, _, _, _ => .bad "crc_upd args"
  | _ => none

end Driver.Ops.Crc
