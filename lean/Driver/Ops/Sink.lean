import Carquet.Util
import Carquet.Impl.FileReal
import Carquet.Impl.WriterSink
import Driver.Ops.FileWrite
/-
Driver ops of the failing-sink component (harness/ops_c18.c):

  sink   <case> kind=<k> k=<budget> buf=<b> | st=.. sunk=.. sunkh=.. ev=.. failed=.. p_..=0/1
  sinkok <case> kind=<k> k=<budget> buf=<b> | st=.. sunk=.. sunkh=.. ev=.. failed=.. close=.. p_close_ok_implies_file=0/1

The driver RUNS THE MODEL `Impl.WriterSink` (the writer of file_writer.c on a stream that may
fail) in an environment and compares, per line:
  statuses of every call (close last), the sink's failure flag at the return of close, the number
  of bytes the sink holds after the harness's own `fflush; fclose`, their FNV-1a hash (i.e. the
  bytes themselves), and the operations the sink was asked to do, call by call.
Property predicates (C18 / C05 under a faulty sink), evaluated on what the real code returned with
the healthy model `Impl.Writer.fileOf`:
  close returned OK  ==>  the sink holds exactly the file of the fault-free run;
  the sink reported a failure  ==>  some call returned non-OK.

The ENVIRONMENT is not part of what is verified; it is the test bench of the harness written down:
the fault schedule of `sink_write` (kind 0 byte budget / 1 op budget / 4 one transient failure) and
the buffering of the host's stdio for a `fopencookie` stream (glibc 2.36: `_IO_new_file_xsputn`,
`new_do_write`): unbuffered = one sink operation per fwrite; otherwise a buffer of 64 (mode 1, user
buffer) or 8192 bytes (mode 2): the first fwrite finds no room (the stream is not yet in put mode),
later ones fill the buffer; when data is left over the buffer is flushed, then the rest is written
directly — all of it below 128 bytes of capacity, whole blocks otherwise, the remainder staying in
the buffer; after a failed sink operation the buffer is reset (what was pending is lost).  The theorems hold for EVERY
environment, so a wrong environment model can only produce a false alarm here (reported as a
broken tie `sink_env_ops`), never hide a defect of the writer.  kind 3 (`/dev/full`, a writer that
owns its stream) is run with a sink that takes nothing and a 4096-byte buffer; only the statuses can
be compared there.
-/
namespace Driver.Ops.Sink
open Carquet Carquet.Util Carquet.Impl
open Carquet.Impl.WriterSink (Env SW SOp)
open Carquet.Impl.Sink (Stream Outcome)

/-- `sink_t` of the harness + the put-mode flag of the glibc stream -/
structure Bench where
  byteBudget : Option Nat        -- none: -1 (no limit)
  opBudget : Option Nat          -- none: -1 (no limit)
  transient : Bool
  cap : Nat                      -- stdio buffer capacity; 0 = unbuffered
  started : Bool := false        -- the stream has been put into write mode (glibc allocates/sets the buffer at the first fwrite)
  failed : Bool := false
  events : List (Nat × Nat) := []   -- (bytes offered, bytes taken), newest first

/-- harness `sink_write`: bytes taken -/
def sinkWrite (b : Bench) (n : Nat) : Bench × Nat :=
  if b.opBudget == some 0 then
    ({ b with failed := true, opBudget := if b.transient then none else some 0, events := (n, 0) :: b.events }, 0)
  else
    let ob := b.opBudget.map (· - 1)
    let take := match b.byteBudget with | some q => min n q | none => n
    ({ b with opBudget := ob, byteBudget := b.byteBudget.map (· - take),
              failed := b.failed || take < n, events := (n, take) :: b.events }, take)

/-- stdio offers the blocks one after the other and stops at the first one not taken completely:
total taken, all taken? -/
def offer (b : Bench) : List Nat → Nat → Bench × Nat × Bool
  | [], acc => (b, acc, true)
  | n :: rest, acc =>
    if n == 0 then offer b rest acc
    else
      let r := sinkWrite b n
      if r.2 == n then offer r.1 rest (acc + n) else (r.1, acc + r.2, false)

/-- the blocks glibc offers to the sink during `fwrite` of `n` bytes with `f` bytes pending -/
def fwriteBlocks (b : Bench) (f n : Nat) : List Nat :=
  if b.cap == 0 then [n]
  else
    let space := if b.started then b.cap - f else 0
    if n ≤ space then []
    else
      let rem := n - space
      [f + space, if b.cap ≥ 128 then rem - rem % b.cap else rem]

def bench : Env Bench :=
  ⟨fun b s op =>
    match op with
    | .write d =>
      if d.length == 0 then (.push 0, b)
      else
        let r := offer b (fwriteBlocks b s.pending.length d.length) 0
        let b' := { r.1 with started := true }
        if r.2.2 then (.push r.2.1, b') else (.drop r.2.1 0, b')
    | .flush | .close =>
      let r := offer b [s.pending.length] 0
      if r.2.2 then (.push r.2.1, r.1) else (.drop r.2.1 0, r.1)⟩

def mkBench (kind k buf : Nat) : Bench :=
  { byteBudget := if kind == 0 then some k else none,
    opBudget := if kind == 1 || kind == 4 then some k else none,
    transient := kind == 4,
    cap := if buf == 0 then 0 else if buf == 1 then 64 else 8192 }

def fnv64 (bs : List UInt8) : UInt64 :=
  bs.foldl (fun h b => (h ^^^ b.toUInt64) * 0x100000001b3) 0xcbf29ce484222325

/-- `call.offered.taken` -/
def parseEv (s : String) : Option (Nat × Nat × Nat) :=
  match s.splitOn "." with
  | [c, n, r] => do
    let c ← c.toNat?
    let n ← n.toNat?
    let r ← r.toNat?
    some (c, n, r)
  | _ => none

/-- run the model call by call, remembering which sink operations each call caused -/
def runCalls (D : Writer.Deps) (owns : Bool) (x : SW Bench) (ops : List Writer.Op) :
    SW Bench × List Writer.Status × List (Nat × Nat × Nat) :=
  let tag (i : Nat) (before after : Bench) : List (Nat × Nat × Nat) :=
    ((after.events.take (after.events.length - before.events.length)).reverse).map (fun e => (i, e.1, e.2))
  let r := ops.foldl (fun (acc : SW Bench × List Writer.Status × List (Nat × Nat × Nat) × Nat) op =>
      let y := WriterSink.stepS D bench acc.1 op
      (y.1, acc.2.1 ++ [y.2], acc.2.2.1 ++ tag acc.2.2.2 acc.1.e y.1.e, acc.2.2.2 + 1)) (x, [], [], 0)
  let c := WriterSink.closeS D bench owns r.1
  -- the harness's own `fflush(fp); fclose(fp)` before it reads what the sink holds
  let h := (WriterSink.sclose bench (WriterSink.sflush bench c.1).1).1
  ({ h with e := { h.e with failed := c.1.e.failed } }, r.2.1 ++ [c.2],
   r.2.2.1 ++ tag r.2.2.2 r.1.e c.1.e ++ tag (r.2.2.2 + 1) c.1.e h.e)

def handleSink (l : Line) (c05 : Bool) : Verdict :=
  match Driver.Ops.FileWrite.parseCase l, l.inNat "kind", l.inNat "k", l.inNat "buf",
        l.outStr "st", l.outNat "sunk", l.outNat "failed", l.outNat "sunkh", l.outStr "ev" with
  | some c, some kind, some k, some buf, some stS, some sunk, some failed, some sunkh, some evS =>
    if !(Driver.Ops.FileWrite.modelledCodec c.codec) then verdict [] []
    else if kind == 3 then
      -- path-based writer on /dev/full (it owns the stream: `fclose` in close): every push fails with nothing taken;
      -- a regular stdio file stream, buffer = st_blksize of the device (4096).  Only the statuses are observable.
      match parseList String.toNat? stS with
      | some st =>
        let x0 : SW Bench := WriterSink.initS { byteBudget := some 0, opBudget := none, transient := false, cap := 4096 } c.cols c.codec c.page "Carquet"
        let r := runCalls (Impl.FileReal.deps []) true x0 c.ops
        verdict [("sink_statuses_dev_full", r.2.1.map Driver.Ops.FileWrite.statusCode == st)]
                [("C18_sink_failure_surfaces", st.any (· != 0))]
      | none => verdict [("writer_created", false)] []
    else if !(kind == 0 || kind == 1 || kind == 4) then verdict [] []
    else
      match parseList String.toNat? stS, parseList parseEv evS with
      | some st, some ev =>
        let D := Impl.FileReal.deps []
        let x0 : SW Bench := WriterSink.initS (mkBench kind k buf) c.cols c.codec c.page "Carquet"
        -- `runCalls` is the run of `sessionS`, call by call (so that every sink operation can be attributed to its call);
        -- on small cases the two are compared as well
        let r := runCalls D false x0 c.ops
        let small := sunk ≤ 4096
        let sessOk := !small ||
          (let sess := WriterSink.sessionS D bench (mkBench kind k buf) false c.cols c.codec c.page "Carquet" c.ops
           sess.2 == r.2.1 && sess.1.s.err == (failed == 1))
        let closeOk := st.getLast? == some 0
        -- the property's own predicate, on what the real code returned: OK from close ==> the sink holds the fault-free file
        let fileOk := !closeOk ||
          (let good := (Writer.fileOf D c.cols c.codec c.page "Carquet" c.ops).1
           sunk == good.length && sunkh == (fnv64 good).toNat)
        verdict [("sink_statuses", r.2.1.map Driver.Ops.FileWrite.statusCode == st),
                 ("sink_session", sessOk),
                 ("sink_failed", (if r.1.e.failed then 1 else 0) == failed),
                 ("sink_bytes", r.1.s.delivered.length == sunk),
                 ("sink_content", (fnv64 r.1.s.delivered).toNat == sunkh),
                 ("sink_env_ops", r.2.2 == ev)]
                [(if c05 then "C05_close_ok_implies_file" else "C18_close_ok_implies_file", fileOk),
                 ("C18_sink_failure_surfaces", c05 || failed == 0 || st.any (· != 0))]
      | _, _ => verdict [("writer_created", false)] []
  | _, _, _, _, _, _, _, _, _ => .bad "sink args"

def handle (l : Line) : Option Verdict :=
  match l.op with
  | "sink" => some (handleSink l false)
  | "sinkok" => some (handleSink l true)
  | _ => none

end Driver.Ops.Sink
