import Carquet.Util
import Carquet.Spec.Thrift
import Carquet.Spec.ParquetThrift
import Carquet.Spec.ParquetThriftPageIndex
import Carquet.Impl.ThriftPageIndex
/-
Driver ops for the page-index serialisers of metadata/page_index.c (harness/ops_thrift.c):
  th_wci bo=<int> p=<n,{nc,min,max,np}*> | st= out=x..   builder_create; add_page…; set_boundary_order; serialize
  th_woi tr=<0|1> p=<n,{off,csz,fri,usz}*> | st= out=x.. builder_create(tr); add_page…; serialize
`min`/`max` tokens: `-` = NULL pointer, `x..` = pointer + length (`x` = non-NULL, length 0).
Model checks tie Impl.ThriftPageIndex (the repaired code) to the bytes the real code appended;
property checks: the independent Spec decoder reads the parquet.thrift value from those bytes,
and the value has only members of the format's struct, with their types.
-/
namespace Driver.Ops.ThriftPageIndex
open Carquet Carquet.Util
open Carquet.Impl.Thrift Carquet.Impl.ThriftParquet Carquet.Impl.ThriftPageIndex
open Carquet.Spec.ParquetThrift

def pOptBytes (t : String) : Option (Option (List UInt8)) :=
  if t == "-" then some none else (parseHex t).map some

def ciPages : Nat → List String → ColumnIndexB → Option ColumnIndexB
  | 0, [], b => some b
  | 0, _ :: _, _ => none
  | n + 1, nc :: mn :: mx :: np :: r, b => do
    let nc ← String.toInt? nc
    let mn ← pOptBytes mn
    let mx ← pOptBytes mx
    let np ← String.toInt? np
    ciPages n r (b.addPage nc mn mx (np != 0))
  | _ + 1, _, _ => none

def oiPages : Nat → List String → OffsetIndexB → Option OffsetIndexB
  | 0, [], b => some b
  | 0, _ :: _, _ => none
  | n + 1, a :: c :: f :: u :: r, b => do
    let a ← String.toInt? a
    let c ← String.toInt? c
    let f ← String.toInt? f
    let u ← String.toInt? u
    oiPages n r (b.addPage a c f u)
  | _ + 1, _, _ => none

def readCI (bo : Int) (s : String) : Option ColumnIndexB :=
  match s.splitOn "," with
  | n :: r => (String.toNat? n).bind (fun k => (ciPages k r {}).map (fun b => { b with boundaryOrder := bo }))
  | [] => none

def readOI (tr : Bool) (s : String) : Option OffsetIndexB :=
  match s.splitOn "," with
  | n :: r => (String.toNat? n).bind (fun k => oiPages k r { trackUncompressed := tr })
  | [] => none

def stOk (st : Int) (e : Option Err) : Bool := (st == 0) == e.isNone

def fieldsOf : Spec.Thrift.TVal → List (Int × Spec.Thrift.TVal)
  | .struct fs => fs
  | _ => []

def handle (l : Line) : Option Verdict :=
  match l.op with
  | "th_wci" => some <|
    match l.inInt "bo", l.inStr "p", l.outInt "st", l.outHex "out" with
    | some bo, some p, some st, some out =>
      match readCI bo p with
      | none => .bad "th_wci pages"
      | some b =>
        verdict [("status", stOk st (writeColumnIndexStatus b)), ("bytes", writeColumnIndex b == out)]
                [("write_ok", st == 0),
                 ("spec_decodes_to_value",
                    (Spec.Thrift.decodeStruct out).map (Spec.Thrift.TVal.beq (columnIndexTV b)) == some true),
                 ("members_of_parquet_thrift",
                    match Spec.Thrift.decodeStruct out with
                    | some v => columnIndex.admits (fieldsOf v) && columnIndex.complete (fieldsOf v)
                    | none => false)]
    | _, _, _, _ => .bad "th_wci args"
  | "th_woi" => some <|
    match l.inNat "tr", l.inStr "p", l.outInt "st", l.outHex "out" with
    | some tr, some p, some st, some out =>
      match readOI (tr != 0) p with
      | none => .bad "th_woi pages"
      | some b =>
        verdict [("status", stOk st (writeOffsetIndexStatus b)), ("bytes", writeOffsetIndex b == out)]
                [("write_ok", st == 0),
                 ("spec_decodes_to_value",
                    (Spec.Thrift.decodeStruct out).map (Spec.Thrift.TVal.beq (offsetIndexTV b)) == some true),
                 ("members_of_parquet_thrift",
                    match Spec.Thrift.decodeStruct out with
                    | some v =>
                      offsetIndex.admits (fieldsOf v) && offsetIndex.complete (fieldsOf v) &&
                        (fieldsOf v).all (fun f => match f.2, offsetIndexElems.lookup f.1 with
                          | .list et _, some t => et == t
                          | _, _ => false)
                    | none => false)]
    | _, _, _, _ => .bad "th_woi args"
  | _ => none

end Driver.Ops.ThriftPageIndex
