import Carquet.Util
import Carquet.Spec.BitPack
import Carquet.Impl.RleAcc
import Carquet.Impl.BitpackAcc
import Carquet.Impl.BitIO
import Carquet.Impl.BufferReader
import Carquet.Impl.Snappy
import Carquet.Impl.Lz4
import Carquet.Impl.CodecWrappers
import Carquet.Impl.Thrift
import Carquet.Impl.ThriftParquet
/-
Driver ops for the C08 gaps (harness/ops_c08more.c; line formats are listed at the top of that file).
Model checks compare the access-reporting Impl models with what the real code returned (values, status
class, bytes consumed); property checks evaluate C08's own predicates on what the real code returned
(counts within the requested count, reported sizes within the capacity / input, positions inside the
input) and on the accesses the model reports for that input.
-/
namespace Driver.Ops.C08More
open Carquet Carquet.Util

/-- decimal digits → Nat, and the remaining characters -/
def takeNat : List Char → Nat → Nat × List Char
  | c :: cs, acc => if c.isDigit then takeNat cs (acc * 10 + (c.toNat - 48)) else (acc, c :: cs)
  | [], acc => (acc, [])

def natOfChars (cs : List Char) : Option Nat :=
  if cs.isEmpty then none
  else match takeNat cs 0 with
    | (n, []) => some n
    | _ => none

def splitOps (s : String) : List String := if s == "-" then [] else s.splitOn "."

/-! ### RLE -/

def parseDecOp (s : String) : Option Impl.Rle.Op :=
  match s.toList with
  | ['g'] => some .get
  | 'b' :: r => (natOfChars r).map .getBatch
  | 's' :: r => (natOfChars r).map .skip
  | _ => none

def renderObs : Impl.Rle.Obs → String
  | .val v => s!"v{v}"
  | .vals vs => "b" ++ ":".intercalate (vs.map toString)
  | .skipped n => s!"s{n}"

def renderList (l : List String) : String := if l.isEmpty then "-" else ".".intercalate l

def accsIn (size : Nat) (l : List Impl.Rle.Acc) : Bool := l.all (fun a => a.off + a.len ≤ size)

/-- the count an observation string of the C side reports, against the count the call asked for -/
def obsWithin (op : Impl.Rle.Op) (o : String) : Bool :=
  match op, o.toList with
  | .get, 'v' :: _ => true
  | .getBatch k, 'b' :: r => (if r.isEmpty then 0 else ((String.ofList r).splitOn ":").length) ≤ k
  | .skip k, 's' :: r => match natOfChars r with | some n => n ≤ k | none => false
  | _, _ => false

def zipAll (ops : List Impl.Rle.Op) (obs : List String) : Bool :=
  ops.length == obs.length && (ops.zip obs).all (fun p => obsWithin p.1 p.2)

/-! ### bit reader / writer / buffer cursor op strings -/

def parseROp (s : String) : Option Impl.BitIO.ROp :=
  match s.toList with
  | ['b'] => some .bit
  | ['m'] => some .hasMore
  | ['n'] => some .remaining
  | 'r' :: r => (natOfChars r).map .bits
  | 'q' :: r => (natOfChars r).map .bits64
  | _ => none

def renderRObs : Impl.BitIO.RObs → String
  | .bit b => s!"b{b}"
  | .val v => s!"v{v}"
  | .more b => if b then "m1" else "m0"
  | .rem n => s!"n{n}"

def parseWOp (s : String) : Option Impl.BitIO.WOp :=
  match s.toList with
  | ['f'] => some .flush
  | 'b' :: r => (natOfChars r).map .bit
  | 'w' :: r =>
    match takeNat r 0 with
    | (v, ':' :: r2) => (natOfChars r2).map (.bits v)
    | _ => none
  | 'q' :: r =>
    match takeNat r 0 with
    | (v, ':' :: r2) => (natOfChars r2).map (.bits64 v)
    | _ => none
  | _ => none

def isFlush : Impl.BitIO.WOp → Bool
  | .flush => true
  | _ => false

/-- only the last call is a flush -/
def flushOnlyLast (ops : List Impl.BitIO.WOp) : Bool :=
  match ops.reverse with
  | [] => false
  | last :: before => isFlush last && !(before.any isFlush)

def parseBOp (s : String) : Option Impl.BufferReader.Op :=
  match s.toList with
  | ['r'] => some .remaining
  | ['p'] => some .peek
  | ['b'] => some .readByte
  | ['u', '1', '6'] => some .readU16
  | ['u', '3', '2'] => some .readU32
  | ['u', '6', '4'] => some .readU64
  | ['f', '3', '2'] => some .readF32
  | ['f', '6', '4'] => some .readF64
  | 'h' :: r => (natOfChars r).map .has
  | 's' :: r => (natOfChars r).map .skip
  | 'd' :: r => (natOfChars r).map .read
  | _ => none

def stNum : Impl.BufferReader.Status → Nat
  | .ok => 0
  | .truncated => 1

def renderBObs : Impl.BufferReader.Obs → String
  | .bool b => if b then "h1" else "h0"
  | .size n => s!"r{n}"
  | .ptr o => s!"p{o}"
  | .st s => s!"s{stNum s}"
  | .bytes s bs => s!"d{stNum s}:" ++ toHex bs
  | .val s v => s!"v{stNum s}:{v}"

/-! ### codecs -/

inductive Cls where
  | ok | arg | codec | other
  deriving DecidableEq

def clsOfStatus (st : Nat) : Cls :=
  if st = 0 then .ok else if st = 1 then .arg else if 50 ≤ st ∧ st ≤ 53 then .codec else .other

def agreesSnappy (m : Except Impl.Snappy.Err (List UInt8)) (st : Nat) (out : List UInt8) : Bool :=
  match m with
  | .ok bytes => st == 0 && bytes == out
  | .error .invalidArgument => clsOfStatus st == .arg
  | .error .compression => clsOfStatus st == .codec
  | .error .invalidData => clsOfStatus st == .codec
  | .error _ => false

def agreesLz4 (r : Except Impl.Lz4.Err (List UInt8)) (st : Nat) (out : List UInt8) : Bool :=
  match r with
  | .ok bs => clsOfStatus st == .ok && bs == out
  | .error .invalidArgument => clsOfStatus st == .arg
  | .error .compression => clsOfStatus st == .codec
  | .error .invalidData => clsOfStatus st == .codec
  | .error .oobRead => false
  | .error .oobWrite => false

def agreesW (r : Except Impl.CodecWrappers.Err (List UInt8)) (st : Nat) (out : List UInt8) : Bool :=
  match r with
  | .ok bs => clsOfStatus st == .ok && bs == out
  | .error .invalidArgument => clsOfStatus st == .arg
  | .error .compression => clsOfStatus st == .codec
  | .error .invalidData => clsOfStatus st == .codec

def oracleD (n cap : Nat) (dok : Nat) (dout : List UInt8) : Nat → Nat → Option (List UInt8) :=
  fun k c => if k = n ∧ c = cap then (if dok = 1 then some dout else none) else none

def handle (l : Line) : Option Verdict :=
  match l.op with
  | "c8_rle" => some <|
    match l.inNat "w", l.inHex "data", (l.inStr "ops").bind (fun s => (splitOps s).mapM parseDecOp),
          l.outStr "obs", l.outNat "st", l.outNat "pos", l.outNat "hn" with
    | some w, some data, some ops, some obs, some st, some pos, some hn =>
      let r := Impl.Rle.runOpsAcc data.length (Impl.Rle.Dec.init w data) ops
      let d := r.2.2
      verdict [("obs", renderList (r.1.map renderObs) == obs),
               ("status", (d.status == .ok) == (st == 0)),
               ("pos", data.length - d.rest.length == pos),
               ("has_next", Impl.Rle.hasNext d == (hn != 0))]
              [("reads_in_input", accsIn data.length r.2.1),
               ("pos_le_size", pos ≤ data.length),
               ("counts_le_requested", zipAll ops (splitOps obs))]
    | _, _, _, _, _, _, _ => .bad "c8_rle args"
  | "c8_all" => some <|
    match l.inNat "w", l.inInt "n", l.inHex "data", l.outInt "r", l.outNats "vals" with
    | some w, some n, some data, some r, some vals =>
      let m := Impl.Rle.decodeAllAcc w data n.toNat
      verdict [("values", m.1.1 == vals), ("count", (m.1.1.length : Int) == r)]
              [("reads_in_input", accsIn data.length m.2),
               ("count_le_requested", 0 ≤ r && r ≤ max n 0)]
    | _, _, _, _, _ => .bad "c8_all args"
  | "c8_lev" => some <|
    match l.inNat "w", l.inInt "n", l.inHex "data", l.outInt "r", l.outInts "vals" with
    | some w, some n, some data, some r, some vals =>
      let m := Impl.Rle.decodeLevelsAcc w data n.toNat
      verdict [("values", m.1.1 == vals), ("count", (m.1.1.length : Int) == r)]
              [("reads_in_input", accsIn data.length m.2),
               ("count_le_requested", 0 ≤ r && r ≤ max n 0)]
    | _, _, _, _, _ => .bad "c8_lev args"
  | "c8_pfx" => some <|
    match l.inNat "w", l.inInt "n", l.inHex "data", l.outInt "r", l.outNat "used", l.outInts "vals" with
    | some w, some n, some data, some r, some used, some vals =>
      let m := Impl.Rle.decodeLevelsPrefixedAcc w data n.toNat
      let badPrefix := data.length < 4 || Impl.Bitpack.leNat (data.take 4) > data.length - 4
      let tie := match m.1 with
        | .error _ => r == -1 && used == 0
        | .ok (ls, c) => (ls.length : Int) == r && c == used && ls == vals
      verdict [("result", tie)]
              [("reads_in_input", accsIn data.length m.2),
               ("bad_prefix_rejected", !badPrefix || (r == -1 && used == 0)),
               ("count_le_requested", r == -1 || (0 ≤ r && r ≤ max n 0)),
               ("consumed_le_size", used ≤ data.length)]
    | _, _, _, _, _, _ => .bad "c8_pfx args"
  | "c8_bu8" => some <|
    match l.inNat "w", l.inHex "data", l.outNats "vals" with
    | some w, some data, some vals =>
      verdict [("values", Impl.Bitpack.unpack8 w data == vals)]
              [("reads_in_input", (Impl.Bitpack.unpack8Idx w data).all (· < data.length) || w == 0),
               ("eight_values", vals.length == 8)]
    | _, _, _ => .bad "c8_bu8 args"
  | "c8_bu" => some <|
    match l.inNat "w", l.inNat "n", l.inHex "data", l.outNats "vals", l.outNat "used" with
    | some w, some n, some data, some vals, some used =>
      let m := Impl.Bitpack.unpack w data n
      verdict [("values", m.1 == vals), ("consumed", m.2 == used)]
              [("reads_in_input", (Impl.Bitpack.unpackAccs w n).all (fun a => a.off + a.len ≤ data.length)),
               ("consumed_is_packed_size", used == (if w == 0 then 0 else Impl.Bitpack.packedSize n w) && used ≤ data.length),
               ("count_values", vals.length == n)]
    | _, _, _, _, _ => .bad "c8_bu args"
  | "c8_brd" => some <|
    match l.inHex "data", (l.inStr "ops").bind (fun s => (splitOps s).mapM parseROp), l.outStr "obs",
          l.outNat "pos", l.outInt "bits" with
    | some data, some ops, some obs, some pos, some bits =>
      let r := Impl.BitIO.rrun (Impl.BitIO.Reader.init data) ops
      verdict [("obs", renderList (r.1.map renderRObs) == obs),
               ("pos", r.2.2.bytePos == pos), ("bits", (r.2.2.bufferBits : Int) == bits)]
              [("reads_in_input", r.2.1.all (· < data.length)),
               ("pos_le_size", pos ≤ data.length),
               ("bits_in_range", 0 ≤ bits && bits ≤ 64)]
    | _, _, _, _, _ => .bad "c8_brd args"
  | "c8_bwr" => some <|
    match l.inNat "cap", (l.inStr "ops").bind (fun s => (splitOps s).mapM parseWOp), l.outHex "out",
          l.outNat "n", l.outInt "bits" with
    | some cap, some ops, some out, some n, some bits =>
      let w := Impl.BitIO.wrun (Impl.BitIO.Writer.init cap) ops
      let total := Impl.BitIO.totalBits ops
      let fits := (total + 7) / 8 ≤ cap && flushOnlyLast ops
      let rt := !fits ||
        (Impl.BitIO.rrun (Impl.BitIO.Reader.init out) (Impl.BitIO.readsOf ops)).1 == Impl.BitIO.expectOf ops
      let spec := match l.inNat "uw" with
        | some uw => !fits || uw > 32 ||
            out == Spec.BitPack.pack uw ((Impl.BitIO.fieldsOf ops).map Prod.snd)
        | none => true
      verdict [("bytes", w.out == out), ("written", w.out.length == n), ("pending_bits", (w.bufferBits : Int) == bits)]
              [("written_le_capacity", n ≤ cap),
               ("pending_bits_bounded", 0 ≤ bits && bits ≤ 64),
               ("model_reader_roundtrip", rt),
               ("size_when_fits", !fits || n == (total + 7) / 8),
               ("is_spec_bit_packing", spec)]
    | _, _, _, _, _ => .bad "c8_bwr args"
  | "c8_buf" => some <|
    match l.inHex "data", (l.inStr "ops").bind (fun s => (splitOps s).mapM parseBOp), l.outStr "obs", l.outNat "pos" with
    | some data, some ops, some obs, some pos =>
      let r := Impl.BufferReader.run true (Impl.BufferReader.init data) ops
      verdict [("obs", renderList (r.1.map renderBObs) == obs), ("pos", r.2.2.pos == pos)]
              [("reads_in_input", r.2.1.all (fun a => a.off + a.len ≤ data.length)),
               ("pos_le_size", pos ≤ data.length)]
    | _, _, _, _ => .bad "c8_buf args"
  | "c8_dec" => some <|
    match l.inNat "codec", l.inNat "cap", l.inHex "src", l.outNat "st", l.outNat "n", l.outHex "out" with
    | some codec, some cap, some src, some st, some n, some out =>
      let tie :=
        if codec == 0 then agreesSnappy (Impl.Snappy.decompress src cap) st out
        else if codec == 1 then agreesLz4 (Impl.Lz4.decompress src cap) st out
        else match l.inNat "dok", l.inHex "dout" with
          | some dok, some dout =>
            if codec == 2 then
              agreesW (Impl.CodecWrappers.gzipDecompressG false false false src.length cap (oracleD src.length cap dok dout)) st out
            else
              agreesW (Impl.CodecWrappers.zstdDecompressG false false false src.length cap (oracleD src.length cap dok dout)) st out
          | _, _ => false
      verdict [("impl_decompress", tie)]
              [("error_or_size_le_capacity", st != 0 || (n ≤ cap && out.length == n)),
               ("status_is_ok_or_codec_error", clsOfStatus st == .ok || clsOfStatus st == .codec)]
    | _, _, _, _, _, _ => .bad "c8_dec args"
  | "c8_bal" => some <|
    -- allocation balance is a C-side predicate (p_bal); nothing for the model to add
    match l.outInt "st" with
    | some _ => verdict [] []
    | none => .bad "c8_bal args"
  | "c8_th" => some <|
    match l.inStr "kind", l.inHex "b", l.outInt "st", l.outNat "used", l.outNat "p_term" with
    | some kind, some b, some st, some used, some term =>
      if term == 0 then verdict [] [("parser_terminates_cleanly", false)]
      else if kind == "pph" then
        let r := Impl.ThriftParquet.parsePageHeaderX Impl.Thrift.Cfg.fixed b
        verdict [("status", (st == 0) == r.status.isNone), ("consumed", st != 0 || used == r.consumed)]
                [("consumed_le_size", used ≤ b.length)]
      else
        let r := Impl.ThriftParquet.parseFileMetaDataX Impl.Thrift.Cfg.fixed b
        verdict [("status", (st == 0) == r.status.isNone)] []
    | _, _, _, _, _ => .bad "c8_th args"
  | _ => none

end Driver.Ops.C08More
