import Carquet.Util
import Carquet.Impl.ErrorApi
/-
Driver ops of the component `apierr` (harness/ops_api.c): src/core/error.c, carquet_init, carquet_version*.
Model checks compare with Impl.ErrorApi under the standard's `snprintf` rule; property checks are C04's own
predicates on what the real code returned: the message array / the caller's buffer hold a NUL, nothing outside
them changed, the value returned lies inside the buffer, every returned `const char*` is a proper string.
-/
namespace Driver.Ops.ApiErr
open Carquet Carquet.Util Carquet.Impl.ErrorApi

def parse3 (s : String) : Option (Int × Int × Int) :=
  match s.splitOn "." with
  | [a, b, c] => do some (← a.toInt?, ← b.toInt?, ← c.toInt?)
  | _ => none

/-- `(int32_t)v` of the harness' casts -/
def i32 (v : Int) : Int := (v + 2147483648) % 4294967296 - 2147483648

def proper (s : Bytes) : Bool := !s.isEmpty && s.all (· ≠ 0)

def hintOf (s : String) : Option (Option Bytes) := if s == "N" then some none else (parseHex s).map some

def handle (l : Line) : Option Verdict :=
  match l.op with
  | "err_status" => some <|
    match l.inInt "v", l.outHex "s", l.outNat "rec", (l.outStr "hint").bind hintOf with
    | some v, some s, some rec, some hint =>
      -- the enum's underlying type is unsigned int: the harness' cast reduces modulo 2^32
      let v' := v % 4294967296
      verdict [("impl_model_status_string", statusString v' == s), ("impl_model_recoverable", isRecoverable v' == (rec == 1)),
               ("impl_model_hint", recoveryHint v' == hint)]
              [("status_string_is_a_string", proper s), ("hint_is_null_or_a_string", match hint with | none => true | some t => proper t)]
    | _, _, _, _ => .bad "err_status"
  | "err_names" => some <|
    match l.inInt "v", l.outHex "pt", l.outHex "cc", l.outHex "en" with
    | some v, some a, some b, some c =>
      let v' := v % 4294967296
      verdict [("impl_model_physical_type_name", physicalTypeName v' == a), ("impl_model_compression_name", compressionName v' == b),
               ("impl_model_encoding_name", encodingName v' == c)]
              [("names_are_strings", proper a && proper b && proper c)]
    | _, _, _, _ => .bad "err_names"
  | "err_set" => some <|
    match l.inInt "code", l.inInt "line", l.inNat "kind", l.inHex "text", l.inNat "fill", (l.inStr "ctx0").bind parse3,
          l.outInt "code", l.outInt "line", l.outNat "ptrs", l.outHex "msg", (l.outStr "ctx").bind parse3 with
    | some code, some line, some kind, some text, some fill, some (o, r, c), some code', some line', some ptrs, some msg, some ctx' =>
      let e0 : ErrorT := ⟨0, List.replicate cap (UInt8.ofNat fill), none, 0, none, o, c, r⟩
      let e := errorSet Engine.std e0 (code % 4294967296) (some 1) (i32 line) (some 2) (if kind == 3 then none else some text)
      verdict [("impl_model_message", e.message == msg), ("impl_model_code_line", e.code == code' % 4294967296 && e.line == line'),
               ("impl_model_context_untouched", (e.offset, e.rowGroupIndex, e.columnIndex) == ctx')]
              [("message_nul_terminated", msg.length == cap && msg.contains 0),
               ("members_behind_the_message_intact", ptrs == 1 && line' == i32 line && ctx' == (o, i32 r, i32 c)),
               ("message_is_the_text_cut_to_capacity", kind == 3 || cstr msg == text.take (cap - 1))]
    | _, _, _, _, _, _, _, _, _, _, _ => .bad "err_set"
  | "err_init" => some <|
    match l.inNat "fill", l.outInt "code", l.outInt "line", l.outNat "ptrs", l.outHex "msg", (l.outStr "ctx").bind parse3 with
    | some fill, some code', some line', some ptrs, some msg, some ctx' =>
      let e := errorInit ⟨7, List.replicate cap (UInt8.ofNat fill), some 1, 5, some 2, 77, 79, 78⟩
      verdict [("impl_model_init", e.message == msg && e.code == code' && e.line == line' && ptrs == 1 &&
                                   (e.offset, e.rowGroupIndex, e.columnIndex) == ctx')]
              [("message_nul_terminated", msg.length == cap && msg.contains 0)]
    | _, _, _, _, _, _ => .bad "err_init"
  | "err_ctx" => some <|
    match (l.inStr "ctx0").bind parse3, (l.inStr "set").bind parse3, (l.outStr "ctx").bind parse3 with
    | some (o, r, c), some (so, sr, sc), some ctx' =>
      let e := errorSetContext ⟨0, [], none, 0, none, o, i32 c, i32 r⟩ so (i32 sr) (i32 sc)
      verdict [("impl_model_set_context", (e.offset, e.rowGroupIndex, e.columnIndex) == ctx')] []
    | _, _, _ => .bad "err_ctx"
  | "err_copy" => some <| verdict [] [("copy_is_identical", l.outNat "same" == some 1)]
  | "err_fmt" => some <|
    match l.inInt "code", l.inHex "msg", l.inNat "fill", (l.inStr "ctx").bind parse3, l.inNat "size", l.inNat "bfill", l.inNat "null",
          l.outInt "ret", l.outHex "buf" with
    | some code, some msg, some fill, some (o, r, c), some size, some bfill, some null, some ret, some buf =>
      let m := msg.take (cap - 1)
      let e : ErrorT := ⟨code % 4294967296, m ++ [0] ++ List.replicate (cap - 1 - m.length) (UInt8.ofNat fill), none, 0, none, o, i32 c, i32 r⟩
      let b0 := List.replicate size (UInt8.ofNat bfill)
      match errorFormat Engine.std (if null == 1 then none else some e) (if null == 2 then none else some b0) size with
      | .error _ => .diverge "model-says-unterminated-message"
      | .ok out =>
        verdict [("impl_model_return", out.ret == ret), ("impl_model_buffer", (if null == 2 then b0 else out.buf) == buf)]
                [("buffer_size_unchanged", buf.length == size),
                 ("return_inside_buffer", if size == 0 then ret == 0 else -1 ≤ ret && ret < size),
                 ("buffer_nul_terminated", size == 0 || null != 0 || buf.contains 0),
                 ("untouched_when_nothing_to_do", !(size == 0 || null != 0) || buf == b0),
                 ("returned_length_within_string", size == 0 || null != 0 || ret < 0 || ret ≤ (cstr buf).length)]
    | _, _, _, _, _, _, _, _, _ => .bad "err_fmt"
  | "api_version" => some <|
    match l.outHex "s", l.outStr "v", l.outInt "minor", l.outStr "init" with
    | some s, some v, some minor, some ini =>
      verdict [("version_components", v == s!"{Gen.Api.versionMajor}.{Gen.Api.versionMinor}.{Gen.Api.versionPatch}" &&
                                      minor == Gen.Api.versionMinor),
               ("version_string_macro", s == str Gen.Api.versionString)]
              [("version_string_spells_the_components", s == versionText), ("init_ok_and_idempotent", ini == "0.0")]
    | _, _, _, _ => .bad "api_version"
  | _ => none

end Driver.Ops.ApiErr
