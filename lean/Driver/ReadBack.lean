import Carquet.Util
import Carquet.Impl.Reader
import Carquet.Impl.Writer
import Carquet.Impl.ReaderTable
/-
Reader side of the file-level driver ops (used by Driver/Ops/FileWrite for the `r<g>_<c>` fields
of `wr` lines and by Driver/Ops/FileRead): the model reader run on the bytes the real writer
produced, rendered exactly as harness/ops_file.c `read_chunk` renders what the real reader
returned, and the table a write history intends (C01's own predicate).
-/
namespace Driver.ReadBack
open Carquet Carquet.Util Carquet.Impl

/-- no zlib / libzstd in the driver: GZIP and ZSTD pages cannot be decompressed by the model -/
def noLib : CodecWrappers.Lib := ⟨fun _ _ _ => none, fun _ _ => none, fun n => n⟩
def noLibs : Reader.Libs := ⟨noLib, noLib⟩

def modelDecompresses (codec : Nat) : Bool := codec == 0 || codec == 1 || codec == 5 || codec == 7

def modeOf : Nat → Reader.Mode
  | 0 => .fread
  | 1 => .mmap
  | _ => .buffer

def hexOf (b : List UInt8) : String := toHex b

/-- `ret;defs;vals[;reps]` of one `carquet_column_read_batch` of the whole chunk; `optional` = the
harness passes a def_levels array (the case's column is OPTIONAL or REPEATED), `repeated` = it also
passes a rep_levels array (REPEATED) and prints the fourth field -/
def renderRead (optional repeated : Bool) (r : ColumnReader.ReadResult Reader.Bytes) : String :=
  let got := r.count
  let n := got.toNat
  let defChars := (r.defs.take n).map (fun d => match d with | some 1 => '1' | some 0 => '0' | _ => '?')
  let repChars := (r.reps.take n).map (fun d => match d with | some 1 => '1' | some 0 => '0' | _ => '?')
  let nn := if got > 0 then (if optional then (defChars.filter (· == '1')).length else n) else 0
  let defsStr := if got > 0 ∧ optional then String.ofList defChars else "-"
  let vals := (r.vals.take nn).map (fun v => match v with | some x => hexOf x | none => "UNINIT")
  let base := s!"{got};{defsStr};{if nn = 0 then "-" else ":".intercalate vals}"
  if repeated then s!"{base};{if got > 0 then String.ofList repChars else "-"}" else base

/-- harness `read_chunk` on the model reader -/
def readChunkStr (mode : Reader.Mode) (file : List UInt8) (o : Reader.Opened) (g c : Nat) (optional repeated : Bool) : String :=
  match Reader.readChunkR Reader.Fixes.all noLibs true mode file o g c optional repeated with
  | .error e => s!"E{e.code};-;-"
  | .ok r => renderRead optional repeated r

/-! ### the table a history intends (harness `ech_add` / `expected_chunk`) -/

structure EChunk where
  nrows : Nat := 0
  defs : List Nat := []
  reps : List Nat := []
  vals : List (List UInt8) := []

def addBatch (e : EChunk) (b : Writer.Batch) : EChunk :=
  { nrows := e.nrows + b.nrows,
    defs := e.defs ++ (match b.defs with | some ds => ds | none => List.replicate b.nrows 1),
    reps := e.reps ++ (match b.reps with | some rs => rs | none => List.replicate b.nrows 0),
    vals := e.vals ++ b.vals }

/-- row groups = maximal runs of batches between `rg` steps -/
def intended (ncols : Nat) (ops : List Writer.Op) : List (List EChunk) :=
  let fresh : List EChunk := List.replicate ncols {}
  let rec go (ops : List Writer.Op) (cur : Option (List EChunk)) (acc : List (List EChunk)) : List (List EChunk) :=
    match ops with
    | [] => (match cur with | some g => acc ++ [g] | none => acc)
    | .newRowGroup :: rest => (match cur with | some g => go rest none (acc ++ [g]) | none => go rest none acc)
    | .batch b :: rest =>
      let g := cur.getD fresh
      go rest (some (g.modify b.col (fun e => addBatch e b))) acc
  go ops none []

def expectedStr (optional repeated : Bool) (e : EChunk) : String :=
  let defs := if e.nrows = 0 then "-" else if optional then String.ofList (e.defs.map (fun d => if d = 1 then '1' else '0')) else "-"
  let base := s!"{e.nrows};{defs};{if e.vals.isEmpty then "-" else ":".intercalate (e.vals.map hexOf)}"
  if repeated then
    s!"{base};{if e.nrows = 0 then "-" else String.ofList (e.reps.map (fun d => if d = 1 then '1' else '0'))}"
  else base

/-- `num_rows` the history intends: per row group the rows of its first column (a REPEATED column
starts a row at every repetition level 0) -/
def intendedRows (firstRepeated : Bool) (gs : List (List EChunk)) : Nat :=
  (gs.map (fun g => match g.head? with
                    | some e => if firstRepeated then (e.reps.filter (· == 0)).length else e.nrows
                    | none => 0)).sum

/-! ### the table the REAL reader returned, and the table of the theorem

`C01_roundtrip` (Properties/C01/Roundtrip.lean) says `Reader.readAll (file written) = ok (readerTableOf cols ops)`.
The run-time tie speaks about the same two functions: the `r<g>_<c>` fields of the line (what the real
reader returned) are parsed into a `Reader.Table`; the property predicate is "that table is
`readerTableOf cols ops`", the tie "`Reader.readAll` on the real bytes returns that table" (per mode). -/

/-- one `ret;defs;vals` field as a column of a `Reader.Table` (`none`: an error, an uninitialised
slot, or a malformed field).  Without a def_levels array (REQUIRED column) every row has level 0. -/
def parseField (optional repeated : Bool) (s : String) : Option Reader.ColumnData :=
  match (if repeated then (match s.splitOn ";" with
                           | [ret, defs, vals, reps] =>
                             -- a REPEATED column: the repetition levels are tied through the rendered strings
                             -- (`reader_model_<mode>`, `readback_is_intended_table`); `Reader.Table` has none
                             if reps == "-" || reps.toList.all (fun ch => ch == '0' || ch == '1') then [ret, defs, vals] else []
                           | _ => [])
         else s.splitOn ";") with
  | [ret, defs, vals] => do
    let n ← ret.toNat?
    let ds ← (if n = 0 then some []
              else if optional then
                (if defs.length = n ∧ defs.toList.all (fun ch => ch == '0' || ch == '1')
                 then some (defs.toList.map (fun ch => if ch == '1' then 1 else 0)) else none)
              else some (List.replicate n 0))
    let vs ← (if vals == "-" then some [] else (vals.splitOn ":").mapM parseHex)
    some ⟨ds, vs⟩
  | _ => none

/-- the table the real reader returned (all row groups must be on the line) -/
def realTable (ncols : Nat) (optionalOf repeatedOf : Nat → Bool) (fieldOf : Nat → Nat → String) (nrg : Nat) (rows : Int) :
    Option Reader.Table :=
  ((List.range nrg).mapM (fun g => (List.range ncols).mapM (fun c => parseField (optionalOf c) (repeatedOf c) (fieldOf g c)))).map
    (fun gs => ⟨rows, gs⟩)

def readAllIs (mode : Reader.Mode) (file : List UInt8) (t : Reader.Table) : Bool :=
  match Reader.readAll Reader.Fixes.all noLibs true mode file with
  | .ok t' => t' == t
  | .error _ => false

/-- Checks for the read-back part of a `wr` line.
model checks: the model reader on `file` (fread, and mmap / buffer when the C side says the three
modes agreed) returns what the real reader returned, for the codecs the model can decompress;
the open-level numbers for every codec.
property checks: what the real reader returned is the table the history intends (C01) — judged twice:
against `Writer.readerTableOf cols ops`, the right-hand side of the theorem C01_roundtrip
(`readback_is_readerTableOf`), and against the independently written rule `intended` of
harness/ops_file.c (`readback_is_intended_table`).  Tie of the theorem's left-hand side:
`Reader.readAll` on the real bytes returns the real reader's table (`reader_model_readAll_<mode>`). -/
def readChecks (cols : List Writer.Col) (codec : Nat) (ops : List Writer.Op) (file : List UInt8) (l : Line) :
    List (String × Bool) × List (String × Bool) :=
  match l.outStr "open" with
  | some e =>
    ([("reader_model_open_error", match Reader.openFile .fread file with
                                  | .error er => s!"E{er.code}" == e
                                  | .ok _ => false)], [("file_opens", false)])
  | none =>
    match l.outNat "nrg", l.outInt "rows", l.outNat "ncol" with
    | some nrg, some rows, some ncol =>
      match Reader.openFile .fread file with
      | .error _ => ([("reader_model_opens", false)], [])
      | .ok o =>
        let modesAgree := l.outNat "p_modes" == some 1
        let gs := List.range (min nrg 16)
        let cs := List.range cols.length
        let optionalOf (c : Nat) : Bool := match cols[c]? with | some col => col.rep != .required | none => false
        let repeatedOf (c : Nat) : Bool := match cols[c]? with | some col => col.rep == .repeated | none => false
        let cells := gs.flatMap (fun g => cs.map (fun c => (g, c)))
        let fieldOf (g c : Nat) : String := (l.outStr s!"r{g}_{c}").getD "<missing>"
        let tie (mode : Reader.Mode) : Bool :=
          cells.all (fun gc => readChunkStr mode file o gc.1 gc.2 (optionalOf gc.2) (repeatedOf gc.2) == fieldOf gc.1 gc.2)
        let openOk (m : Reader.Mode) : Bool :=
          match Reader.openFile m file with
          | .ok o' => o'.numRowGroups == o.numRowGroups && o'.md.numRows == o.md.numRows && o'.numColumns == o.numColumns
          | .error _ => false
        let exp := intended cols.length ops
        -- the theorem's table: what the real reader returned, as a `Reader.Table`, against `readerTableOf`
        let real := if nrg ≤ 16 then realTable cols.length optionalOf repeatedOf fieldOf nrg rows else none
        let theoremTable := Writer.readerTableOf cols ops
        let tableChecks : List (String × Bool) :=
          if nrg ≤ 16 then [("readback_is_readerTableOf", real == some theoremTable)] else []
        let readAllChecks : List (String × Bool) :=
          match real with
          | some t =>
            if modelDecompresses codec then
              [("reader_model_readAll_fread", readAllIs .fread file t)] ++
              (if modesAgree then [("reader_model_readAll_mmap", readAllIs .mmap file t),
                                   ("reader_model_readAll_buffer", readAllIs .buffer file t)] else [])
            else []
          | none => []
        let propOk := exp.length == nrg && rows == (intendedRows (repeatedOf 0) exp : Int) &&
          (cells.all (fun gc =>
            match exp[gc.1]? with
            | some g => (match g[gc.2]? with
                         | some e => expectedStr (optionalOf gc.2) (repeatedOf gc.2) e == fieldOf gc.1 gc.2
                         | none => false)
            | none => false))
        ([("reader_model_nrg", o.numRowGroups == nrg), ("reader_model_rows", o.md.numRows == rows),
          ("reader_model_ncol", o.numColumns == ncol)] ++
         (if modesAgree then [("reader_model_open_mmap", openOk .mmap), ("reader_model_open_buffer", openOk .buffer)] else []) ++
         (if modelDecompresses codec then
            [("reader_model_fread", tie .fread)] ++
            (if modesAgree then [("reader_model_mmap", tie .mmap), ("reader_model_buffer", tie .buffer)] else [])
          else []) ++ readAllChecks,
         [("readback_is_intended_table", propOk)] ++ tableChecks)
    | _, _, _ => ([("wr_read_fields", false)], [])

end Driver.ReadBack
