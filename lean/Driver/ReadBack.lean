import Carquet.Util
import Carquet.Impl.Reader
import Carquet.Impl.Writer
/-
Reader side of the file-level driver ops (used by Driver/Ops/FileWrite for the `r<g>_<c>` fields
of `wr` lines and by Driver/Ops/FileRead): the model reader run on the bytes the real writer
produced, rendered exactly as harness/ops_file.c `read_chunk` renders what the real reader
returned, and the table a write history intends (C01's own predicate).
-/
namespace Driver.ReadBack
open Carquet Carquet.Util Carquet.Impl

/-- no zlib / libzstd in the driver: GZIP and ZSTD pages cannot be decompressed by the model -/
def noLib : CodecWrappers.Lib := ⟨fun _ _ _ => none, fun _ _ => none, fun n => n⟩
def noLibs : Reader.Libs := ⟨noLib, noLib⟩

def modelDecompresses (codec : Nat) : Bool := codec == 0 || codec == 1 || codec == 5 || codec == 7

def modeOf : Nat → Reader.Mode
  | 0 => .fread
  | 1 => .mmap
  | _ => .buffer

def hexOf (b : List UInt8) : String := toHex b

/-- `ret;defs;vals` of one `carquet_column_read_batch` of the whole chunk; `optional` = the
harness passes a def_levels array (the case's column is OPTIONAL) -/
def renderRead (optional : Bool) (r : ColumnReader.ReadResult Reader.Bytes) : String :=
  let got := r.count
  let n := got.toNat
  let defChars := (r.defs.take n).map (fun d => match d with | some 1 => '1' | some 0 => '0' | _ => '?')
  let nn := if got > 0 then (if optional then (defChars.filter (· == '1')).length else n) else 0
  let defsStr := if got > 0 ∧ optional then String.ofList defChars else "-"
  let vals := (r.vals.take nn).map (fun v => match v with | some x => hexOf x | none => "UNINIT")
  s!"{got};{defsStr};{if nn = 0 then "-" else ":".intercalate vals}"

/-- harness `read_chunk` on the model reader -/
def readChunkStr (mode : Reader.Mode) (file : List UInt8) (o : Reader.Opened) (g c : Nat) (optional : Bool) : String :=
  match Reader.readChunk Reader.Fixes.all noLibs true mode file o g c optional with
  | .error e => s!"E{e.code};-;-"
  | .ok r => renderRead optional r

/-! ### the table a history intends (harness `ech_add` / `expected_chunk`) -/

structure EChunk where
  nrows : Nat := 0
  defs : List Nat := []
  vals : List (List UInt8) := []

def addBatch (e : EChunk) (b : Writer.Batch) : EChunk :=
  { nrows := e.nrows + b.nrows,
    defs := e.defs ++ (match b.defs with | some ds => ds | none => List.replicate b.nrows 1),
    vals := e.vals ++ b.vals }

/-- row groups = maximal runs of batches between `rg` steps -/
def intended (ncols : Nat) (ops : List Writer.Op) : List (List EChunk) :=
  let fresh : List EChunk := List.replicate ncols {}
  let rec go (ops : List Writer.Op) (cur : Option (List EChunk)) (acc : List (List EChunk)) : List (List EChunk) :=
    match ops with
    | [] => (match cur with | some g => acc ++ [g] | none => acc)
    | .newRowGroup :: rest => (match cur with | some g => go rest none (acc ++ [g]) | none => go rest none acc)
    | .batch b :: rest =>
      let g := cur.getD fresh
      go rest (some (g.modify b.col (fun e => addBatch e b))) acc
  go ops none []

def expectedStr (optional : Bool) (e : EChunk) : String :=
  let defs := if e.nrows = 0 then "-" else if optional then String.ofList (e.defs.map (fun d => if d = 1 then '1' else '0')) else "-"
  s!"{e.nrows};{defs};{if e.vals.isEmpty then "-" else ":".intercalate (e.vals.map hexOf)}"

/-- Checks for the read-back part of a `wr` line.
model checks: the model reader on `file` (fread, and mmap / buffer when the C side says the three
modes agreed) returns what the real reader returned, for the codecs the model can decompress;
the open-level numbers for every codec.
property checks: what the real reader returned is the table the history intends (C01). -/
def readChecks (cols : List Writer.Col) (codec : Nat) (ops : List Writer.Op) (file : List UInt8) (l : Line) :
    List (String × Bool) × List (String × Bool) :=
  match l.outStr "open" with
  | some e =>
    ([("reader_model_open_error", match Reader.openFile .fread file with
                                  | .error er => s!"E{er.code}" == e
                                  | .ok _ => false)], [("file_opens", false)])
  | none =>
    match l.outNat "nrg", l.outInt "rows", l.outNat "ncol" with
    | some nrg, some rows, some ncol =>
      match Reader.openFile .fread file with
      | .error _ => ([("reader_model_opens", false)], [])
      | .ok o =>
        let modesAgree := l.outNat "p_modes" == some 1
        let gs := List.range (min nrg 16)
        let cs := List.range cols.length
        let optionalOf (c : Nat) : Bool := match cols[c]? with | some col => col.rep == .optional | none => false
        let cells := gs.flatMap (fun g => cs.map (fun c => (g, c)))
        let fieldOf (g c : Nat) : String := (l.outStr s!"r{g}_{c}").getD "<missing>"
        let tie (mode : Reader.Mode) : Bool :=
          cells.all (fun gc => readChunkStr mode file o gc.1 gc.2 (optionalOf gc.2) == fieldOf gc.1 gc.2)
        let openOk (m : Reader.Mode) : Bool :=
          match Reader.openFile m file with
          | .ok o' => o'.numRowGroups == o.numRowGroups && o'.md.numRows == o.md.numRows && o'.numColumns == o.numColumns
          | .error _ => false
        let exp := intended cols.length ops
        let propOk := exp.length == nrg &&
          (cells.all (fun gc =>
            match exp[gc.1]? with
            | some g => (match g[gc.2]? with
                         | some e => expectedStr (optionalOf gc.2) e == fieldOf gc.1 gc.2
                         | none => false)
            | none => false))
        ([("reader_model_nrg", o.numRowGroups == nrg), ("reader_model_rows", o.md.numRows == rows),
          ("reader_model_ncol", o.numColumns == ncol)] ++
         (if modesAgree then [("reader_model_open_mmap", openOk .mmap), ("reader_model_open_buffer", openOk .buffer)] else []) ++
         (if modelDecompresses codec then
            [("reader_model_fread", tie .fread)] ++
            (if modesAgree then [("reader_model_mmap", tie .mmap), ("reader_model_buffer", tie .buffer)] else [])
          else []),
         [("readback_is_intended_table", propOk)])
    | _, _, _ => ([("wr_read_fields", false)], [])

end Driver.ReadBack
