import Carquet.Gen.Constants
import Carquet.Impl.Crc32
import Carquet.Properties.C14
import Carquet.Properties.C14.Crc
import Carquet.Spec.Crc32
import Carquet.Util
