import Carquet.Util
import Carquet.Spec.Crc32
import Carquet.Impl.Crc32
