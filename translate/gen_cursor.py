#!/usr/bin/env python3
"""Translator part for the column/batch reader cursor (C02/C03): implementation-chosen numbers
that the Impl models use as parameters -> lean/Carquet/Gen/Cursor.lean."""
import os, re, sys
sys.path.insert(0, os.path.dirname(os.path.abspath(__file__)))
import gen


def main():
    L = ["namespace Carquet.Gen.Cursor", ""]
    cr = gen.src("src/reader/column_reader.c")
    # carquet_column_skip: `int64_t chunk_size = 1024;`
    m = gen.need(r"int64_t\s+chunk_size\s*=\s*(\d+)\s*;", cr, "skip chunk_size in column_reader.c")
    L.append(f"def skipChunkSize : Nat := {int(m.group(1))}")
    br = gen.src("src/reader/batch_reader.c")
    # #define CARQUET_MAX_BATCH_ALLOC (1024ULL * 1024 * 1024)
    m = gen.need(r"#define\s+CARQUET_MAX_BATCH_ALLOC\s+\(([^)]*)\)", br, "CARQUET_MAX_BATCH_ALLOC")
    prod = 1
    for f in m.group(1).split("*"):
        prod *= gen.cint(f.strip().rstrip("uUlL"))
    L.append(f"def maxBatchAlloc : Nat := {prod}")
    m = gen.need(r"config->batch_size\s*=\s*(\d+)\s*;", br, "default batch_size")
    L.append(f"def defaultBatchSize : Nat := {int(m.group(1))}")
    L += ["", "end Carquet.Gen.Cursor", ""]
    gen.emit("Cursor.lean", "\n".join(L))


if __name__ == "__main__":
    main()
