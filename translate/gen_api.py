#!/usr/bin/env python3
"""Translator part for the public-API models (component `api`): the switch tables of src/core/error.c
(status strings, type/codec/encoding names, recovery hints, recoverability), the status / logical-type /
time-unit / converted-type enums, the error message capacity and the version macros
-> lean/Carquet/Gen/Api.lean.  A `switch` whose shape is not `case LABEL: ... return <literal>;` fails loudly."""
import os, re, sys
sys.path.insert(0, os.path.dirname(os.path.abspath(__file__)))
import gen


def fn_body(text, name):
    m = gen.need(r"\b" + re.escape(name) + r"\s*\([^)]*\)\s*\{", text, "function " + name)
    i, depth = m.end(), 1
    while depth and i < len(text):
        depth += {"{": 1, "}": -1}.get(text[i], 0)
        i += 1
    return text[m.end():i - 1]


def switch_table(text, name):
    """-> ([(case label, literal)], default literal).  literal: ('s', str) | ('n',) NULL | ('b', bool)"""
    body = re.sub(r"/\*.*?\*/", "", fn_body(text, name), flags=re.S)
    body = re.sub(r"//[^\n]*", "", body)
    m = gen.need(r"switch\s*\(\s*\w+\s*\)\s*\{(.*)\}", body, "switch in " + name, re.S)
    toks = re.findall(r'case\s+(\w+)\s*:|(default)\s*:|return\s+("(?:[^"\\]|\\.)*"|NULL|true|false)\s*;', m.group(1))
    rest = re.sub(r'case\s+\w+\s*:|default\s*:|return\s+("(?:[^"\\]|\\.)*"|NULL|true|false)\s*;', "", m.group(1))
    if rest.strip():
        sys.stderr.write(f"translator: unexpected statements in the switch of {name}: {rest.strip()[:80]!r}\n")
        sys.exit(1)
    table, default, pending, pend_default = [], None, [], False
    for case, dflt, ret in toks:
        if case:
            pending.append(case)
        elif dflt:
            pend_default = True
        else:
            lit = ("n",) if ret == "NULL" else ("b", ret == "true") if ret in ("true", "false") else \
                  ("s", bytes(ret[1:-1], "utf-8").decode("unicode_escape"))
            for c in pending:
                table.append((c, lit))
            if pend_default:
                default = lit
            pending, pend_default = [], False
    if pending or pend_default or default is None:
        sys.stderr.write(f"translator: switch of {name}: labels without return, or no default\n")
        sys.exit(1)
    return table, default


def lean_str(s):
    return '"' + s.replace("\\", "\\\\").replace('"', '\\"').replace("\n", "\\n") + '"'


def lit_str(l):
    return lean_str(l[1])


def lit_opt(l):
    return "none" if l[0] == "n" else "some " + lean_str(l[1])


def lit_bool(l):
    return "true" if l[1] else "false"


def main():
    L = ["namespace Carquet.Gen.Api", ""]
    eh = gen.src("include/carquet/error.h")
    ty = gen.src("include/carquet/types.h")
    ec = gen.src("src/core/error.c")
    ch = gen.src("include/carquet/carquet.h")
    enums = {}
    for text, en, lean in [(eh, "carquet_status_t", "statusCodes"), (ty, "carquet_logical_type_id_t", "logicalIds"),
                           (ty, "carquet_time_unit_t", "timeUnits"), (ty, "carquet_converted_type_t", "convertedTypes"),
                           (ty, "carquet_physical_type_t", "physicalTypes"), (ty, "carquet_compression_t", "compressionCodecs"),
                           (ty, "carquet_encoding_t", "encodings")]:
        vals = gen.enum_values(text, en)
        enums.update(dict(vals))
        L.append(f"def {lean} : List (String × Int) := [" + ", ".join(f'("{k}", {v})' for k, v in vals) + "]")
    L.append(f"def errorMessageMax : Nat := {gen.define_of(eh, 'CARQUET_ERROR_MESSAGE_MAX')}")
    for k in ("MAJOR", "MINOR", "PATCH"):
        L.append(f"def version{k.capitalize()} : Nat := {gen.define_of(ch, 'CARQUET_VERSION_' + k)}")
    m = gen.need(r'#define\s+CARQUET_VERSION_STRING\s+"([^"]*)"', ch, "CARQUET_VERSION_STRING")
    L.append(f"def versionString : String := {lean_str(m.group(1))}")

    def table(fn, lean, ty_, show):
        tbl, dflt = switch_table(ec, fn)
        rows = []
        for c, l in tbl:
            if c not in enums:
                sys.stderr.write(f"translator: {fn}: case label {c} is not an enum constant\n")
                sys.exit(1)
            rows.append(f"({enums[c]}, {show(l)})")
        L.append(f"/-- `{fn}`: (case value, returned literal) in source order -/")
        L.append(f"def {lean} : List (Int × {ty_}) := [" + ", ".join(rows) + "]")
        L.append(f"def {lean}Default : {ty_} := {show(dflt)}")

    table("carquet_status_string", "statusStrings", "String", lit_str)
    table("carquet_physical_type_name", "physicalTypeNames", "String", lit_str)
    table("carquet_compression_name", "compressionNames", "String", lit_str)
    table("carquet_encoding_name", "encodingNames", "String", lit_str)
    table("carquet_error_recovery_hint", "recoveryHints", "Option String", lit_opt)
    table("carquet_error_is_recoverable", "recoverable", "Bool", lit_bool)
    # the format strings of carquet_error_format, in call order
    body = fn_body(ec, "carquet_error_format")
    fmts = re.findall(r'snprintf\s*\([^"]*?("(?:[^"\\]|\\.)*")', body, flags=re.S)
    L.append("/-- the format strings of the `snprintf` calls of `carquet_error_format`, in order -/")
    L.append("def errorFormatStrings : List String := [" +
             ", ".join(lean_str(bytes(f[1:-1], "utf-8").decode("unicode_escape")) for f in fmts) + "]")
    m = gen.need(r'error->message\[0\]\s*\?\s*error->message\s*:\s*("(?:[^"\\]|\\.)*")', body, "no-details literal")
    L.append(f"def errorNoDetails : String := {lean_str(m.group(1)[1:-1])}")
    # parse_logical_type / write_logical_type (src/thrift/parquet_types.c): the two numbering schemes kept apart.
    # Parser: every `case N: lt->id = CARQUET_LOGICAL_X;` arm (thrift union field number -> public enum constant);
    # an assignment to lt->id of any other shape (e.g. a cast of field_id) is refused.
    pt = gen.src("src/thrift/parquet_types.c")
    pbody = re.sub(r"/\*.*?\*/", "", fn_body(pt, "parse_logical_type"), flags=re.S)
    arms = re.findall(r"case\s+(\d+)\s*:\s*lt->id\s*=\s*(CARQUET_LOGICAL_\w+)\s*;", pbody)
    n_assign = len(re.findall(r"lt->id\s*=", pbody))
    if n_assign != len(arms) or not arms:
        sys.stderr.write(f"translator: parse_logical_type: {n_assign} assignments to lt->id, {len(arms)} of the form "
                         "`case N: lt->id = CARQUET_LOGICAL_X;`\n")
        sys.exit(1)
    for _, name in arms:
        if name not in enums:
            sys.stderr.write(f"translator: parse_logical_type: {name} is not an enum constant\n"); sys.exit(1)
    L.append("/-- `parse_logical_type`: (union field number of parquet.thrift, value of the enum constant assigned to `lt->id`) -/")
    L.append("def logicalParseArms : List (Int × Int) := [" + ", ".join(f"({n}, {enums[x]})" for n, x in arms) + "]")
    units = re.findall(r"uf\s*==\s*(\d+)\s*\)\s*lt->params\.(\w+)\.unit\s*=\s*(CARQUET_TIME_UNIT_\w+)\s*;", pbody)
    if len(units) != len(re.findall(r"\.unit\s*=", pbody)) or not units:
        sys.stderr.write("translator: parse_logical_type: time-unit assignments of an unexpected shape\n"); sys.exit(1)
    L.append("/-- `parse_logical_type`: (member, TimeUnit union field number, value of the unit constant) -/")
    L.append("def logicalParseUnits : List (String × Int × Int) := [" +
             ", ".join(f'("{m}", {n}, {enums[x]})' for n, m, x in units) + "]")
    params = re.findall(r"field_id\s*==\s*(\d+)\s*\)\s*lt->params\.(\w+)\.(\w+)\s*=", pbody)
    L.append("/-- `parse_logical_type`: (member, parameter, field number inside the member struct) -/")
    L.append("def logicalParseParams : List (String × String × Int) := [" +
             ", ".join(f'("{m}", "{f}", {n})' for n, m, f in params) + "]")
    # Writer: `case CARQUET_LOGICAL_X: thrift_write_field_header(enc, THRIFT_TYPE_STRUCT, N);` (first header of the arm)
    wbody = re.sub(r"/\*.*?\*/", "", fn_body(pt, "write_logical_type"), flags=re.S)
    warms = re.findall(r"case\s+(CARQUET_LOGICAL_\w+)\s*:\s*thrift_write_field_header\s*\(\s*enc\s*,\s*THRIFT_TYPE_STRUCT\s*,\s*(\d+)\s*\)", wbody)
    if len(warms) != len(re.findall(r"case\s+CARQUET_LOGICAL_", wbody)) or not warms:
        sys.stderr.write("translator: write_logical_type: a case arm of an unexpected shape\n"); sys.exit(1)
    L.append("/-- `write_logical_type`: (value of the enum constant, union field number written) -/")
    L.append("def logicalWriteArms : List (Int × Int) := [" + ", ".join(f"({enums[x]}, {n})" for x, n in warms) + "]")
    L += ["", "end Carquet.Gen.Api", ""]
    gen.emit("Api.lean", "\n".join(L))


if __name__ == "__main__":
    main()
