#!/usr/bin/env python3
"""Translator for C13: re-extract from src/thrift/parquet_types.c (working tree), for every
struct writer and every struct parser, what it does at the Thrift level:

  writers:  per (nested) struct frame the ordered list of (field id, wire type written)
            -- every `thrift_write_field_header(enc, TYPE, ID)`, attributed to the innermost open
            `thrift_write_struct_begin` .. `thrift_write_struct_end` frame of the function
  parsers:  per (nested) struct frame the ordered list of field ids it dispatches on
            -- every `case N:` and every `<var> == N` test on a field-id variable, attributed to
            the innermost open `thrift_read_struct_begin` .. `thrift_read_struct_end` frame
  limits:   the CARQUET_MAX_* limits and THRIFT_TYPE_* codes

A nested frame is named `<function>.<id of the field header / case label that precedes it>...`.
Regex-level extraction only; anything that is not found is a hard failure."""
import os, re, sys

VERIF = os.path.dirname(os.path.dirname(os.path.abspath(__file__)))
REPO = os.environ.get("VERIF_REPO", "/repo")
GEN = os.path.join(VERIF, "lean", "Carquet", "Gen")
BASE = os.path.join(VERIF, "translate", "baseline")


def die(msg):
    sys.stderr.write("translator gen_thrift: " + msg + "\n")
    sys.exit(1)


def src(rel):
    p = os.path.join(REPO, rel)
    if not os.path.exists(p):
        die("missing " + p)
    return open(p, errors="replace").read()


def strip_comments(t):
    t = re.sub(r"/\*.*?\*/", " ", t, flags=re.S)
    return re.sub(r"//[^\n]*", " ", t)


def functions(text):
    """name -> body for every function definition at file level (brace matching)."""
    out = {}
    for m in re.finditer(r"^(?:static\s+)?[A-Za-z_][\w\s\*]*?\b(\w+)\s*\(([^;{}]*)\)\s*\{", text, flags=re.M):
        name = m.group(1)
        i = m.end()
        depth = 1
        while i < len(text) and depth:
            c = text[i]
            depth += (c == "{") - (c == "}")
            i += 1
        out[name] = text[m.end():i - 1]
    return out


def type_codes():
    h = strip_comments(src("src/thrift/thrift_decode.h"))
    m = re.search(r"typedef\s+enum\s+thrift_type\s*\{([^}]*)\}", h, flags=re.S)
    if not m:
        die("enum thrift_type not found")
    codes = {}
    for k, v in re.findall(r"(THRIFT_TYPE_\w+)\s*=\s*(\d+)", m.group(1)):
        codes[k] = int(v)
    if len(codes) < 14:
        die("enum thrift_type: fewer than 14 members")
    return codes


def wire_type(expr, codes):
    e = expr.strip()
    if e in codes:
        return codes[e]
    if re.fullmatch(r"[^?]+\?\s*1\s*:\s*2", e):
        return 1            # bool: the value is in the type nibble (1 true / 2 false)
    if re.fullmatch(r"\d+", e):
        return int(e)
    die("cannot read wire type expression: " + e)


def frames_of_writer(name, body, codes):
    tok = re.compile(r"thrift_write_struct_begin\s*\(|thrift_write_struct_end\s*\(|"
                     r"thrift_write_field_header\s*\(\s*&?\w+\s*,([^,;]+?(?:\?[^,;]*)?),\s*(-?\d+)\s*\)")
    frames, stack, last = {}, [], {}
    for m in tok.finditer(body):
        s = m.group(0)
        if s.startswith("thrift_write_struct_begin"):
            fname = name if not stack else stack[-1] + "." + str(last.get(stack[-1], "x"))
            stack.append(fname)
            frames.setdefault(fname, [])
        elif s.startswith("thrift_write_struct_end"):
            if not stack:
                die(f"{name}: struct_end without begin")
            stack.pop()
        else:
            if not stack:
                die(f"{name}: field header outside a struct")
            fid = int(m.group(2))
            item = (fid, wire_type(m.group(1), codes))
            if item not in frames[stack[-1]]:
                frames[stack[-1]].append(item)
            last[stack[-1]] = fid
    if stack:
        die(f"{name}: unbalanced struct begin/end")
    if name not in frames:
        die(f"{name}: no struct written")
    return frames


def frames_of_parser(name, body):
    tok = re.compile(r"thrift_read_struct_begin\s*\(|thrift_read_struct_end\s*\(|\bcase\s+(-?\d+)\s*:|"
                     r"\b(?:field_id|fid|uf)\s*==\s*(-?\d+)")
    frames, stack, last = {}, [], {}
    for m in tok.finditer(body):
        s = m.group(0)
        if s.startswith("thrift_read_struct_begin"):
            fname = name if not stack else stack[-1] + "." + str(last.get(stack[-1], "x"))
            stack.append(fname)
            frames.setdefault(fname, [])
        elif s.startswith("thrift_read_struct_end"):
            if not stack:
                die(f"{name}: read struct_end without begin")
            stack.pop()
        else:
            if not stack:
                die(f"{name}: field dispatch outside a struct")
            fid = int(m.group(1) if m.group(1) is not None else m.group(2))
            if fid not in frames[stack[-1]]:
                frames[stack[-1]].append(fid)
            last[stack[-1]] = fid
    if stack:
        die(f"{name}: unbalanced read struct begin/end")
    if name not in frames:
        die(f"{name}: no struct parsed")
    return frames


def list_elems_of_writer(name, body, codes):
    """per struct frame: (field id, element wire type) for every LIST field header that is followed by its
    `thrift_write_list_begin(enc, ELEM, count)`"""
    tok = re.compile(r"thrift_write_struct_begin\s*\(|thrift_write_struct_end\s*\(|"
                     r"thrift_write_field_header\s*\(\s*&?\w+\s*,([^,;]+?(?:\?[^,;]*)?),\s*(-?\d+)\s*\)|"
                     r"thrift_write_list_begin\s*\(\s*&?\w+\s*,\s*(\w+)\s*,")
    frames, stack, last, pending = {}, [], {}, None
    for m in tok.finditer(body):
        s = m.group(0)
        if s.startswith("thrift_write_struct_begin"):
            fname = name if not stack else stack[-1] + "." + str(last.get(stack[-1], "x"))
            stack.append(fname)
            frames.setdefault(fname, [])
        elif s.startswith("thrift_write_struct_end"):
            stack.pop()
        elif s.startswith("thrift_write_field_header"):
            fid = int(m.group(2))
            last[stack[-1]] = fid
            pending = (stack[-1], fid) if wire_type(m.group(1), codes) == codes["THRIFT_TYPE_LIST"] else None
        else:
            if pending is None:
                die(f"{name}: thrift_write_list_begin without a LIST field header in front")
            item = (pending[1], wire_type(m.group(3), codes))
            if item not in frames[pending[0]]:
                frames[pending[0]].append(item)
            pending = None
    return frames


PAGE_INDEX_WRITERS = ["carquet_column_index_serialize", "carquet_offset_index_serialize"]

WRITERS = ["write_statistics", "write_logical_type", "write_schema_element", "write_column_metadata",
           "write_column_chunk", "write_row_group", "parquet_write_file_metadata", "parquet_write_page_header"]
PARSERS = ["parse_statistics", "parse_logical_type", "parse_schema_element", "parse_column_metadata",
           "parse_column_chunk", "parse_row_group", "parquet_parse_file_metadata", "parquet_parse_page_header"]
LIMITS = ["CARQUET_MAX_SCHEMA_ELEMENTS", "CARQUET_MAX_ROW_GROUPS", "CARQUET_MAX_COLUMNS_PER_RG",
          "CARQUET_MAX_KEY_VALUE_PAIRS", "CARQUET_MAX_ENCODINGS", "CARQUET_MAX_PATH_ELEMENTS",
          "CARQUET_MAX_ENCODING_STATS"]


def main():
    codes = type_codes()
    text = strip_comments(src("src/thrift/parquet_types.c"))
    fns = functions(text)
    L = ["namespace Carquet.Gen.ThriftSchema", ""]
    L.append("/-- `THRIFT_TYPE_*` (thrift_decode.h) -/")
    L.append("def typeCodes : List (String × Nat) := [" +
             ", ".join(f'("{k}", {v})' for k, v in sorted(codes.items(), key=lambda kv: kv[1])) + "]")
    raw = src("src/thrift/parquet_types.c")
    lim = []
    for name in LIMITS:
        m = re.search(r"#define\s+" + name + r"\s+(\d+)", raw)
        if not m:
            die("limit not found: " + name)
        lim.append((name, int(m.group(1))))
    L.append("/-- the VALIDATE_COUNT limits of parquet_types.c -/")
    L.append("def limits : List (String × Int) := [" + ", ".join(f'("{k}", {v})' for k, v in lim) + "]")
    # which limit guards which list (the VALIDATE_COUNT calls, in source order per function)
    guards = []
    for fn in PARSERS:
        if fn not in fns:
            die("parser not found: " + fn)
        for m in re.finditer(r"VALIDATE_COUNT(?:_STATUS)?\s*\(\s*\w+\s*,\s*(CARQUET_MAX_\w+)", fns[fn]):
            guards.append((fn, m.group(1)))
    if len(guards) < 8:
        die("fewer than 8 VALIDATE_COUNT guards found")
    L.append("/-- (function, limit) for every VALIDATE_COUNT / VALIDATE_COUNT_STATUS, in source order -/")
    L.append("def countGuards : List (String × String) := [" + ", ".join(f'("{a}", "{b}")' for a, b in guards) + "]")
    wf = []
    for fn in WRITERS:
        if fn not in fns:
            die("writer not found: " + fn)
        for k, v in frames_of_writer(fn, fns[fn], codes).items():
            wf.append((k, v))
    L.append("/-- per struct frame of every writer: (field id, wire type) in source order -/")
    L.append("def writers : List (String × List (Int × Nat)) := [")
    L.append(",\n".join('  ("%s", [%s])' % (k, ", ".join(f"({a}, {b})" for a, b in v)) for k, v in wf))
    L.append("]")
    pf = []
    for fn in PARSERS:
        for k, v in frames_of_parser(fn, fns[fn]).items():
            pf.append((k, v))
    L.append("/-- per struct frame of every parser: the field ids it dispatches on, in source order -/")
    L.append("def parsers : List (String × List Int) := [")
    L.append(",\n".join('  ("%s", [%s])' % (k, ", ".join(str(a) for a in v)) for k, v in pf))
    L.append("]")
    L.append("/-- writer frame -> the parser frame of the same struct (`write` replaced by `parse` in the name) -/")
    L.append("def writerParser : List (String × String) := [" +
             ", ".join('("%s", "%s")' % (k, k.replace("write", "parse")) for k, _ in wf) + "]")
    # the page-index serialisers (metadata/page_index.c; writers only, carquet has no parser for them)
    pfns = functions(strip_comments(src("src/metadata/page_index.c")))
    piw, pil = [], []
    for fn in PAGE_INDEX_WRITERS:
        if fn not in pfns:
            die("page index writer not found: " + fn)
        for k, v in frames_of_writer(fn, pfns[fn], codes).items():
            piw.append((k, v))
        for k, v in list_elems_of_writer(fn, pfns[fn], codes).items():
            pil.append((k, v))
    L.append("/-- metadata/page_index.c: per struct frame of the two serialisers, (field id, wire type) in source order -/")
    L.append("def pageIndexWriters : List (String × List (Int × Nat)) := [")
    L.append(",\n".join('  ("%s", [%s])' % (k, ", ".join(f"({a}, {b})" for a, b in v)) for k, v in piw))
    L.append("]")
    L.append("/-- the same frames: (field id, element wire type) of every list-valued field -/")
    L.append("def pageIndexListElems : List (String × List (Int × Nat)) := [")
    L.append(",\n".join('  ("%s", [%s])' % (k, ", ".join(f"({a}, {b})" for a, b in v)) for k, v in pil))
    L.append("]")
    # does the page-header parser parse statistics (F24 repaired) or skip them?
    ph = fns["parquet_parse_page_header"]
    L.append("/-- `parse_statistics` is called from `parquet_parse_page_header` (F24 repaired) -/")
    L.append(f"def pageHeaderParsesStatistics : Bool := {'true' if 'parse_statistics' in ph else 'false'}")
    L += ["", "end Carquet.Gen.ThriftSchema", ""]
    text_out = ("/- GENERATED by translate/gen_thrift.py from /repo's working tree on every check run. Do not edit. -/\n"
                + "\n".join(L))
    os.makedirs(GEN, exist_ok=True)
    path = os.path.join(GEN, "ThriftSchema.lean")
    old = open(path).read() if os.path.exists(path) else None
    if old != text_out:
        open(path, "w").write(text_out)
    bpath = os.path.join(BASE, "ThriftSchema.lean")
    if os.path.exists(bpath) and open(bpath).read() != text_out:
        print("ThriftSchema.lean: differs from the committed baseline (field tables in parquet_types.c changed)")
    if "--update-baseline" in sys.argv:
        os.makedirs(BASE, exist_ok=True)
        open(bpath, "w").write(text_out)


if __name__ == "__main__":
    main()
