#!/usr/bin/env python3
"""Translator part for src/compression/snappy.c -> lean/Carquet/Gen/SnappyConstants.lean.
Tag kinds are format-determined (proved equal to the Spec's in Properties/C10/Snappy.lean);
hash geometry, match window, small-input threshold, loop margin and the bound formula are
implementation-chosen (proved equal to the numbers the Impl model uses in Properties/C09/Snappy.lean).
Regex-level extraction; anything not found is a hard failure."""
import os, re, sys
sys.path.insert(0, os.path.dirname(os.path.abspath(__file__)))
import gen as G


def shift_define(text, name):
    m = G.need(r"#define\s+" + name + r"\s+\(?\s*(?:(\d+)\s*<<\s*(\w+)|(\d+))\s*\)?", text, name)
    if m.group(3) is not None:
        return int(m.group(3))
    base, sh = int(m.group(1)), m.group(2)
    return base << (int(sh) if sh.isdigit() else shift_define(text, sh))


def main():
    t = G.src("src/compression/snappy.c")
    L = ["namespace Carquet.Gen", ""]
    for name, lean in [("SNAPPY_LITERAL", "snappyTagLiteral"), ("SNAPPY_COPY_1", "snappyTagCopy1"),
                       ("SNAPPY_COPY_2", "snappyTagCopy2"), ("SNAPPY_COPY_4", "snappyTagCopy4"),
                       ("SNAPPY_HASH_LOG", "snappyHashLog"), ("SNAPPY_HASH_SIZE", "snappyHashSize"),
                       ("SNAPPY_MAX_OFFSET", "snappyMaxOffset")]:
        L.append(f"def {lean} : Nat := {shift_define(t, name)}")
    m = G.need(r"snappy_hash\s*\([^)]*\)\s*\{\s*return\s*\(\s*val\s*\*\s*(0x[0-9a-fA-F]+)\s*\)\s*>>\s*\(\s*32\s*-\s*SNAPPY_HASH_LOG\s*\)",
               t, "snappy_hash body")
    L.append(f"def snappyHashMul : Nat := {int(m.group(1), 16)}")
    m = G.need(r"carquet_snappy_compress_bound\s*\(\s*size_t\s+src_size\s*\)\s*\{\s*return\s+(\d+)\s*\+\s*src_size\s*\+\s*src_size\s*/\s*(\d+)\s*;",
               t, "compress_bound formula")
    L.append(f"def snappyBoundBase : Nat := {int(m.group(1))}")
    L.append(f"def snappyBoundDiv : Nat := {int(m.group(2))}")
    m = G.need(r"if\s*\(\s*src_size\s*<\s*(\d+)\s*\)\s*\{\s*/\*\s*Just emit a literal", t, "small-input threshold")
    L.append(f"def snappySmallInput : Nat := {int(m.group(1))}")
    m = G.need(r"ilimit\s*=\s*iend\s*-\s*(\d+)\s*;", t, "ilimit margin")
    L.append(f"def snappyLimitMargin : Nat := {int(m.group(1))}")
    m = G.need(r"uint16_t\s+hash_table\s*\[\s*SNAPPY_HASH_SIZE\s*\]", t, "uint16_t hash table")
    L.append("def snappyTableEntryBits : Nat := 16")
    L += ["", "end Carquet.Gen", ""]
    G.emit("SnappyConstants.lean", "\n".join(L))


if __name__ == "__main__":
    main()
