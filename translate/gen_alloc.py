#!/usr/bin/env python3
"""Translator part for C19 (allocation behaviour): implementation-chosen sizes used by the Impl
models of carquet_buffer / carquet_arena / the schema builder, re-extracted from /repo's working
tree on every run -> lean/Carquet/Gen/AllocConstants.lean."""
import os, re, sys
sys.path.insert(0, os.path.dirname(os.path.abspath(__file__)))
import gen


def expr_of(text, name):
    m = gen.need(r"#define\s+" + re.escape(name) + r"\s+\(?([0-9xXa-fA-F\s\*]+?)\)?\s*(?:/\*.*)?$", text, name, re.M)
    val = 1
    for f in m.group(1).split("*"):
        val *= gen.cint(f)
    return val


def main():
    L = ["namespace Carquet.Gen", ""]
    buf = gen.src("src/core/buffer.h")
    L.append(f"def bufferDefaultCapacity : Nat := {expr_of(buf, 'CARQUET_BUFFER_DEFAULT_CAPACITY')}")
    ar = gen.src("src/core/arena.h")
    L.append(f"def arenaDefaultBlockSize : Nat := {expr_of(ar, 'CARQUET_ARENA_DEFAULT_BLOCK_SIZE')}")
    L.append(f"def arenaAlignment : Nat := {expr_of(ar, 'CARQUET_ARENA_ALIGNMENT')}")
    sc = gen.src("src/metadata/schema.c")
    L.append(f"def schemaInitialCapacity : Nat := {expr_of(sc, 'SCHEMA_INITIAL_CAPACITY')}")
    L.append(f"def schemaGrowthFactor : Nat := {expr_of(sc, 'SCHEMA_GROWTH_FACTOR')}")
    m = gen.need(r"carquet_arena_init_size\(&schema->arena,\s*(\d+)\)", sc, "schema arena block size")
    L.append(f"def schemaArenaBlockSize : Nat := {int(m.group(1))}")
    L += ["", "end Carquet.Gen", ""]
    gen.emit("AllocConstants.lean", "\n".join(L))


if __name__ == "__main__":
    main()
