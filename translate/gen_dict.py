#!/usr/bin/env python3
"""Translator part for the dictionary builder: implementation-chosen numbers of
src/encoding/dictionary.c (bucket count, FNV-1a offset basis and prime) ->
lean/Carquet/Gen/Dict.lean.  Called by translate/gen.py (gen_*.py convention)."""
import os, sys
sys.path.insert(0, os.path.dirname(os.path.abspath(__file__)))
from gen import src, need, cint, emit


def main():
    d = src("src/encoding/dictionary.c")
    nb = cint(need(r"builder->num_buckets\s*=\s*([0-9xXa-fA-F]+)\s*;", d, "dict num_buckets").group(1))
    h = need(r"static\s+uint32_t\s+dict_hash\s*\([^)]*\)\s*\{(.*?)\n\}", d, "dict_hash body", 16).group(1)
    off = cint(need(r"uint32_t\s+h\s*=\s*([0-9xXa-fA-F]+)\s*;", h, "dict_hash offset basis").group(1))
    prime = cint(need(r"h\s*\*=\s*([0-9xXa-fA-F]+)\s*;", h, "dict_hash prime").group(1))
    need(r"h\s*\^=\s*data\[i\]\s*;", h, "dict_hash xor step (FNV-1a order: xor then multiply)")
    L = ["namespace Carquet.Gen", "",
         "/-- `builder->num_buckets` in dict_builder_init -/",
         f"def dictNumBuckets : Nat := {nb}",
         "/-- initial value of `h` in dict_hash -/",
         f"def dictHashOffset : Nat := {off}",
         "/-- multiplier in dict_hash -/",
         f"def dictHashPrime : Nat := {prime}",
         "", "end Carquet.Gen", ""]
    emit("Dict.lean", "\n".join(L))


if __name__ == "__main__":
    main()
