#!/usr/bin/env python3
"""Translator extra for C16: constants of the statistics code, re-extracted from the working tree
into lean/Carquet/Gen/StatsConstants.lean (status codes the statistics APIs return, the
comparison-operator enum, the size of the builder's min/max storage, the page writer's)."""
import os, re, sys
sys.path.insert(0, os.path.dirname(os.path.abspath(__file__)))
import gen

def main():
    err = gen.src("include/carquet/error.h")
    st = dict(gen.enum_values(err, "carquet_status_t"))
    hdr = gen.src("include/carquet/carquet.h")
    ops = gen.enum_values(hdr, "carquet_compare_op_t")
    sb = gen.src("src/metadata/statistics.c")
    m1 = gen.need(r"uint8_t\s+min_value\[(\d+)\];\s*uint8_t\s+max_value\[(\d+)\];", sb, "statistics builder min/max storage")
    pw = gen.src("src/writer/page_writer.c")
    m2 = gen.need(r"uint8_t\s+min_value\[(\d+)\];\s*uint8_t\s+max_value\[(\d+)\];", pw, "page writer min/max storage")
    L = ["namespace Carquet.Gen", ""]
    for k in ("CARQUET_OK", "CARQUET_ERROR_INVALID_ARGUMENT", "CARQUET_ERROR_NOT_IMPLEMENTED",
              "CARQUET_ERROR_COLUMN_NOT_FOUND", "CARQUET_ERROR_ROW_GROUP_NOT_FOUND"):
        if k not in st:
            sys.stderr.write(f"translator: cannot find {k}\n"); sys.exit(1)
    L.append(f"def statusOk : Int := {st['CARQUET_OK']}")
    L.append(f"def statusInvalidArgument : Int := {st['CARQUET_ERROR_INVALID_ARGUMENT']}")
    L.append(f"def statusNotImplemented : Int := {st['CARQUET_ERROR_NOT_IMPLEMENTED']}")
    L.append(f"def statusColumnNotFound : Int := {st['CARQUET_ERROR_COLUMN_NOT_FOUND']}")
    L.append(f"def statusRowGroupNotFound : Int := {st['CARQUET_ERROR_ROW_GROUP_NOT_FOUND']}")
    L.append("def compareOps : List (String × Int) := [" + ", ".join(f'("{k}", {v})' for k, v in ops) + "]")
    L.append(f"def builderValueCap : Nat := {min(int(m1.group(1)), int(m1.group(2)))}")
    L.append(f"def pageWriterValueCap : Nat := {min(int(m2.group(1)), int(m2.group(2)))}")
    L += ["", "end Carquet.Gen", ""]
    gen.emit("StatsConstants.lean", "\n".join(L))

if __name__ == "__main__":
    main()
