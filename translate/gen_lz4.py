#!/usr/bin/env python3
"""Translator part for the compression component: constants of src/compression/lz4.c and of the
gzip / zstd wrappers -> lean/Carquet/Gen/Lz4Consts.lean.  Run by translate/gen.py (gen_*.py hook)."""
import os, re, sys
sys.path.insert(0, os.path.dirname(os.path.abspath(__file__)))
import gen


def main():
    lz = gen.src("src/compression/lz4.c")
    L = ["namespace Carquet.Gen.Lz4", ""]
    L.append(f"def minMatch : Nat := {gen.define_of(lz, 'LZ4_MIN_MATCH')}")
    L.append(f"def hashLog : Nat := {gen.define_of(lz, 'LZ4_HASH_LOG')}")
    L.append(f"def minLength : Nat := {gen.define_of(lz, 'LZ4_MIN_LENGTH')}")
    L.append(f"def lastLiterals : Nat := {gen.define_of(lz, 'LZ4_LAST_LITERALS')}")
    m = gen.need(r"return\s*\(\s*val\s*\*\s*([0-9xXa-fA-F]+)[uU]?\s*\)\s*>>\s*\(\s*32\s*-\s*LZ4_HASH_LOG\s*\)", lz, "lz4_hash multiplier")
    L.append(f"def hashMul : Nat := {gen.cint(m.group(1))}")
    m = gen.need(r"uint16_t\s+hash_table\s*\[\s*LZ4_HASH_SIZE\s*\]", lz, "uint16_t hash_table[LZ4_HASH_SIZE]")
    L.append("def tableEntryBits : Nat := 16")
    m = gen.need(r"ip\s*-\s*ref\s*>\s*(\d+)", lz, "maximal match distance test")
    L.append(f"def maxDistance : Nat := {int(m.group(1))}")
    m = gen.need(r"carquet_lz4_compress_bound\s*\(\s*size_t\s+src_size\s*\)\s*\{\s*return\s+src_size\s*\+\s*\(\s*src_size\s*/\s*(\d+)\s*\)\s*\+\s*(\d+)\s*;", lz,
                 "carquet_lz4_compress_bound body", re.S)
    L.append(f"def boundDiv : Nat := {int(m.group(1))}")
    L.append(f"def boundAdd : Nat := {int(m.group(2))}")
    m = gen.need(r"if\s*\(\s*offset\s*>=\s*(\d+)\s*\)", lz, "wide-copy offset threshold")
    L.append(f"def wideCopyMinOffset : Nat := {int(m.group(1))}")
    gz = gen.src("src/compression/gzip.c")
    m = gen.need(r"inflateInit2\s*\(\s*&strm\s*,\s*(\d+)\s*\+\s*(\d+)\s*\)", gz, "inflateInit2 windowBits")
    L.append(f"def gzipWindowBits : Nat := {int(m.group(1)) + int(m.group(2))}")
    m = gen.need(r"if\s*\(\s*level\s*<\s*(\d+)\s*\)\s*level\s*=\s*(\d+)\s*;\s*if\s*\(\s*level\s*>\s*(\d+)\s*\)\s*level\s*=\s*(\d+)\s*;", gz, "gzip level clamp", re.S)
    L.append(f"def gzipLevelMin : Int := {int(m.group(2))}")
    L.append(f"def gzipLevelMax : Int := {int(m.group(4))}")
    m = gen.need(r"compressBound\s*\(\s*\(uLong\)\s*src_size\s*\)\s*\+\s*(\d+)", gz, "gzip bound slack")
    L.append(f"def gzipBoundExtra : Nat := {int(m.group(1))}")
    zs = gen.src("src/compression/zstd.c")
    m = gen.need(r"if\s*\(\s*level\s*<\s*(\d+)\s*\)\s*level\s*=\s*(\d+)\s*;", zs, "zstd level clamp")
    L.append(f"def zstdLevelMin : Int := {int(m.group(2))}")
    L += ["", "end Carquet.Gen.Lz4", ""]
    gen.emit("Lz4Consts.lean", "\n".join(L))


if __name__ == "__main__":
    main()
