#!/usr/bin/env python3
"""Translator for C15: src/simd/dispatch.c + CMakeLists.txt (+ detect.c hook, carquet.h)
-> lean/Carquet/Gen/Dispatch.lean.

Extracted (regex level, hard failure if a pattern is missing):
  * the slots of `carquet_simd_dispatch_t` in declaration order;
  * the scalar fallback installed in each slot at the start of carquet_simd_dispatch_init;
  * every x86 `#ifdef CARQUET_ENABLE_X  if (cpu->has_A && cpu->has_B ...) { g_dispatch.s = f; ... }`
    block in source order: its condition (a conjunction of has_ flags) and its assignments;
  * which x86 file defines each installed kernel, and the -m flags CMakeLists.txt compiles that
    file with (GCC-like branch);
  * the feature flags of carquet_cpu_info_t, and the bit each one has in the CARQUET_VERIF
    capability hook of detect.c (struct order if the hook is not applied to this tree).
Features are numbered: detectable flags first (bit = hook bit), then features that appear only
as a compile flag (e.g. bmi2) -- the dispatcher cannot see those."""
import os, re, sys

sys.path.insert(0, os.path.dirname(os.path.abspath(__file__)))
import gen as G


def die(msg):
    sys.stderr.write("translator(gen_dispatch): " + msg + "\n")
    sys.exit(1)


def norm(feature):
    return feature.lower().replace(".", "").replace("_", "")


def strip_comments(t):
    t = re.sub(r"/\*.*?\*/", " ", t, flags=re.S)
    return re.sub(r"//[^\n]*", "", t)


def main():
    disp = G.src("src/simd/dispatch.c")
    # ---- table slots
    m = G.need(r"typedef\s+struct\s*\{([^}]*)\}\s*carquet_simd_dispatch_t\s*;", disp, "carquet_simd_dispatch_t", re.S)
    slots = re.findall(r"\b\w+_fn\s+(\w+)\s*;", strip_comments(m.group(1)))
    if len(slots) < 5:
        die("dispatch table slots not found")
    # ---- init function body
    m = G.need(r"void\s+carquet_simd_dispatch_init\s*\(\s*void\s*\)\s*\{(.*?)\n\}", disp, "carquet_simd_dispatch_init body", re.S)
    body = m.group(1)
    m = re.search(r"#if\s+defined\(CARQUET_ARCH_X86\)(.*?)#endif\s*/\*\s*CARQUET_ARCH_X86\s*\*/", body, re.S)
    if not m:
        die("x86 section of carquet_simd_dispatch_init not found")
    x86 = m.group(1)
    pre = body[:body.index("#if defined(CARQUET_ARCH_X86)")]
    scalar = dict(re.findall(r"g_dispatch\.(\w+)\s*=\s*(\w+)\s*;", strip_comments(pre)))
    for s in slots:
        if s not in scalar:
            die(f"slot {s} has no scalar fallback assignment")
    # ---- x86 blocks
    blocks = []
    pos = 0
    x86c = strip_comments(x86)
    for bm in re.finditer(r"#ifdef\s+(CARQUET_ENABLE_\w+)\s+if\s*\(([^{]*?)\)\s*\{(.*?)\n\s*\}\s*#endif", x86c, re.S):
        macro, cond, blk = bm.group(1), bm.group(2), bm.group(3)
        flags = re.findall(r"cpu->has_(\w+)", cond)
        rest = re.sub(r"cpu->has_\w+", "", cond).replace("&&", "").strip()
        if not flags or rest:
            die(f"condition of block {macro} is not a conjunction of cpu->has_ flags: {cond!r}")
        assigns = re.findall(r"g_dispatch\.(\w+)\s*=\s*(\w+)\s*;", blk)
        if not assigns:
            die(f"block {macro} installs nothing")
        leftover = re.sub(r"g_dispatch\.\w+\s*=\s*\w+\s*;", "", blk).strip()
        if leftover:
            die(f"block {macro} contains statements other than table assignments: {leftover[:80]!r}")
        for s, _ in assigns:
            if s not in slots:
                die(f"block {macro} assigns unknown slot {s}")
        blocks.append((macro, flags, assigns))
    n_if = len(re.findall(r"\bif\s*\(", x86c))
    if not blocks or n_if != len(blocks):
        die(f"x86 section: {n_if} if-statements but {len(blocks)} recognised blocks")
    # ---- which file defines which kernel; file flags
    cm = G.src("CMakeLists.txt")
    file_flags = {}
    for fm in re.finditer(r'set_source_files_properties\(\s*src/simd/x86/(\w+\.c)\s+PROPERTIES\s+COMPILE_FLAGS\s+"((?:-m[\w.\-]+\s*)+)"\s*\)', cm):
        file_flags[fm.group(1)] = [f[2:] for f in fm.group(2).split()]
    kernel_file = {}
    xdir = os.path.join(G.REPO, "src", "simd", "x86")
    for fn in sorted(os.listdir(xdir)):
        if not fn.endswith(".c"):
            continue
        txt = strip_comments(open(os.path.join(xdir, fn), errors="replace").read())
        for km in re.finditer(r"^[A-Za-z_][\w \t\*]*?\b(carquet_\w+)\s*\([^;{]*\)\s*\{", txt, re.M):
            kernel_file[km.group(1)] = fn
    for _, _, assigns in blocks:
        for _, f in assigns:
            if f not in kernel_file:
                die(f"installed kernel {f} is not defined in src/simd/x86/*.c")
            if kernel_file[f] not in file_flags:
                die(f"no COMPILE_FLAGS found in CMakeLists.txt for {kernel_file[f]}")
    # ---- detectable features and their hook bits
    hdr = G.src("include/carquet/carquet.h")
    m = G.need(r"typedef\s+struct\s+carquet_cpu_info\s*\{(.*?)\}\s*carquet_cpu_info_t\s*;", hdr, "carquet_cpu_info_t", re.S)
    fields = re.findall(r"\bbool\s+has_(\w+)\s*;", strip_comments(m.group(1)))
    det = G.src("src/simd/detect.c")
    hook = re.findall(r"if\s*\(\s*!\s*\(\s*cap\s*&\s*\(1ul\s*<<\s*(\d+)\)\)\)\s*g_cpu_info\.has_(\w+)\s*=\s*0\s*;", det)
    hook_present = bool(hook) and "CARQUET_VERIF_CPU_CAP" in det
    if hook_present:
        bits = sorted((int(b), f) for b, f in hook)
        if [b for b, _ in bits] != list(range(len(bits))):
            die("capability hook bits are not 0..k-1")
        detectable = [f for _, f in bits]
        for f in detectable:
            if f not in fields:
                die(f"hook caps has_{f}, which is not a field of carquet_cpu_info_t")
    else:
        detectable = [f for f in fields if f not in ("neon", "sve")]
    for _, flags, _ in blocks:
        for f in flags:
            if f not in detectable:
                die(f"dispatch condition uses has_{f}, which the capability hook cannot cap")
    features = list(detectable)
    for fl in file_flags.values():
        for f in fl:
            if norm(f) not in [norm(x) for x in features]:
                features.append(norm(f))
    fidx = {norm(f): i for i, f in enumerate(features)}

    def mask(names):
        v = 0
        for n in names:
            v |= 1 << fidx[norm(n)]
        return v

    # ---- kernels (id = index): scalar fallbacks in slot order, then installed kernels in block order
    kernels, kisa, kreq = [], [], []
    for s in slots:
        kernels.append(scalar[s]); kisa.append("scalar"); kreq.append(0)
    for _, _, assigns in blocks:
        for _, f in assigns:
            if f not in kernels:
                kernels.append(f)
                im = re.match(r"carquet_([a-z0-9]+)_", f)
                kisa.append(im.group(1) if im else "unknown")
                kreq.append(mask(file_flags[kernel_file[f]]))
    kid = {k: i for i, k in enumerate(kernels)}
    block_isa = []
    for macro, _, assigns in blocks:
        isas = {kisa[kid[f]] for _, f in assigns}
        if len(isas) != 1:
            die(f"block {macro} installs kernels of several instruction sets: {sorted(isas)}")
        block_isa.append(isas.pop())

    def sl(xs):
        return "[" + ", ".join('"' + x + '"' for x in xs) + "]"

    L = ["namespace Carquet.Gen.Dispatch", ""]
    L.append(f"def hookPresent : Bool := {'true' if hook_present else 'false'}")
    L.append("/-- feature i has bit i in a capability mask; the first `nDetectable` are fields of `carquet_cpu_info_t`")
    L.append("(bit = bit in CARQUET_VERIF_CPU_CAP), the rest occur only as compile flags and cannot be detected -/")
    L.append(f"def features : List String := {sl(features)}")
    L.append(f"def nDetectable : Nat := {len(detectable)}")
    L.append(f"def slots : List String := {sl(slots)}")
    L.append("/-- kernel id = index in this list -/")
    L.append(f"def kernels : List String := {sl(kernels)}")
    L.append(f"def kernelIsa : List String := {sl(kisa)}")
    ranks = {"scalar": 0, "sse": 1, "avx2": 2, "avx512": 3}
    for i in kisa + block_isa:
        if i not in ranks:
            die(f"unknown instruction-set prefix {i!r}")
    L.append("/-- instruction-set rank: 0 scalar, 1 sse, 2 avx2, 3 avx512 -/")
    L.append(f"def kernelRank : List Nat := {G.lean_list([ranks[i] for i in kisa])}")
    L.append(f"def blockRank : List Nat := {G.lean_list([ranks[i] for i in block_isa])}")
    L.append("/-- per kernel: mask of the -m flags its file is compiled with (0 for the scalar fallbacks in dispatch.c) -/")
    L.append(f"def kernelReq : List Nat := {G.lean_list(kreq)}")
    L.append("/-- per slot: kernel id of the scalar fallback installed first -/")
    L.append(f"def scalarInit : List Nat := {G.lean_list([kid[scalar[s]] for s in slots])}")
    L.append("/-- x86 blocks in source order: (instruction set, mask of the has_ flags the `if` tests, [(slot, kernel id)]) -/")
    bl = []
    for (macro, flags, assigns), isa in zip(blocks, block_isa):
        a = ", ".join(f"({slots.index(s)}, {kid[f]})" for s, f in assigns)
        bl.append(f'("{isa}", {mask(flags)}, [{a}])')
    L.append("def blocks : List (String × Nat × List (Nat × Nat)) :=\n  [" + ",\n   ".join(bl) + "]")
    L.append("def blockMacros : List String := " + sl([b[0] for b in blocks]))
    L.append("def blockConds : List (List String) := [" + ", ".join(sl(b[1]) for b in blocks) + "]")
    L.append("def fileFlags : List (String × List String) := [" +
             ", ".join(f'("{f}", {sl(file_flags[f])})' for f in sorted(file_flags)) + "]")
    tbl = G.array_of(disp, "crc32c_table", "crc32c_table[256]")
    if len(tbl) != 256:
        die(f"crc32c_table has {len(tbl)} entries")
    L.append("/-- `crc32c_table[256]` of dispatch.c -/")
    L.append(f"def crc32cTable : List Nat := {G.lean_list(tbl)}")
    L += ["", "end Carquet.Gen.Dispatch", ""]
    G.emit("Dispatch.lean", "\n".join(L))


if __name__ == "__main__":
    main()
