#!/usr/bin/env python3
"""C -> Lean translator for small pure scalar functions of /repo (run by translate/gen.py on every check run).

For every function listed in FUNCS it asks clang-14 for the fully typed JSON AST of the CURRENT source and writes
  lean/Carquet/Gen/CFun.lean        one `def f` (value, two's-complement wrap-around) and one `def f_defined`
                                    (no undefined behaviour reached) per function, over `BitVec`/`Bool`
                                    (semantics: lean/Carquet/Impl/CSem.lean), plus a table for the driver;
  harness/gen_cfun_shim_*.c         one translation unit per C file that `#include`s it (its external symbols
  harness/gen_cfun_table.h          renamed) and exposes each (static) function as `uint64_t cfunx_<name>(const
                                    uint64_t*)`, so that harness/ops_cfun.c can call the REAL compiled function.
The theorems in lean/Carquet/Properties/Cnn/CFun.lean link the generated definitions to the hand-written Impl
models; they are re-checked by the Lean kernel against what the C code says now.

Everything the translator does not understand is a hard error (non-zero exit): an untranslatable function is a
broken tie, never silently skipped.  The translator follows the AST's own implicit conversions (ImplicitCastExpr) and
operand types; it does not re-derive C's promotion rules.  The only folding it does itself: a cast or unary minus
applied to a literal, a literal shift count, and `(c != 0)` of a comparison result `c`.

Supported subset: see NOTES_cfun.md.
"""
import hashlib, json, os, re, subprocess, sys, tempfile

sys.path.insert(0, os.path.dirname(os.path.abspath(__file__)))
import gen

REPO = gen.REPO
HARNESS = os.path.join(gen.VERIF, "harness")
# generated harness sources go to the build directory of THIS run (VERIF_BUILD_DIR, default /verif/build), not into
# harness/: runs against different trees (VERIF_REPO, e.g. seeded trials in parallel) must not see one another's shims
GENH = os.path.join(os.environ.get("VERIF_BUILD_DIR") or os.path.join(gen.VERIF, "build"), "genh")
CLANG = os.environ.get("VERIF_CLANG", "clang-14")
CFLAGS = ["-std=gnu11", f"-I{REPO}/include", f"-I{REPO}/src", "-DCARQUET_ARCH_X86", "-DCARQUET_ENABLE_SSE",
          "-DCARQUET_ENABLE_AVX2", "-DCARQUET_ENABLE_AVX512"]
SPILL = 72          # a bound local whose Lean expression is longer than this becomes a helper definition


def F(lean, file, cname=None, fuel=None, **kw):
    """`fuel`: one entry per loop of the function in source order: a number, or (stage 2) a Lean `Nat` expression in
    which `{x}` stands for the value of the C variable `x` on entry to the loop (`{@a}` = the content of array `a`)."""
    d = dict(lean=lean, file=file, cname=cname or lean, fuel=fuel or [], stage=1)
    d.update(kw)
    return d


def F2(lean, file, cname=None, fuel=None, **kw):
    """a stage-2 function (arrays, pointers, out-parameters, tables): listed in the second table of Gen/CFun.lean"""
    return F(lean, file, cname, fuel, stage=2, **kw)


def F3(lean, file, cname=None, fuel=None, **kw):
    """a stage-3 function (reads / writes a struct through a pointer; NOTES_cfun3.md): third table of Gen/CFun.lean.
    `fieldbase={"p.f": "a"}`: in this function the pointer field `p->f` points into the array parameter `a` (it is assigned
    from it); `drop_params=[..]`: `const char*` parameters that only feed statements on opaque (unmodelled) fields."""
    return F(lean, file, cname, fuel, stage=3, **kw)


# Order matters only in that a callee must come before its callers.  `fuel`: one number per loop of the function
# (in source order); the `_defined` predicate is false if a loop runs out of fuel, and the link theorems prove it
# does not.
FUNCS = [
    F("carquet_zigzag_encode32", "src/core/endian.h"),
    F("carquet_zigzag_encode64", "src/core/endian.h"),
    F("carquet_zigzag_decode32", "src/core/endian.h"),
    F("carquet_zigzag_decode64", "src/core/endian.h"),
    F("delta_zigzag_decode64", "src/encoding/delta.c", "zigzag_decode64"),
    F("delta_zigzag_encode64", "src/encoding/delta.c", "zigzag_encode64"),
    F("bit_width_required", "src/encoding/delta.c", fuel=[65]),
    F("carquet_clz32", "src/core/bitpack.h"),
    F("carquet_clz64", "src/core/bitpack.h"),
    F("carquet_ctz32", "src/core/bitpack.h"),
    F("carquet_popcount32", "src/core/bitpack.h"),
    F("carquet_popcount64", "src/core/bitpack.h"),
    F("carquet_bit_width32", "src/core/bitpack.h"),
    F("carquet_bit_width64", "src/core/bitpack.h"),
    F("carquet_packed_size", "src/core/bitpack.h"),
    F("bit_width_for_count", "src/encoding/dictionary.c", fuel=[33]),
    F("page_reader_bit_width_for_max", "src/reader/page_reader.c", "bit_width_for_max", fuel=[32]),
    F("page_reader_get_value_size", "src/reader/page_reader.c", "get_value_size"),
    F("page_header_sizes_valid", "src/reader/page_reader.c"),
    F("mmap_header_window", "src/reader/page_reader.c"),
    F("mmap_body_in_file", "src/reader/page_reader.c"),
    F("carquet_page_is_zero_copy_eligible", "src/reader/mmap_reader.c"),
    F("page_writer_bit_width_for_max", "src/writer/page_writer.c", "bit_width_for_max", fuel=[16]),
    F("get_type_size", "src/reader/batch_reader.c"),
    F("statistics_get_value_size", "src/metadata/statistics.c", "get_value_size"),
    F("get_compare_width", "src/reader/statistics.c"),
    F("fixed_width", "src/metadata/page_index.c"),
    F("bloom_filter_block_index", "src/metadata/bloom_filter.c"),
    F("xxh64_rotl", "src/util/xxhash.c"),
    F("xxh64_round", "src/util/xxhash.c"),
    F("xxh64_merge_round", "src/util/xxhash.c"),
    F("snappy_hash", "src/compression/snappy.c"),
    F("carquet_snappy_compress_bound", "src/compression/snappy.c"),
    F("lz4_hash", "src/compression/lz4.c"),
    F("carquet_lz4_compress_bound", "src/compression/lz4.c"),
    F("next_power_of_two", "src/core/buffer.c"),
    F("align_up", "src/core/arena.c"),
    F("carquet_buffer_reader_remaining", "src/core/buffer.h"),
    F("carquet_buffer_reader_has", "src/core/buffer.h"),
    F("has_bytes", "src/thrift/thrift_decode.c"),
]

# Not carquet code: synthetic functions (harness/cfun_synth.h) that exercise the constructs of the supported subset the
# functions above do not use, so that the translator self-check (component cfun) covers them on every run.
SYNTH = "@harness/cfun_synth.h"
FUNCS += [
    F("syn_sdiv", SYNTH), F("syn_smod", SYNTH), F("syn_smul", SYNTH), F("syn_neg", SYNTH), F("syn_shl", SYNTH),
    F("syn_shr", SYNTH), F("syn_ushl", SYNTH), F("syn_udivmod", SYNTH), F("syn_guard", SYNTH),
    F("syn_for", SYNTH, fuel=[6]), F("syn_switch", SYNTH), F("syn_bools", SYNTH),
    F("syn_rec_inner", SYNTH), F("syn_rec", SYNTH), F("syn_collatz", SYNTH, fuel=[202]), F("syn_mix", SYNTH),
]


# ---- stage 2: read-only arrays, pointer walks, out-parameters, constant tables (NOTES_cfun2.md)
FUNCS += [
    F2("read64_le", "src/util/xxhash.c"),
    F2("read32_le", "src/util/xxhash.c"),
    F2("carquet_xxhash64", "src/util/xxhash.c",
       fuel=["{length}.toNat / 32 + 1", "{length}.toNat / 8 + 1", "{length}.toNat + 1"]),
    F2("bloom_filter_block_insert", "src/metadata/bloom_filter.c", fuel=[9]),
    F2("bloom_filter_block_check", "src/metadata/bloom_filter.c", fuel=[9]),
    F2("crc32_init_tables", "src/util/crc32.c", fuel=[257, 9, 8, 257]),
    F2("crc32_slicing_by_8", "src/util/crc32.c", fuel=["{length}.toNat / 8 + 1", "{length}.toNat + 1"]),
    F2("carquet_crc32", "src/util/crc32.c"),
    F2("carquet_crc32_update", "src/util/crc32.c"),
    F2("carquet_read_u16_le", "src/core/endian.h"),
    F2("carquet_read_u32_le", "src/core/endian.h"),
    F2("carquet_read_u64_le", "src/core/endian.h"),
    F2("carquet_read_i32_le", "src/core/endian.h"),
    F2("carquet_read_i64_le", "src/core/endian.h"),
    F2("carquet_decode_varint32", "src/core/endian.h", fuel=[6]),
    F2("carquet_decode_varint64", "src/core/endian.h", fuel=[11]),
    F2("carquet_encode_varint32", "src/core/endian.h", fuel=[5]),
    F2("carquet_encode_varint64", "src/core/endian.h", fuel=[10]),
    F2("read_uleb128", "src/encoding/delta.c", fuel=[11]),
    F2("rle_read_varint", "src/encoding/rle.c", "read_varint", fuel=[6]),
    F2("snappy_read_varint", "src/compression/snappy.c", fuel=[6], ends={"end": "p"}),
    F2("stats_compare_boolean", "src/metadata/statistics.c", "compare_boolean"),
    F2("stats_compare_int32", "src/metadata/statistics.c", "compare_int32"),
    F2("stats_compare_int64", "src/metadata/statistics.c", "compare_int64"),
    F2("stats_compare_int96", "src/metadata/statistics.c", "compare_int96", fuel=[4]),
    F2("rstats_compare_boolean", "src/reader/statistics.c", "compare_boolean"),
    F2("rstats_compare_int32", "src/reader/statistics.c", "compare_int32"),
    F2("rstats_compare_int64", "src/reader/statistics.c", "compare_int64"),
    F2("rstats_compare_int96", "src/reader/statistics.c", "compare_int96", fuel=[4]),
    F2("read_le16", "src/core/bitpack.c"),
    F2("read_le24", "src/core/bitpack.c"),
    F2("read_le32", "src/core/bitpack.c"),
    F2("read_le40", "src/core/bitpack.c"),
    F2("read_le48", "src/core/bitpack.c"),
    F2("read_le56", "src/core/bitpack.c"),
    F2("carquet_bitunpack8_1bit", "src/core/bitpack.c"),
    F2("carquet_bitunpack8_2bit", "src/core/bitpack.c"),
    F2("carquet_bitunpack8_3bit", "src/core/bitpack.c"),
    F2("carquet_bitunpack8_4bit", "src/core/bitpack.c"),
    F2("carquet_bitunpack8_5bit", "src/core/bitpack.c"),
    F2("carquet_bitunpack8_6bit", "src/core/bitpack.c"),
    F2("carquet_bitunpack8_7bit", "src/core/bitpack.c"),
    F2("carquet_bitunpack8_8bit", "src/core/bitpack.c"),
    F2("carquet_bitunpack8_32", "src/core/bitpack.c", fuel=[9, 33]),
    # synthetic (harness/cfun_synth.h): constructs of stage 2 that the carquet functions above do not use
    F2("syn_walk_back", SYNTH, fuel=["{end} + 1"], ends={"end": "p"}),
    F2("syn_find16", SYNTH, fuel=["{n}.toNat + 1"]),
    F2("syn_tables", SYNTH),
    F2("syn_locals", SYNTH, fuel=[5, 5]),
    F2("syn_put16", SYNTH),
    F2("syn_put_many", SYNTH),
    F2("syn_be_le", SYNTH),
    F2("syn_runs", SYNTH, fuel=["{size}.toNat + 1", 10]),
    F2("syn_do_once", SYNTH, fuel=[21]),
]

# ---- BEGIN cfunb: stage 2, second batch of table entries (component cfunb, notes/NOTES_cfunb.md) ----------------------
# The scalar reference kernels of src/simd/dispatch.c (the definitions the C15 theorems take as what every SIMD kernel
# must equal), array loops of the encodings and the small helpers of the codecs.  Configuration only (fuel, `ends=`,
# `bytes=`); the translator extensions they need are in the delimited `cfunb` blocks below.
DISPATCH = "src/simd/dispatch.c"
CNT = "{count}.toInt.toNat"
FUNCS += [
    F2("scalar_prefix_sum_i32", DISPATCH, fuel=[CNT + " + 1"]),
    F2("scalar_prefix_sum_i64", DISPATCH, fuel=[CNT + " + 1"]),
    F2("scalar_gather_i32", DISPATCH, fuel=[CNT + " + 1"]),
    F2("scalar_gather_i64", DISPATCH, fuel=[CNT + " + 1"]),
    F2("scalar_gather_float", DISPATCH, fuel=[CNT + " + 1"]),
    F2("scalar_gather_double", DISPATCH, fuel=[CNT + " + 1"]),
    F2("scalar_byte_split_encode_float", DISPATCH, fuel=[CNT + " + 1", 5], bytes=("values",)),
    F2("scalar_byte_split_decode_float", DISPATCH, fuel=[CNT + " + 1", 5], bytes=("values",)),
    F2("scalar_byte_split_encode_double", DISPATCH, fuel=[CNT + " + 1", 9], bytes=("values",)),
    F2("scalar_byte_split_decode_double", DISPATCH, fuel=[CNT + " + 1", 9], bytes=("values",)),
    F2("scalar_unpack_bools", DISPATCH, fuel=[CNT + " + 1"]),
    F2("scalar_pack_bools", DISPATCH, fuel=[CNT + " / 8 + 2", 9]),
    F2("scalar_find_run_length_i32", DISPATCH, fuel=[CNT + " + 1"]),
    F2("scalar_crc32c", DISPATCH, fuel=["{len}.toNat + 1"]),
    F2("scalar_match_copy", DISPATCH, fuel=["{len}.toNat / 8 + 1", "{len}.toNat + 1", "{len}.toNat + 1"],
       ends={"dst": "src"}),
    F2("scalar_match_length", DISPATCH, fuel=["{limit} + 1"], ends={"p": "match", "limit": "match"}),
    F2("scalar_count_non_nulls", DISPATCH, fuel=[CNT + " + 1"]),
    F2("scalar_build_null_bitmap", DISPATCH, fuel=[CNT + " / 8 + 1", "9"]),
    F2("scalar_fill_def_levels", DISPATCH, fuel=[CNT + " + 1"]),
    # src/encoding: array loops
    F2("carquet_byte_stream_split_encode", "src/encoding/byte_stream_split.c",
       fuel=["{type_length}.toInt.toNat + 1", CNT + " + 1"]),
    F2("carquet_byte_stream_split_decode", "src/encoding/byte_stream_split.c",
       fuel=[CNT + " + 1", "{type_length}.toInt.toNat + 1"]),
    F2("carquet_decode_plain_boolean", "src/encoding/plain.c", fuel=[CNT + " / 8 + 1", 9]),
    F2("carquet_decode_plain_fixed_byte_array", "src/encoding/plain.c"),
    F2("dict_hash", "src/encoding/dictionary.c", fuel=["{size}.toNat + 1"]),
    F2("write_uleb128", "src/encoding/delta.c", fuel=[11]),
    F2("bitunpack_wide", "src/encoding/delta.c", fuel=["{count}.toInt.toNat + 1", "{bit_width}.toInt.toNat + 1"]),
    F2("bitpack_wide", "src/encoding/delta.c", fuel=["{count}.toInt.toNat + 1", "{bit_width}.toInt.toNat + 1"]),
    F2("common_prefix_length", "src/encoding/delta_strings.c", fuel=["{a_len}.toNat + 1"]),
    # src/compression: the small helpers of the codecs
    F2("snappy_write_varint", "src/compression/snappy.c", fuel=[6]),
    F2("snappy_read32", "src/compression/snappy.c"),
    F2("snappy_emit_literal", "src/compression/snappy.c", ret="op"),
    F2("snappy_emit_copy", "src/compression/snappy.c", fuel=["{len}.toNat / 64 + 1"], ret="op"),
    F2("lz4_read32", "src/compression/lz4.c"),
    F2("lz4_count", "src/compression/lz4.c", fuel=["{limit} / 8 + 1", 9, "{limit} + 1"], ends={"p": "match", "limit": "match"}),
]
# ---- END cfunb table entries --------------------------------------------------------------------------------------------
# ---- stage 3: functions that read and write a struct through a pointer (NOTES_cfun3.md)
FUNCS += [
    # A. src/core/bitpack.c: bit reader / bit writer
    F3("carquet_bit_reader_init", "src/core/bitpack.c", fieldbase={"reader.data": "data"}),
    F3("refill_buffer", "src/core/bitpack.c", fuel=[9]),
    F3("carquet_bit_reader_read_bit", "src/core/bitpack.c"),
    F3("carquet_bit_reader_read_bits", "src/core/bitpack.c"),
    F3("carquet_bit_reader_read_bits64", "src/core/bitpack.c"),
    F3("carquet_bit_reader_has_more", "src/core/bitpack.c"),
    F3("carquet_bit_reader_remaining_bits", "src/core/bitpack.c"),
    F3("carquet_bit_writer_init", "src/core/bitpack.c", fieldbase={"writer.data": "data"}),
    F3("flush_buffer", "src/core/bitpack.c", fuel=[9]),
    F3("carquet_bit_writer_write_bit", "src/core/bitpack.c"),
    F3("carquet_bit_writer_write_bits", "src/core/bitpack.c"),
    F3("carquet_bit_writer_write_bits64", "src/core/bitpack.c"),
    F3("carquet_bit_writer_flush", "src/core/bitpack.c"),
    F3("carquet_bit_writer_bytes_written", "src/core/bitpack.c"),
    # B. src/core/buffer.c: the read cursor
    F3("carquet_buffer_reader_init_data", "src/core/buffer.c", fieldbase={"reader.data": "data"}),
    F3("carquet_buffer_reader_read", "src/core/buffer.c"),
    F3("carquet_buffer_reader_skip", "src/core/buffer.c"),
    F3("carquet_buffer_reader_read_byte", "src/core/buffer.c"),
    F3("carquet_buffer_reader_read_u16_le", "src/core/buffer.c"),
    F3("carquet_buffer_reader_read_u32_le", "src/core/buffer.c"),
    F3("carquet_buffer_reader_read_u64_le", "src/core/buffer.c"),
    # C. src/thrift/thrift_decode.c: the primitive readers and the error latch
    F3("set_error", "src/thrift/thrift_decode.c", drop_params=["msg"]),
    F3("read_byte_raw", "src/thrift/thrift_decode.c"),
    F3("thrift_read_varint", "src/thrift/thrift_decode.c", fuel=[11]),
    F3("thrift_read_zigzag", "src/thrift/thrift_decode.c"),
    F3("thrift_read_byte", "src/thrift/thrift_decode.c"),
    F3("thrift_read_i16", "src/thrift/thrift_decode.c"),
    F3("thrift_read_i32", "src/thrift/thrift_decode.c"),
    F3("thrift_read_i64", "src/thrift/thrift_decode.c"),
    F3("thrift_read_bool", "src/thrift/thrift_decode.c"),
    F3("thrift_read_struct_begin", "src/thrift/thrift_decode.c"),
    F3("thrift_read_struct_end", "src/thrift/thrift_decode.c"),
    F3("thrift_read_field_begin", "src/thrift/thrift_decode.c"),
    F3("thrift_read_list_begin", "src/thrift/thrift_decode.c"),
    # E. src/encoding/rle.c: the decoder pieces that are not recursive (start_new_run calls itself: outside the subset)
    F3("carquet_rle_decoder_init", "src/encoding/rle.c", fieldbase={"dec.data": "data"}),
    F3("carquet_rle_decoder_has_next", "src/encoding/rle.c"),
    F3("fill_bitpack_buffer", "src/encoding/rle.c"),
    # D. src/core/bitpack.c: the caller of carquet_bitunpack8_32 (run-time memset / memcpy, a padded local copy)
    F3("carquet_bitunpack_32", "src/core/bitpack.c", fuel=["{count}.toNat / 8 + 1", 9]),
    # synthetic (harness/cfun_synth.h): constructs of stage 3 that the carquet functions above do not use
    F3("syn_take", SYNTH),
    F3("syn_peek2", SYNTH),
    F3("syn_pump", SYNTH, fuel=[6]),
    F3("syn_skip2", SYNTH),
    F3("syn_copy", SYNTH),
    F3("syn_partial", SYNTH),
    F3("syn_inner_init", SYNTH, fieldbase={"s.cur": "data"}),
    F3("syn_sum2", SYNTH),
]


class Untranslatable(Exception):
    pass


def die(msg):
    sys.stderr.write("gen_cfun: " + msg + "\n")
    sys.exit(1)


# ------------------------------------------------------------------------------------------------ clang

def run_clang(args, what, soft=False):
    r = subprocess.run([CLANG] + CFLAGS + args, stdout=subprocess.PIPE, stderr=subprocess.PIPE, text=True)
    if r.returncode != 0:
        if soft:
            raise Untranslatable(f"clang rejects {what}")
        die(f"clang failed ({what}):\n{r.stderr[-2000:]}")
    return r.stdout


def json_docs(s):
    dec, i, docs = json.JSONDecoder(), 0, []
    while True:
        while i < len(s) and s[i].isspace():
            i += 1
        if i >= len(s):
            return docs
        o, i = dec.raw_decode(s, i)
        docs.append(o)


def ast_of(tu, name):
    """the FunctionDecl named exactly `name` that has a body"""
    out = run_clang(["-fsyntax-only", "-Xclang", "-ast-dump=json", "-Xclang", "-ast-dump-filter=" + name, tu],
                    "AST of " + name)
    for d in json_docs(out):
        if d.get("kind") == "FunctionDecl" and d.get("name") == name and \
                any(c.get("kind") == "CompoundStmt" for c in d.get("inner", [])):
            return d
    die(f"no definition of function `{name}` found in {tu}")


def first_value(n):
    if "value" in n:
        return int(n["value"])
    for c in n.get("inner", []):
        v = first_value(c)
        if v is not None:
            return v
    return None


def const_query(tu_text, tmpdir, exprs, soft=False):
    """evaluate integer constant expressions in the context of a translation unit (clang does the work)"""
    if not exprs:
        return {}
    p = os.path.join(tmpdir, "query.c")
    with open(p, "w") as f:
        f.write(tu_text)
        for i, e in enumerate(exprs):
            f.write(f"enum {{ cfun__q{i}_ = ({e}) }};\n")
    out = run_clang(["-fsyntax-only", "-Xclang", "-ast-dump=json", "-Xclang", "-ast-dump-filter=cfun__q", p],
                    "constant query " + "; ".join(exprs), soft)
    res = {}
    for d in json_docs(out):
        m = re.fullmatch(r"cfun__q(\d+)_", d.get("name", ""))
        if m and d.get("kind") == "EnumConstantDecl":
            v = first_value(d)
            if v is None:
                die(f"clang gave no value for constant expression `{exprs[int(m.group(1))]}`")
            res[exprs[int(m.group(1))]] = v
    for e in exprs:
        if e not in res:
            die(f"constant expression `{e}` was not evaluated")
    return res


# ------------------------------------------------------------------------------------------------ types

class T:
    def __init__(self, w, signed, is_bool=False):
        self.w, self.signed, self.is_bool = w, signed, is_bool

    def lean(self):
        return "Bool" if self.is_bool else f"BitVec {self.w}"

    def __eq__(self, o):
        return isinstance(o, T) and (self.w, self.signed, self.is_bool) == (o.w, o.signed, o.is_bool)

    def __repr__(self):
        return "bool" if self.is_bool else ("i" if self.signed else "u") + str(self.w)


class PTR:
    """type of a pointer VALUE: a pointer into the array state variable `base`; the Lean value is a `Nat`, the offset
    counted in elements of the base array.  `elem` is the C type pointed to (the view), `scale` = how many base
    elements one `elem` spans (1 unless a byte array is viewed through a wider integer type)."""
    is_bool, signed, w = False, False, 64

    def __init__(self, base, elem, scale=1):
        self.base, self.elem, self.scale = base, elem, scale

    def lean(self):
        return "Nat"

    def __eq__(self, o):
        return isinstance(o, PTR) and (self.base, self.scale) == (o.base, o.scale) and self.elem == o.elem

    def __repr__(self):
        return f"ptr({self.base},{self.elem!r})"


class ARR:
    """type of an array STATE variable (the content of the memory a pointer parameter points to, of a global or local
    array): `List UInt8` for 8-bit elements, `List (BitVec w)` otherwise.  `dims`: the declared dimensions when they
    are static (global / local arrays; the list is flat), else None.  `kind`: param | global | const | local."""
    is_bool, signed = False, False

    def __init__(self, elem, dims=None, writable=False, kind="param"):
        self.elem, self.dims, self.writable, self.kind = elem, dims, writable, kind

    def lean(self):
        return "List UInt8" if self.elem.w == 8 else f"List (BitVec {self.elem.w})"

    def total(self):
        n = 1
        for d_ in self.dims:
            n *= d_
        return n

    def __eq__(self, o):
        return isinstance(o, ARR) and self.elem == o.elem and self.dims == o.dims

    def __repr__(self):
        return f"arr({self.elem!r},{self.dims})"


class FlagsT:
    """type of the shadow of an uninitialised local array: which elements have been written"""
    is_bool, signed = False, False

    def lean(self):
        return "List Bool"

    def __eq__(self, o):
        return isinstance(o, FlagsT)


FLAGS = FlagsT()
BOOL = T(1, False, True)


# ---- BEGIN cfunb: float / double as opaque words --------------------------------------------------------------------------
class FT:
    """`float` / `double` seen as an OPAQUE 32 / 64-bit word (its object representation): a value of this type may be
    loaded from an array, kept in a local, stored into an array - nothing else.  Arithmetic, comparison, conversion,
    scalar parameters and results of these types stay outside the subset (loud failure).  Assumption (stated in the part):
    a float load followed by a float store moves the bits unchanged (x86-64 SSE `movss`/`movsd`)."""
    is_bool, signed, opaque = False, False, True

    def __init__(self, w):
        self.w = w

    def lean(self):
        return f"BitVec {self.w}"

    def __eq__(self, o):
        return isinstance(o, FT) and o.w == self.w

    def __repr__(self):
        return f"f{self.w}"


FLOATS = {"float": FT(32), "double": FT(64)}
# ---- END cfunb -----------------------------------------------------------------------------------------------------------
BASE = {
    "_Bool": BOOL, "bool": BOOL,
    "char": T(8, True), "signed char": T(8, True), "unsigned char": T(8, False),
    "short": T(16, True), "unsigned short": T(16, False),
    "int": T(32, True), "unsigned int": T(32, False),
    "long": T(64, True), "unsigned long": T(64, False),
    "long long": T(64, True), "unsigned long long": T(64, False),
}
# what the table above assumes; checked against clang for every translation unit
HOST_ASSUMPTIONS = ["sizeof(char) == 1", "sizeof(short) == 2", "sizeof(int) == 4", "sizeof(long) == 8",
                    "sizeof(long long) == 8", "sizeof(_Bool) == 1", "((char)-1 < 0)", "((-1) >> 1) == -1",
                    "((int)4294967295u) == -1", "((-7) / 2) == -3", "((-7) % 2) == -1"]


def strip_quals(q):
    return " ".join(t for t in q.replace("*", " * ").split() if t not in ("const", "volatile", "restrict", "__restrict"))


def type_key(tj):
    return strip_quals(tj.get("desugaredQualType", tj["qualType"]))


KEYWORDS = set("""end at from in do then else if let have show fun match with open local instance prefix where by
deriving def theorem example namespace section variable universe import export macro syntax notation infix infixl
infixr postfix mutual structure class inductive extends for unless return try catch finally break continue mut
using calc suffices obtain fuel__ Type Prop Sort""".split())


def ident(s):
    return s + "_" if s in KEYWORDS else s


def sizeof_key(n):
    """the constant-query spelling of a `sizeof` node (type or expression operand)"""
    if "argType" in n:
        return "sizeof(" + n["argType"]["qualType"] + ")"
    inner = n["inner"][0]
    while inner.get("kind") == "ParenExpr":
        inner = inner["inner"][0]
    return "sizeof(" + strip_quals(inner["type"].get("desugaredQualType", inner["type"]["qualType"])) + ")"


# ------------------------------------------------------------------------------------------------ expressions

class E:
    """a translated expression: Lean term `v` of type `t`; `d` = conjuncts of its definedness; `b` = Lean Bool term
    when the (integer) value is known to be `ofBoolW _ b`; `lit` = its mathematical value when it is a literal"""
    def __init__(self, v, t, d=None, b=None, lit=None):
        self.v, self.t, self.d, self.b, self.lit = v, t, list(d or []), b, lit


def uniq(xs):
    out = []
    for x in xs:
        if x not in out:
            out.append(x)
    return out


def dand(ds):
    ds = uniq([d for d in ds if d != "true"])
    if not ds:
        return "true"
    if "false" in ds:
        return "false"
    return ds[0] if len(ds) == 1 else "(" + " && ".join(ds) + ")"


def lit_e(value, t, d=None):
    if t.is_bool:
        return E("true" if value else "false", t, d, lit=int(bool(value)))
    lo, hi = (-(1 << (t.w - 1)), (1 << (t.w - 1)) - 1) if t.signed else (0, (1 << t.w) - 1)
    if not (lo <= value <= hi):
        raise Untranslatable(f"literal {value} does not fit its type {t}")
    return E(f"{value % (1 << t.w)}#{t.w}", t, d, lit=value)


def ite(c, a, b):
    if a == b:
        return a
    return f"(if {c} then {a} else {b})"


class Fn:
    """translation of one function"""

    def __init__(self, cfg, ast, unit):
        self.cfg, self.ast, self.unit = cfg, ast, unit
        self.name = cfg["lean"]
        self.defs = []                 # emitted helper definitions (text)
        self.nv = 0
        self.nloop = 0
        self.paths = []                # [(path tuple, T)] in order of first appearance
        self.scope = []                # dynamic: parameters [(lean name, T)] of the definition being generated
        self.in_loop_body = False
        # stage 2
        self.pending = []              # ++/-- met inside the full expression being translated
        self.arrays = {}               # array name -> ARR (pointer parameters, global / local arrays, constant tables)
        self.cells = {}                # pointer parameter used only as `*p` -> pointee T
        self.gcells = {}               # scalar global -> T
        self.gconsts = {}              # constant scalar global -> (value, T)
        self.ptr_param_names = set()
        self.outs = []                 # env keys of the state that is part of the result, in order
        self.break_k = []              # stack: continuation of `break` of the enclosing loops
        self.njoin = 0
        self.nbind = 0
        self.tables = []               # emitted constant tables (text)

    # ---- types
    def ctype(self, tj):
        k = type_key(tj)
        if k in BASE:
            return BASE[k]
        if k in FLOATS:                            # cfunb: opaque words (see class FT)
            return FLOATS[k]
        if k.startswith("enum "):
            return self.unit.enum_type(k)
        if re.fullmatch(r"\w+", k):
            # a typedef clang does not desugar (typedef of an anonymous enum): ask clang for its size and signedness;
            # it is an integer type iff the three constant expressions compile
            try:
                return self.unit.typedef_type(self, k, soft=True)
            except Untranslatable:
                pass
        raise Untranslatable(f"type `{tj.get('qualType')}` (= `{k}`) is outside the supported scalar types")

    def struct_ptr(self, tj):
        """C spelling of the pointee if `tj` is a pointer to something that is not a scalar (a struct: it can only be
        used through `->`, which clang has type-checked), else None"""
        k = type_key(tj)
        if k.endswith(" *") and k.count("*") == 1:
            base = k[:-2].strip()
            if base not in BASE and not base.startswith("enum ") and base != "void":
                return strip_quals(tj["qualType"]).replace(" *", "").strip()
        return None

    # ---- struct access paths
    def path_of(self, n):
        """access path of an lvalue expression `p->a.b` (list of names), through parentheses"""
        k = n.get("kind")
        if k == "ParenExpr":
            return self.path_of(n["inner"][0])
        if k == "MemberExpr":
            base = n["inner"][0]
            if n.get("isArrow"):
                while base.get("kind") in ("ParenExpr",) or (base.get("kind") == "ImplicitCastExpr" and
                                                            base.get("castKind") in ("LValueToRValue", "NoOp")):
                    base = base["inner"][0]
                if base.get("kind") == "DeclRefExpr" and base["referencedDecl"].get("kind") == "ParmVarDecl" \
                        and base["referencedDecl"]["name"] in self.ptr_params:
                    return [base["referencedDecl"]["name"], n["name"]]
                raise Untranslatable("`->` is only supported on a pointer-to-struct parameter")
            return self.path_of(base) + [n["name"]]
        raise Untranslatable(f"unsupported lvalue {k} in a member access")

    def ptr_arg_path(self, n):
        """a call argument of pointer-to-struct type: `p` or `&p->a.b`"""
        while n.get("kind") == "ParenExpr" or (n.get("kind") in ("ImplicitCastExpr", "CStyleCastExpr") and
                                               n.get("castKind") in ("LValueToRValue", "NoOp")):
            n = n["inner"][0]
        if n.get("kind") == "DeclRefExpr" and n["referencedDecl"].get("kind") == "ParmVarDecl" and \
                n["referencedDecl"]["name"] in self.ptr_params:
            return [n["referencedDecl"]["name"]]
        if n.get("kind") == "UnaryOperator" and n.get("opcode") == "&":
            return self.path_of(n["inner"][0])
        raise Untranslatable("a struct pointer passed to a callee must be a pointer parameter or `&p->field`")

    def use_path(self, path, t):
        path = tuple(path)
        for p, pt in self.paths:
            if p == path:
                if not pt == t:
                    raise Untranslatable(f"access path {'.'.join(path)} used at two types")
                return ident("_".join(path))
        self.paths.append((path, t))
        return ident("_".join(path))

    def collect_paths(self, n):
        k = n.get("kind")
        if k == "MemberExpr":
            try:
                t = self.ctype(n["type"])
            except Untranslatable:
                t = None
            if t is not None:
                self.use_path(self.path_of(n), t)
                return
        if k == "CallExpr":
            try:
                callee = self.callee_of(n)
            except Untranslatable:
                callee = None
            if isinstance(callee, dict):
                args = n["inner"][1:]
                for (pname, pt, origin) in callee["lean_params"]:
                    if origin[0] == "path":
                        self.use_path(self.ptr_arg_path(args[origin[1]]) + list(origin[2]), pt)
                for i, a in enumerate(args):
                    if callee["cparams"][i]["struct"] is None:
                        self.collect_paths(a)
                return
        for c in n.get("inner", []):
            if isinstance(c, dict) and c:
                self.collect_paths(c)

    # ---- calls
    BUILTINS = {
        "__builtin_clz": ("Carquet.Impl.CSem.builtinClz", "Carquet.Impl.CSem.builtinNonZero"),
        "__builtin_clzl": ("Carquet.Impl.CSem.builtinClz", "Carquet.Impl.CSem.builtinNonZero"),
        "__builtin_clzll": ("Carquet.Impl.CSem.builtinClz", "Carquet.Impl.CSem.builtinNonZero"),
        "__builtin_ctz": ("Carquet.Impl.CSem.builtinCtz", "Carquet.Impl.CSem.builtinNonZero"),
        "__builtin_ctzl": ("Carquet.Impl.CSem.builtinCtz", "Carquet.Impl.CSem.builtinNonZero"),
        "__builtin_ctzll": ("Carquet.Impl.CSem.builtinCtz", "Carquet.Impl.CSem.builtinNonZero"),
        "__builtin_popcount": ("Carquet.Impl.CSem.builtinPopcount", None),
        "__builtin_popcountl": ("Carquet.Impl.CSem.builtinPopcount", None),
        "__builtin_popcountll": ("Carquet.Impl.CSem.builtinPopcount", None),
    }

    def callee_of(self, n):
        f = n["inner"][0]
        while f.get("kind") in ("ImplicitCastExpr", "ParenExpr"):
            f = f["inner"][0]
        if f.get("kind") != "DeclRefExpr" or f["referencedDecl"].get("kind") != "FunctionDecl":
            raise Untranslatable("call through something that is not a function name")
        name = f["referencedDecl"]["name"]
        if name in self.BUILTINS:
            return name
        cands = [r for r in self.unit.registry if r["cname"] == name]
        same = [r for r in cands if r["file"] == self.cfg["file"]]
        hdr = [r for r in cands if r["file"].endswith(".h")]
        ext = [r for r in cands if not r["static"]]
        pick = same or (hdr if len(hdr) == 1 else []) or (ext if len(ext) == 1 else [])
        if len(pick) != 1:
            raise Untranslatable(f"call to `{name}`, which is not (yet) a translated function "
                                 f"(list it in FUNCS before `{self.name}`)")
        return pick[0]

    # ---- expressions
    def no_float(self, *es):
        """cfunb: opaque floating-point words (class FT) take part in no operation"""
        for e in es:
            if isinstance(e.t, FT):
                raise Untranslatable("floating-point arithmetic / comparison / conversion (floats are only moved)")

    def cond(self, e):
        self.no_float(e)
        if e.t.is_bool:
            return e.v
        if e.b is not None:
            return e.b
        if e.lit is not None:
            return "true" if e.lit != 0 else "false"
        return f"({e.v} != 0#{e.t.w})"

    def from_bool(self, b, t, d):
        if t.is_bool:
            return E(b, t, d)
        v = f"(Carquet.Impl.CSem.ofBool {b})" if t.w == 32 else f"(Carquet.Impl.CSem.ofBoolW {t.w} {b})"
        return E(v, t, d, b=b)

    def cast(self, e, t):
        self.no_float(e)
        if isinstance(t, FT):
            raise Untranslatable("conversion to a floating-point type")
        if t.is_bool:
            return E(self.cond(e), t, e.d, lit=(None if e.lit is None else int(e.lit != 0)))
        if e.lit is not None:
            v = e.lit % (1 << t.w)
            if t.signed and v >= (1 << (t.w - 1)):
                v -= 1 << t.w
            return lit_e(v, t, e.d)
        if e.t.is_bool:
            return self.from_bool(e.v, t, e.d)
        if e.b is not None:
            return self.from_bool(e.b, t, e.d)
        if t.w == e.t.w:
            return E(e.v, t, e.d)
        if t.w < e.t.w or not e.t.signed:
            return E(f"(BitVec.setWidth {t.w} {e.v})", t, e.d)
        return E(f"(BitVec.signExtend {t.w} {e.v})", t, e.d)

    def expr(self, n, env):
        k = n.get("kind")
        if k in ("ParenExpr", "ConstantExpr"):
            return self.expr(n["inner"][0], env)
        nt = self.null_test(n)                         # cfunb: `!p`, `p == NULL`, `p != NULL`, `if (p)` on a pointer parameter
        if nt is not None:
            return self.from_bool("true" if nt else "false", self.ctype(n["type"]), [])
        if k == "IntegerLiteral":
            return lit_e(int(n["value"]), self.ctype(n["type"]))
        if k == "CharacterLiteral":
            return lit_e(int(n["value"]), self.ctype(n["type"]))
        if k in ("ImplicitCastExpr", "CStyleCastExpr"):
            ck = n.get("castKind")
            inner = n["inner"][0]
            if ck in ("LValueToRValue", "NoOp"):
                e = self.expr(inner, env)
                if not e.t == self.ctype(n["type"]):
                    raise Untranslatable(f"{ck} cast changes the type")
                return e
            if ck == "IntegralCast":
                return self.cast(self.expr(inner, env), self.ctype(n["type"]))
            if ck == "IntegralToBoolean":
                return self.cast(self.expr(inner, env), BOOL)
            raise Untranslatable(f"cast kind {ck} is outside the supported subset")
        if k == "ArraySubscriptExpr" or (k == "UnaryOperator" and n.get("opcode") == "*"):
            return self.read_loc(self.lvalue(n, env), env)
        if k == "UnaryOperator" and n.get("opcode") in ("++", "--"):
            return self.incdec(n, env)
        if k == "DeclRefExpr":
            rd = n["referencedDecl"]
            if rd.get("kind") == "EnumConstantDecl":
                return lit_e(self.unit.consts[rd["name"]], self.ctype(n["type"]))
            if rd.get("kind") in ("ParmVarDecl", "VarDecl"):
                nm = rd["name"]
                if nm in self.gconsts and nm not in env:
                    return lit_e(*self.gconsts[nm])
                if nm in self.gcells and nm not in env:
                    return self.read_loc(dict(kind="cell", key="*" + nm, t=self.gcells[nm]), env)
                if nm in env and env[nm] is not None and not isinstance(env[nm][1], (T, FT)):
                    raise Untranslatable(f"pointer `{nm}` used where an integer is expected (NULL test?)")
                if nm not in env:
                    raise Untranslatable(f"`{nm}` is not a scalar local or parameter (global or pointer?)")
                if env[nm] is None:
                    raise Untranslatable(f"local `{nm}` is read before it is assigned")
                v, t = env[nm]
                return E(v, t)
            raise Untranslatable(f"reference to a {rd.get('kind')}")
        if k == "MemberExpr":
            t = self.ctype(n["type"])
            return E(self.use_path(self.path_of(n), t), t)
        if k == "UnaryExprOrTypeTraitExpr":
            if n.get("name") != "sizeof":
                raise Untranslatable("only sizeof is supported")
            return lit_e(self.unit.consts[sizeof_key(n)], self.ctype(n["type"]))
        if k == "UnaryOperator":
            op = n["opcode"]
            t = self.ctype(n["type"])
            a = self.expr(n["inner"][0], env)
            self.no_float(a)
            if op == "+":
                return a
            if op == "-":
                if a.lit is not None and a.t == t:
                    try:
                        return lit_e(-a.lit, t, a.d)
                    except Untranslatable:
                        pass
                return E(f"(-{a.v})", t, a.d + ([f"(Carquet.Impl.CSem.sNegOk {a.v})"] if t.signed else []))
            if op == "~":
                return E(f"(~~~{a.v})", t, a.d)
            if op == "!":
                return self.from_bool(f"(!{self.cond(a)})", t, a.d)
            raise Untranslatable(f"unary operator `{op}` in an expression")
        if k == "BinaryOperator":
            return self.binop(n, env)
        if k == "ConditionalOperator":
            c = self.expr(n["inner"][0], env)
            np_ = len(self.pending)
            x, y = self.expr(n["inner"][1], env), self.expr(n["inner"][2], env)
            self.guard_no_pending(np_, "an arm of `?:`")
            t = self.ctype(n["type"])
            cb = self.cond(c)
            if not (x.t == t and y.t == t):
                raise Untranslatable("arms of ?: are not of the result type")
            d = list(c.d)
            if x.d or y.d:
                d.append(ite(cb, dand(x.d), dand(y.d)))
            if x.b is not None and y.b is not None and not t.is_bool:
                return self.from_bool(ite(cb, x.b, y.b), t, d)
            return E(ite(cb, x.v, y.v), t, d)
        if k == "CallExpr":
            return self.call(n, env)
        raise Untranslatable(f"expression kind {k} is outside the supported subset")

    def binop(self, n, env):
        op = n["opcode"]
        t = self.ctype(n["type"])
        l0, r0 = n["inner"]
        if l0 is not None and self.ptr_view(l0.get("type")) is not None and self.ptr_view(r0.get("type")) is not None:
            pa, pb = self.pexpr(l0, env), self.pexpr(r0, env)
            if pa.t.base != pb.t.base:
                raise Untranslatable("pointers into two different arrays are compared / subtracted")
            d = pa.d + pb.d
            if op in ("<", ">", "<=", ">=", "==", "!="):
                x, y = (pa.v, pb.v) if op in ("<", "<=", "==", "!=") else (pb.v, pa.v)
                r = f"({x} {op} {y})" if op in ("==", "!=") else \
                    f"(decide ({x} {'<' if op in ('<', '>') else '≤'} {y}))"
                return self.from_bool(r, t, d)
            if op == "-" and pa.t.scale == 1 and pb.t.scale == 1 and t.w == 64:
                return E(f"(BitVec.ofInt 64 (Int.ofNat {pa.v} - Int.ofNat {pb.v}))", t, d)
            raise Untranslatable(f"`{op}` on two pointers")
        a = self.expr(n["inner"][0], env)
        self.no_float(a)
        if op in ("&&", "||"):
            np_ = len(self.pending)
            b = self.expr(n["inner"][1], env)
            self.guard_no_pending(np_, f"the right operand of `{op}`")
            ca, cb = self.cond(a), self.cond(b)
            d = list(a.d)
            if b.d:
                d.append(f"({'!' if op == '&&' else ''}{ca} || {dand(b.d)})")
            return self.from_bool(f"({ca} {op} {cb})", t, d)
        b = self.expr(n["inner"][1], env)
        self.no_float(b)
        if a.t.is_bool or b.t.is_bool:
            raise Untranslatable(f"`{op}` on an unpromoted _Bool")
        d = a.d + b.d
        if op in ("<<", ">>"):
            if not a.t == t:
                raise Untranslatable("shift result type differs from its left operand")
            if b.lit is not None:
                cnt = str(b.lit)
                if not (0 <= b.lit < t.w):
                    d.append("false")
                    cnt = str(b.lit % (1 << b.t.w))
            else:
                cnt = f"{b.v}.toNat"
                d.append(f"(Carquet.Impl.CSem.shCountOk {'true' if b.t.signed else 'false'} {t.w} {b.v})")
            if op == "<<":
                if t.signed:
                    d.append(f"(Carquet.Impl.CSem.sShlOk {a.v} {cnt})")
                return E(f"({a.v} <<< {cnt})", t, d)
            if t.signed:
                return E(f"(BitVec.sshiftRight {a.v} {cnt})", t, d)
            return E(f"({a.v} >>> {cnt})", t, d)
        if not a.t == b.t:
            raise Untranslatable(f"operands of `{op}` have different types {a.t} and {b.t} (missing conversion in the AST?)")
        s = a.t.signed
        if op in ("<", ">", "<=", ">=", "==", "!="):
            x, y = (a.v, b.v) if op in ("<", "<=", "==", "!=") else (b.v, a.v)
            if op in ("==", "!="):
                r = f"({x} {op} {y})"
            elif op in ("<", ">"):
                r = f"(BitVec.slt {x} {y})" if s else f"(decide ({x} < {y}))"
            else:
                r = f"(BitVec.sle {x} {y})" if s else f"(decide ({x} ≤ {y}))"
            return self.from_bool(r, t, d)
        if not a.t == t:
            raise Untranslatable(f"result type of `{op}` differs from its operands")
        if op in ("+", "-", "*"):
            if s:
                d.append(f"(Carquet.Impl.CSem.{ {'+': 'sAddOk', '-': 'sSubOk', '*': 'sMulOk'}[op]} {a.v} {b.v})")
            return E(f"({a.v} {op} {b.v})", t, d)
        if op in ("/", "%"):
            if s:
                if b.lit is None or b.lit in (0, -1):      # a literal divisor other than 0, -1 is always fine
                    d.append(f"(Carquet.Impl.CSem.sDivOk {a.v} {b.v})")
                return E(f"(BitVec.{'sdiv' if op == '/' else 'srem'} {a.v} {b.v})", t, d)
            if b.lit is None or b.lit == 0:
                d.append(f"(Carquet.Impl.CSem.uDivOk {b.v})")
            return E(f"({a.v} {op} {b.v})", t, d)
        if op in ("&", "|", "^"):
            return E(f"({a.v} { {'&': '&&&', '|': '|||', '^': '^^^'}[op]} {b.v})", t, d)
        raise Untranslatable(f"binary operator `{op}` in an expression")

    def call_parts(self, n, env):
        """a call to a translated function: dict(app, d, callee, t, dests)"""
        callee = self.callee_of(n)
        args = n["inner"][1:]
        if isinstance(callee, str):
            raise Untranslatable("builtin in statement position")
        if len(args) != len(callee["cparams"]):
            raise Untranslatable(f"call to {callee['cname']}: wrong number of arguments")
        d, actual, dests = [], [], {}
        scalar = {}
        for i, a in enumerate(args):
            cp = callee["cparams"][i]
            kind = cp.get("kind", "struct" if cp["struct"] is not None else "scalar")
            if kind == "end":
                raise Untranslatable(f"call to {callee['cname']}, which takes a (p, end) pointer pair")
            if kind == "scalar":
                e = self.expr(a, env)
                if not e.t == cp["t"]:
                    raise Untranslatable(f"call to {callee['cname']}: argument {i} has type {e.t}")
                scalar[i] = e
                d += e.d
            elif kind == "array":
                pe = self.pexpr(a, env)
                A = self.arrays[pe.t.base]
                if pe.t.scale != 1 or A.elem.w != cp["elem"].w:
                    raise Untranslatable(f"call to {callee['cname']}: argument {i} views `{pe.t.base}` through another type")
                if cp["writable"] and not A.writable:
                    raise Untranslatable(f"call to {callee['cname']}: read-only array `{pe.t.base}` passed for writing")
                if "?" + pe.t.base in env:
                    raise Untranslatable(f"call to {callee['cname']}: an uninitialised local array is passed")
                d += pe.d
                a0 = self.arr_term(pe.t.base, env)
                scalar[i] = E(a0 if pe.v == "0" else f"(List.drop {pe.v} {a0})", A)
                dests[("array", i)] = ("arr", pe.t.base, pe.v)
            elif kind == "cell":
                x = a
                while x.get("kind") == "ParenExpr" or (x.get("kind") == "ImplicitCastExpr" and
                                                       x.get("castKind") in ("LValueToRValue", "NoOp")):
                    x = x["inner"][0]
                if x.get("kind") == "DeclRefExpr" and x["referencedDecl"].get("name") in self.cells:
                    key = "*" + x["referencedDecl"]["name"]
                elif x.get("kind") == "UnaryOperator" and x.get("opcode") == "&" and \
                        x["inner"][0].get("kind") == "DeclRefExpr" and x["inner"][0]["referencedDecl"].get("name") in env:
                    key = x["inner"][0]["referencedDecl"]["name"]
                else:
                    raise Untranslatable(f"call to {callee['cname']}: argument {i} must be `&local` or an out-parameter")
                if env.get(key) is None or not env[key][1] == cp["elem"]:
                    raise Untranslatable(f"call to {callee['cname']}: `{key}` is unassigned or of another type")
                scalar[i] = E(env[key][0], env[key][1])
                dests[("cell", i)] = ("var", key)
        for (pname, pt, origin) in callee["lean_params"]:
            if origin[0] in ("scalar", "array", "cell"):
                actual.append(scalar[origin[1]].v)
            elif origin[0] == "path":
                actual.append(self.use_path(self.ptr_arg_path(args[origin[1]]) + list(origin[2]), pt))
            else:                                             # a global the callee reads / writes
                key = ("@" if origin[0] == "garray" else "*") + origin[1]
                if env.get(key) is None:
                    raise Untranslatable(f"call to {callee['cname']}: global `{origin[1]}` is not part of this function's state")
                actual.append(env[key][0])
                dests[(origin[0], origin[1])] = ("var", key)
        app = " ".join(actual)
        d.append(f"({callee['lean']}_defined {app})" if actual else f"{callee['lean']}_defined")
        outs = [dests[o["origin"]] for o in callee.get("outs", [])]
        return dict(app=f"({callee['lean']} {app})" if actual else callee["lean"], d=d, callee=callee, dests=outs)

    def call(self, n, env):
        callee = self.callee_of(n)
        args = n["inner"][1:]
        if isinstance(callee, str):
            t = self.ctype(n["type"])
            vf, df = self.BUILTINS[callee]
            if len(args) != 1:
                raise Untranslatable(f"{callee} with {len(args)} arguments")
            a = self.expr(args[0], env)
            if not t == BASE["int"]:
                raise Untranslatable(f"{callee} not returning int")
            return E(f"({vf} {a.v})", t, a.d + ([f"({df} {a.v})"] if df else []))
        if callee.get("outs"):
            raise Untranslatable(f"call to {callee['cname']}, which writes through its arguments, inside an expression "
                                 f"(supported: `f(..);`, `x = f(..);`, `T x = f(..);`, `return f(..);`)")
        t = self.ctype(n["type"])
        if callee["ret"] is None or not t == callee["ret"]:
            raise Untranslatable(f"call to {callee['cname']}: result type mismatch")
        parts = self.call_parts(n, env)
        return E(parts["app"], t, parts["d"])

    def out_call(self, n):
        """`n` (through parentheses) is a call to a translated function that has out-results: the CallExpr, else None"""
        while n is not None and n.get("kind") == "ParenExpr":
            n = n["inner"][0]
        if n is None or n.get("kind") != "CallExpr":
            return None
        try:
            c = self.callee_of(n)
        except Untranslatable:
            return None
        return n if isinstance(c, dict) and c.get("outs") else None

    def contains_outcall(self, n):
        if n.get("kind") == "CallExpr" and self.out_call(n) is not None:
            return True
        return any(self.contains_outcall(c) for c in n.get("inner", []) if isinstance(c, dict))

    def bind_call(self, n, env, k, target=None, target_t=None):
        """statement-level call of a function with out-results: `match f args with | (r, o1, ..) => continuation`;
        `target`: env key that receives the returned value (None: dropped); k : env -> (V, D)"""
        parts = self.call_parts(n, env)
        callee = parts["callee"]
        self.nbind += 1
        names, env2 = [], dict(env)
        saved_scope = self.scope
        add = []
        if callee["ret"] is not None:
            rn = f"r__{self.nbind}"
            names.append(rn)
            add.append((rn, callee["ret"]))
            if target is not None:
                if not callee["ret"] == target_t:
                    raise Untranslatable(f"result of {callee['cname']} stored into a variable of another type")
                env2[target] = (rn, callee["ret"])
        elif target is not None:
            raise Untranslatable(f"{callee['cname']} returns nothing")
        for o, dest in zip(callee["outs"], parts["dests"]):
            cn = f"{ident(o['name'])}__{self.nbind}"
            names.append(cn)
            add.append((cn, o["t"]))
            if dest[0] == "var":
                if dest[1] in self.outs or dest[1][0] not in "@*":
                    env2[dest[1]] = (cn, o["t"])
                else:
                    raise Untranslatable(f"call to {callee['cname']} writes `{dest[1]}`, which was not found to be written")
            else:
                _, base, off = dest
                a0 = self.arr_term(base, env)
                env2["@" + base] = (cn if off == "0" else f"({self.CS}splice {a0} {off} {cn})", self.arrays[base])
        self.scope = saved_scope + add
        try:
            V, D = k(env2)
        finally:
            self.scope = saved_scope
        pat = names[0] if len(names) == 1 else "(" + ", ".join(names) + ")"
        Vm = f"(match {parts['app']} with\n    | {pat} => {V})"
        Dm = dand(parts["d"] + ([] if D == "true" else [f"(match {parts['app']} with\n    | {pat} => {D})"]))
        return Vm, Dm

    # ================================================================================================ stage 2
    # ---- pointers, arrays, cells
    CS = "Carquet.Impl.CSem."

    def ptr_view(self, tj):
        """if `tj` is a pointer to an integer type or to void: the pointee type (`T`, or the string "void"); else None"""
        if not tj:
            return None
        k = type_key(tj)
        if not k.endswith("*") or k.count("*") != 1 or "(" in k:
            return None
        base = k[:-1].strip()
        if base == "void":
            return "void"
        try:
            t = self.ctype(dict(qualType=base))
        except Untranslatable:
            return None
        return None if t.is_bool else t

    def arr_type_of(self, tj):
        """(element T, [dims]) if `tj` is an array type of integers with constant dimensions, else None"""
        k = type_key(tj)
        m = re.fullmatch(r"(.*?)((?:\s*\[\d+\])+)", k)
        if not m:
            return None
        try:
            t = self.ctype(dict(qualType=m.group(1).strip()))
        except Untranslatable:
            return None
        if t.is_bool:
            return None
        return t, [int(x) for x in re.findall(r"\[(\d+)\]", m.group(2))]

    def lname(self, key):
        """Lean name of the formal parameter that carries state variable `key`"""
        if key[0] in "@*?":
            return ident(key[1:]) + ("_init" if key[0] == "?" else "")
        if key in self.ptr_param_names:
            return ident(key + "_off")
        return ident(key)

    @staticmethod
    def nat_add(a, b):
        """a + b on Lean `Nat` terms, folding literals (`(p + 8) + 8` becomes `(p + 16)`)"""
        if a == "0":
            return b
        if b == "0":
            return a
        if a.isdigit() and b.isdigit():
            return str(int(a) + int(b))
        if a.isdigit():
            a, b = b, a
        m = re.fullmatch(r"\((.+) \+ (\d+)\)", a)
        if m and b.isdigit() and m.group(1).count("(") == m.group(1).count(")"):
            return f"({m.group(1)} + {int(m.group(2)) + int(b)})"
        return f"({a} + {b})"

    def padd(self, off, idx, scale, sign=1):
        """pointer/offset arithmetic: `off ± idx * scale` as a Nat term, and the conjuncts saying that the result is
        not before the start of the array (being beyond its end is only an issue when it is dereferenced)"""
        if idx.lit is not None:
            v = sign * idx.lit * scale
            if v >= 0:
                return self.nat_add(off, str(v)), []
            if off.isdigit():
                return str(max(0, int(off) + v)), ([] if int(off) + v >= 0 else ["false"])
            return f"({off} - {-v})", [f"(decide ({-v} ≤ {off}))"]
        sc = "" if scale == 1 else f" * {scale}"
        if not idx.t.signed:
            term = f"{idx.v}.toNat" if scale == 1 else f"({idx.v}.toNat{sc})"
            if sign > 0:
                return self.nat_add(off, term), []
            return f"({off} - {term})", [f"(decide ({term} ≤ {off}))"]
        it = f"{idx.v}.toInt" if sign > 0 else f"(-{idx.v}.toInt)"
        if scale != 1:
            it = f"({it}{sc})"
        if off == "0" and sign > 0:
            return (f"{idx.v}.toInt.toNat" if scale == 1 else f"({idx.v}.toInt.toNat{sc})"), [f"(!{idx.v}.msb)"]
        return f"({self.CS}padd {off} {it})", [f"({self.CS}paddOk {off} {it})"]

    def review(self, e, view):
        """pointer `e` converted to a pointer to `view`"""
        if view == "void" or view == e.t.elem:
            return e
        be = self.arrays[e.t.base].elem
        if view.w == be.w:
            return E(e.v, PTR(e.t.base, view, 1), e.d)
        if be.w == 8 and view.w in (16, 32, 64):
            return E(e.v, PTR(e.t.base, view, view.w // 8), e.d)
        raise Untranslatable(f"an array of {be!r} elements accessed through a pointer to {view!r}")

    def pexpr(self, n, env):
        """a pointer-valued expression: E whose value is the offset (Nat term) and whose type is a PTR"""
        k = n.get("kind")
        if k == "ParenExpr":
            return self.pexpr(n["inner"][0], env)
        if k in ("ImplicitCastExpr", "CStyleCastExpr"):
            ck, inner = n.get("castKind"), n["inner"][0]
            if ck == "ArrayToPointerDecay":
                base, off, dims, elem, d = self.arrloc(inner, env)
                if len(dims) != 1:
                    raise Untranslatable("a row of a multi-dimensional array used as a pointer")
                return E(off, PTR(base, elem, 1), d)
            if ck in ("LValueToRValue", "NoOp", "BitCast"):
                view = self.ptr_view(n["type"])
                if view is None:
                    raise Untranslatable(f"pointer cast to `{n['type'].get('qualType')}`")
                return self.review(self.pexpr(inner, env), view)
            raise Untranslatable(f"pointer cast kind {ck}")
        if k == "DeclRefExpr":
            nm = n["referencedDecl"].get("name")
            if nm in self.cells:
                raise Untranslatable(f"out-parameter `{nm}` used otherwise than as `*{nm}`")
            if nm not in env or env[nm] is None or not isinstance(env[nm][1], PTR):
                raise Untranslatable(f"`{nm}` is not a (assigned) pointer variable")
            return E(env[nm][0], env[nm][1])
        if k == "BinaryOperator" and n["opcode"] in ("+", "-"):
            l, r = n["inner"]
            if self.ptr_view(l.get("type")) is not None:
                pe, ie, sign = self.pexpr(l, env), self.expr(r, env), (1 if n["opcode"] == "+" else -1)
            elif n["opcode"] == "+":
                pe, ie, sign = self.pexpr(r, env), self.expr(l, env), 1
            else:
                raise Untranslatable("integer - pointer")
            if ie.t.is_bool:
                raise Untranslatable("pointer + _Bool")
            off, d = self.padd(pe.v, ie, pe.t.scale, sign)
            return E(off, pe.t, pe.d + ie.d + d)
        if k == "UnaryOperator" and n["opcode"] in ("++", "--"):
            return self.incdec(n, env)
        raise Untranslatable(f"pointer expression of kind {k}")

    def incdec(self, n, env):
        """`x++ x-- ++x --x` inside an expression (x a scalar or pointer local): the update is applied to the
        environment at the end of the full expression; `x` must not occur elsewhere in it (checked by the caller)"""
        tgt = n["inner"][0]
        while tgt.get("kind") == "ParenExpr":
            tgt = tgt["inner"][0]
        if tgt.get("kind") != "DeclRefExpr" or tgt["referencedDecl"].get("kind") not in ("ParmVarDecl", "VarDecl"):
            raise Untranslatable("++/-- inside an expression on something that is not a local variable")
        nm = tgt["referencedDecl"]["name"]
        if nm not in env or env[nm] is None:
            raise Untranslatable(f"++/-- on `{nm}`, which is not an assigned local")
        if any(q[0] == nm for q in self.pending):
            raise Untranslatable(f"`{nm}` is modified twice in one expression")
        v, t = env[nm]
        up = n["opcode"] == "++"
        d = []
        if isinstance(t, PTR):
            one = E(str(1), BASE["int"], lit=1)
            new, d = self.padd(v, one, t.scale, 1 if up else -1)
        else:
            if t.is_bool or isinstance(t, FT):
                raise Untranslatable("++/-- on _Bool / floating point")
            if t.signed and t.w >= 32:
                d.append(f"({self.CS}{'sAddOk' if up else 'sSubOk'} {v} 1#{t.w})")
            new = f"({v} {'+' if up else '-'} 1#{t.w})"
        self.pending.append((nm, new, t))
        return E(v if n.get("isPostfix") else new, t, d)

    def count_refs(self, n, name):
        c = 0
        if n.get("kind") == "DeclRefExpr" and n.get("referencedDecl", {}).get("name") == name:
            c += 1
        for ch in n.get("inner", []):
            if isinstance(ch, dict):
                c += self.count_refs(ch, name)
        return c

    def begin_full(self):
        self.pending = []

    def end_full(self, node, env):
        """apply the pending ++/-- of the full expression `node` to the environment"""
        if not self.pending:
            return env
        env = dict(env)
        for nm, new, t in self.pending:
            if self.count_refs(node, nm) != 1:
                raise Untranslatable(f"`{nm}` is modified by ++/-- and used again in the same expression (unsequenced)")
            env[nm] = (self.spill(new, t) if not isinstance(t, PTR) else new, t)
        self.pending = []
        return env

    def guard_no_pending(self, before, what):
        if len(self.pending) != before:
            raise Untranslatable(f"++/-- inside {what}")

    def arrloc(self, a, env):
        """an lvalue of array type: (base key, offset term, remaining dims, element type, definedness)"""
        k = a.get("kind")
        if k == "ParenExpr":
            return self.arrloc(a["inner"][0], env)
        if k == "DeclRefExpr":
            nm = a["referencedDecl"].get("name")
            if nm not in self.arrays or self.arrays[nm].dims is None:
                raise Untranslatable(f"`{nm}` is not a known array")
            A = self.arrays[nm]
            return nm, "0", list(A.dims), A.elem, []
        if k == "ArraySubscriptExpr":
            b0, ix = a["inner"]
            if b0.get("kind") == "ImplicitCastExpr" and b0.get("castKind") == "ArrayToPointerDecay":
                base, off, dims, elem, d = self.arrloc(b0["inner"][0], env)
                ie = self.expr(ix, env)
                stride = 1
                for x in dims[1:]:
                    stride *= x
                off2, d2 = self.padd(off, ie, stride)
                return base, off2, dims[1:], elem, d + ie.d + d2 + self.static_bound(ie, dims[0])
        raise Untranslatable(f"array lvalue of kind {k}")

    def static_bound(self, ie, n):
        """index `ie` (an integer E) is below the declared dimension `n`"""
        if ie.lit is not None:
            return [] if 0 <= ie.lit < n else ["false"]
        if ie.t.signed:
            return [f"(decide ({ie.v}.toInt < {n}))"]
        return [f"(decide ({ie.v}.toNat < {n}))"]

    def lvalue(self, n, env):
        """a memory location: dict(kind='mem', base, off, t, d, static) or dict(kind='cell', key, t)"""
        k = n.get("kind")
        if k == "ParenExpr":
            return self.lvalue(n["inner"][0], env)
        if k == "UnaryOperator" and n.get("opcode") == "*":
            inner = n["inner"][0]
            x = inner
            while x.get("kind") in ("ParenExpr",) or (x.get("kind") == "ImplicitCastExpr" and x.get("castKind") == "LValueToRValue"):
                x = x["inner"][0]
            if x.get("kind") == "DeclRefExpr" and x["referencedDecl"].get("name") in self.cells:
                nm = x["referencedDecl"]["name"]
                return dict(kind="cell", key="*" + nm, t=self.cells[nm])
            pe = self.pexpr(inner, env)
            return dict(kind="mem", base=pe.t.base, off=pe.v, t=pe.t.elem, scale=pe.t.scale, d=pe.d, static=False, cast=True)
        if k == "ArraySubscriptExpr":
            b0, ix = n["inner"]
            if b0.get("kind") == "ImplicitCastExpr" and b0.get("castKind") == "ArrayToPointerDecay":
                base, off, dims, elem, d = self.arrloc(n, env)
                if dims:
                    raise Untranslatable("an array row used as a value")
                return dict(kind="mem", base=base, off=off, t=elem, scale=1, d=d, static=True, cast=False)
            if self.ptr_view(b0.get("type")) is None:
                b0, ix = ix, b0                      # the `i[p]` spelling
            pe = self.pexpr(b0, env)
            ie = self.expr(ix, env)
            if ie.t.is_bool:
                raise Untranslatable("_Bool subscript")
            off, d = self.padd(pe.v, ie, pe.t.scale)
            return dict(kind="mem", base=pe.t.base, off=off, t=pe.t.elem, scale=pe.t.scale, d=pe.d + ie.d + d,
                        static=False, cast=True)
        if k == "DeclRefExpr" and n["referencedDecl"].get("name") in self.gcells:
            nm = n["referencedDecl"]["name"]
            return dict(kind="cell", key="*" + nm, t=self.gcells[nm])
        raise Untranslatable(f"lvalue of kind {k}")

    def arr_term(self, base, env):
        ent = env.get("@" + base)
        if ent is None:
            raise Untranslatable(f"array `{base}` is not in scope")
        return ent[0]

    def in_bounds(self, loc, env, nelem, check_align):
        """conjuncts: `nelem` base elements from loc.off lie inside the array (+ alignment of a typed wide access)"""
        A = self.arrays[loc["base"]]
        d = []
        if not (loc["static"] and nelem == 1):
            if A.dims is not None:
                d.append(f"(decide ({self.nat_add(loc['off'], str(nelem))} ≤ {A.total()}))")
            else:
                d.append(f"({self.CS}inb {self.arr_term(loc['base'], env)} {loc['off']} {nelem})")
        if check_align and nelem > 1:
            d.append(f"({loc['off']} % {nelem} == 0)")
        init = env.get("?" + loc["base"])
        return d, init

    def read_loc(self, loc, env):
        if loc["kind"] == "cell":
            ent = env.get(loc["key"])
            if ent is None:
                raise Untranslatable(f"`{loc['key']}` read before it is assigned")
            return E(ent[0], ent[1])
        A = self.arrays[loc["base"]]
        a, off, t = self.arr_term(loc["base"], env), loc["off"], loc["t"]
        d, init = self.in_bounds(loc, env, loc["scale"], loc["scale"] > 1)
        if init is not None:
            d.append(f"({init[0]}.getD {off} false)")
        if loc["scale"] == 1:
            v = f"({self.CS}rd8 {a} {off})" if A.elem.w == 8 else f"({self.CS}rd {a} {off})"
        else:
            v = f"({self.CS}ld{t.w}le {a} {off})"
        return E(v, t, loc["d"] + d)

    def write_loc(self, loc, e, env):
        """store the value `e` (already of the location's type): (env', conjuncts)"""
        if not e.t == loc["t"]:
            raise Untranslatable(f"value of type {e.t!r} stored into a location of type {loc['t']!r}")
        env = dict(env)
        if loc["kind"] == "cell":
            env[loc["key"]] = (self.spill(e.v, e.t), e.t)
            if loc["key"] not in self.outs:
                raise Untranslatable(f"internal: store to `{loc['key']}`, which was not found to be written")
            return env, list(e.d)
        A = self.arrays[loc["base"]]
        if not A.writable:
            raise Untranslatable(f"store into the read-only array `{loc['base']}`")
        if loc["scale"] != 1:
            raise Untranslatable("store through a pointer that views bytes as a wider type")
        key = "@" + loc["base"]
        a = self.arr_term(loc["base"], env)
        d, init = self.in_bounds(loc, env, 1, False)
        f = "wr8" if A.elem.w == 8 else "wr"
        env[key] = (self.spill_arr(f"({self.CS}{f} {a} {loc['off']} {e.v})", A), A)
        if init is not None:
            env["?" + loc["base"]] = (f"({init[0]}.set {loc['off']} true)", init[1])
        return env, loc["d"] + list(e.d) + d

    def spill_arr(self, v, A):
        return v

    def memset_stmt(self, n, env):
        """`memset(p, 0, n)` with constant `n`, a multiple of the element size"""
        args = n["inner"][1:]
        if len(args) != 3:
            raise Untranslatable("memset with other than three arguments")
        pe = self.pexpr(args[0], env)
        val, size = self.expr(args[1], env), self.const_size(args[2], env)
        A = self.arrays[pe.t.base]
        eb = A.elem.w // 8
        if not A.writable or pe.t.scale != 1:
            raise Untranslatable("memset of a read-only array / through a widening view")
        if size is None and eb == 1:
            # cfunb: `memset(p, v, n)` on a byte array with a run-time `size_t n`
            ne = self.expr(args[2], env)
            if ne.t.is_bool or ne.t.signed or ne.t.w != 64 or val.lit is None or not (0 <= val.lit < 256):
                raise Untranslatable("memset whose size is not a size_t / whose value is not a byte literal")
            if "?" + pe.t.base in env:
                raise Untranslatable("run-time memset of an uninitialised local array")
            cnt = f"{ne.v}.toNat"
            a = self.arr_term(pe.t.base, env)
            env = dict(env)
            env["@" + pe.t.base] = (f"({self.CS}fill {a} {pe.v} {cnt} {val.lit})", A)
            return env, pe.d + ne.d + [f"({self.CS}inb {a} {pe.v} {cnt})"]
        if size is None or size % eb != 0:
            raise Untranslatable("memset whose size is not a constant multiple of the element size")
        if val.lit is None or (val.lit != 0 and eb != 1) or not (0 <= val.lit < 256):
            raise Untranslatable("memset with a value other than a byte literal (0 for wider elements)")
        cnt = size // eb
        a = self.arr_term(pe.t.base, env)
        loc = dict(kind="mem", base=pe.t.base, off=pe.v, t=A.elem, scale=1, d=pe.d, static=False, cast=False)
        d, init = self.in_bounds(loc, env, cnt, False)
        env = dict(env)
        env["@" + pe.t.base] = (f"({self.CS}fill {a} {pe.v} {cnt} {val.lit if eb == 1 else f'{val.lit}#{A.elem.w}'})", A)
        if init is not None:
            env["?" + pe.t.base] = (f"({self.CS}fill {init[0]} {pe.v} {cnt} true)", init[1])
        return env, pe.d + d

    def memcpy_stmt(self, n, env):
        """`memcpy(&local, p, sizeof local)`: little-endian load of a scalar local from an array"""
        args = n["inner"][1:]
        if len(args) != 3:
            raise Untranslatable("memcpy with other than three arguments")
        if not self.is_addr_of(args[0]):
            return self.memcpy_arrays(args, env)                  # cfunb: array-to-array copy
        dst = args[0]
        while dst.get("kind") in ("ParenExpr", "ImplicitCastExpr", "CStyleCastExpr"):
            if dst.get("kind") != "ParenExpr" and dst.get("castKind") not in ("BitCast", "NoOp"):
                raise Untranslatable("memcpy destination")
            dst = dst["inner"][0]
        if dst.get("kind") != "UnaryOperator" or dst.get("opcode") != "&":
            raise Untranslatable("memcpy whose destination is not `&local`")
        tgt = dst["inner"][0]
        while tgt.get("kind") == "ParenExpr":
            tgt = tgt["inner"][0]
        if tgt.get("kind") != "DeclRefExpr" or tgt["referencedDecl"].get("name") not in env:
            raise Untranslatable("memcpy whose destination is not the address of a scalar local")
        nm = tgt["referencedDecl"]["name"]
        t = self.local_types.get(nm) or (env[nm][1] if env[nm] else None)
        if not isinstance(t, T) or t.is_bool:
            raise Untranslatable(f"memcpy into `{nm}`, which is not an integer local")
        size = self.const_size(args[2], env)
        if size is None or size * 8 != t.w:
            raise Untranslatable(f"memcpy into `{nm}` whose size is not the constant sizeof({nm})")
        src = args[1]
        pe = self.pexpr(src, env)
        be = self.arrays[pe.t.base].elem
        if be.w != 8:
            raise Untranslatable("memcpy from an array that is not a byte array")
        loc = dict(kind="mem", base=pe.t.base, off=pe.v, t=t, scale=t.w // 8, d=pe.d, static=False, cast=False)
        a = self.arr_term(pe.t.base, env)
        d, init = self.in_bounds(loc, env, t.w // 8, False)
        if init is not None:
            raise Untranslatable("memcpy from a local array")
        v = f"({self.CS}rd8 {a} {pe.v})" if t.w == 8 else f"({self.CS}ld{t.w}le {a} {pe.v})"
        env = self.bind(env, nm, E(v, t), t)
        return env, pe.d + d

    # ---- BEGIN cfunb: NULL tests of pointer parameters ----------------------------------------------------------------------
    def is_ptr_param(self, n):
        """`n` (through parentheses and lvalue-to-rvalue conversion) names a pointer PARAMETER of this function"""
        while n.get("kind") == "ParenExpr" or (n.get("kind") == "ImplicitCastExpr" and
                                               n.get("castKind") in ("LValueToRValue", "NoOp", "BitCast")):
            n = n["inner"][0]
        if n.get("kind") != "DeclRefExpr" or n.get("referencedDecl", {}).get("kind") != "ParmVarDecl":
            return False
        nm = n["referencedDecl"]["name"]
        return nm in self.ptr_param_names or nm in self.cells or nm in self.ptr_params or \
            any(p_ and p_.get("name") == nm and p_.get("kind") == "end" for p_ in self.cparams)

    @staticmethod
    def is_null_const(n):
        while n.get("kind") in ("ParenExpr", "CStyleCastExpr") or (n.get("kind") == "ImplicitCastExpr" and
                                                                    n.get("castKind") in ("BitCast", "NoOp")):
            if n.get("castKind") == "NullToPointer":
                return True
            n = n["inner"][0]
        return n.get("kind") == "ImplicitCastExpr" and n.get("castKind") == "NullToPointer"

    def null_test(self, n):
        """The truth value of a NULL test of a pointer parameter, else None.  An array / out-parameter / struct parameter of
        a translated function is an object the caller provides (stated assumption of the part: non-NULL), so `!p` and
        `p == NULL` are false, `p != NULL` and `if (p)` true."""
        k = n.get("kind")
        if k == "UnaryOperator" and n.get("opcode") == "!" and self.is_ptr_param(n["inner"][0]) and \
                (self.ptr_view(n["inner"][0].get("type")) is not None or self.struct_ptr(n["inner"][0].get("type"))):
            return False
        if k == "ImplicitCastExpr" and n.get("castKind") == "PointerToBoolean" and self.is_ptr_param(n["inner"][0]):
            return True
        if k == "BinaryOperator" and n.get("opcode") in ("==", "!="):
            l, r = n["inner"]
            if (self.is_null_const(r) and self.is_ptr_param(l)) or (self.is_null_const(l) and self.is_ptr_param(r)):
                return n["opcode"] == "!="
        return None
    # ---- END cfunb ----------------------------------------------------------------------------------------------------------

    # ---- BEGIN cfunb: memcpy between arrays ---------------------------------------------------------------------------------
    def is_addr_of(self, n):
        """`n` (through parentheses and pointer casts) is `&something`"""
        while n.get("kind") in ("ParenExpr", "ImplicitCastExpr", "CStyleCastExpr"):
            n = n["inner"][0]
        return n.get("kind") == "UnaryOperator" and n.get("opcode") == "&"

    def memcpy_arrays(self, args, env):
        """`memcpy(q, p, n)` where `q` points into a writable byte array and `p` into a byte array (the same one or
        another), `n` a constant or a run-time `size_t`: `CSem.blit`.  Defined iff both ranges lie inside their arrays and,
        when source and destination are the same array, do not overlap (C11 7.24.2.1p2)."""
        pd, ps = self.pexpr(args[0], env), self.pexpr(args[1], env)
        Ad, As = self.arrays[pd.t.base], self.arrays[ps.t.base]
        if Ad.elem.w != 8 or As.elem.w != 8:
            raise Untranslatable("memcpy between arrays that are not byte arrays")
        if not Ad.writable:
            raise Untranslatable(f"memcpy into the read-only array `{pd.t.base}`")
        if "?" + pd.t.base in env or "?" + ps.t.base in env:
            raise Untranslatable("memcpy from / into an uninitialised local array")
        ne = self.expr(args[2], env)
        if ne.t.is_bool or ne.t.signed or ne.t.w != 64:
            raise Untranslatable("memcpy whose size is not a size_t")
        cnt = str(ne.lit) if ne.lit is not None else f"{ne.v}.toNat"
        ad, as_ = self.arr_term(pd.t.base, env), self.arr_term(ps.t.base, env)
        d = pd.d + ps.d + ne.d + [f"({self.CS}inb {ad} {pd.v} {cnt})", f"({self.CS}inb {as_} {ps.v} {cnt})"]
        if pd.t.base == ps.t.base:
            d.append(f"({self.CS}disjoint {pd.v} {ps.v} {cnt})")
        env = dict(env)
        env["@" + pd.t.base] = (f"({self.CS}blit {ad} {pd.v} {as_} {ps.v} {cnt})", Ad)
        return env, d
    # ---- END cfunb ----------------------------------------------------------------------------------------------------------

    # ---- helpers
    def atomic(self, v):
        return re.fullmatch(r"[\w.']+|\d+#\d+|true|false", v) is not None

    def spill(self, e_v, t):
        if len(e_v) <= SPILL or self.atomic(e_v):
            return e_v
        self.nv += 1
        nm = f"{self.name}_v{self.nv}"
        ps = " ".join(f"({p} : {pt.lean()})" for p, pt in self.scope)
        self.defs.append(f"@[simp] def {nm} {ps} : {t.lean()} :=\n  {e_v}\n")
        return "(" + " ".join([nm] + [p for p, _ in self.scope]) + ")"

    def bind(self, env, name, e, t):
        if not e.t == t:
            raise Untranslatable(f"value of type {e.t} stored into `{name}` of type {t}")
        env = dict(env)
        env[name] = (self.spill(e.v, t), t)
        return env

    # ---- statements (continuation passing: `k env` = what happens after the statement list falls through)
    def contains(self, n, kinds):
        if n.get("kind") in kinds:
            return True
        return any(self.contains(c, kinds) for c in n.get("inner", []) if isinstance(c, dict))

    def falls(self, s):
        k = s.get("kind")
        if k == "ReturnStmt":
            return False
        if k == "CompoundStmt":
            inner = s.get("inner", [])
            return self.falls(inner[-1]) if inner else True
        if k == "IfStmt" and s.get("hasElse"):
            return self.falls(s["inner"][1]) or self.falls(s["inner"][2])
        return True

    def assign(self, s, env):
        """an expression statement that updates the state: returns (env', definedness conjuncts)"""
        self.begin_full()
        env2, d = self.assign0(s, env)
        return self.end_full(s, env2), d

    def assign0(self, s, env):
        k = s.get("kind")
        if k == "ParenExpr":
            return self.assign0(s["inner"][0], env)
        if k == "CallExpr":
            f = s["inner"][0]
            while f.get("kind") in ("ImplicitCastExpr", "ParenExpr"):
                f = f["inner"][0]
            if f.get("kind") == "DeclRefExpr" and f["referencedDecl"].get("name") in ("memcpy", "__builtin_memcpy"):
                return self.memcpy_stmt(s, env)
            if f.get("kind") == "DeclRefExpr" and f["referencedDecl"].get("name") in ("memset", "__builtin_memset"):
                return self.memset_stmt(s, env)
            e = self.call(s, env)              # a pure function called for nothing: only its definedness matters
            return env, e.d
        if k == "CStyleCastExpr" and s.get("castKind") == "ToVoid":
            e = self.expr(s["inner"][0], env)
            return env, e.d
        if k in ("BinaryOperator", "CompoundAssignOperator", "UnaryOperator"):
            lhs = s["inner"][0]
            while lhs.get("kind") == "ParenExpr":
                lhs = lhs["inner"][0]
            if k == "BinaryOperator" and s["opcode"] == ",":
                env1, d1 = self.assign0(s["inner"][0], env)
                env2, d2 = self.assign0(s["inner"][1], env1)
                return env2, d1 + d2
            is_var = lhs.get("kind") == "DeclRefExpr" and lhs["referencedDecl"].get("kind") in ("ParmVarDecl", "VarDecl") \
                and lhs["referencedDecl"]["name"] in env
            if not is_var and (k != "UnaryOperator" or s["opcode"] in ("++", "--")) and \
                    (k != "BinaryOperator" or s["opcode"] == "="):
                if lhs.get("kind") in ("ArraySubscriptExpr", "UnaryOperator", "DeclRefExpr"):
                    return self.store(s, lhs, env)
            if lhs.get("kind") != "DeclRefExpr" or lhs["referencedDecl"].get("kind") not in ("ParmVarDecl", "VarDecl"):
                raise Untranslatable("assignment to something that is not a local variable or parameter")
            nm = lhs["referencedDecl"]["name"]
            if nm not in env:
                raise Untranslatable(f"assignment to `{nm}`, which is not a scalar local")
            if self.ptr_view(lhs["type"]) is not None:
                return self.assign_ptr(s, nm, env)
            lt = self.ctype(lhs["type"])
        if k == "BinaryOperator" and s["opcode"] == "=":
            e = self.expr(s["inner"][1], env)
            return self.bind(env, nm, e, lt), e.d
        if k == "CompoundAssignOperator":
            if env[nm] is None:
                raise Untranslatable(f"local `{nm}` is read before it is assigned")
            op = s["opcode"][:-1]
            clt, crt = self.ctype(s["computeLHSType"]), self.ctype(s["computeResultType"])
            a = self.cast(E(env[nm][0], lt), clt)
            fake = dict(kind="BinaryOperator", opcode=op, type=s["computeResultType"], inner=[None, s["inner"][1]])
            r = self.binop_with(fake, a, env)
            if not r.t == crt:
                raise Untranslatable("compound assignment: unexpected computation type")
            r = self.cast(r, lt)
            return self.bind(env, nm, r, lt), r.d
        if k == "UnaryOperator" and s["opcode"] in ("++", "--"):
            if env[nm] is None:
                raise Untranslatable(f"local `{nm}` is read before it is assigned")
            if lt.is_bool or isinstance(lt, FT):
                raise Untranslatable("++/-- on _Bool / floating point")
            v = env[nm][0]
            op = "+" if s["opcode"] == "++" else "-"
            d = []
            if lt.signed and lt.w >= 32:     # narrower types are computed in int and converted back: no overflow
                d.append(f"(Carquet.Impl.CSem.{'sAddOk' if op == '+' else 'sSubOk'} {v} 1#{lt.w})")
            return self.bind(env, nm, E(f"({v} {op} 1#{lt.w})", lt), lt), d
        raise Untranslatable(f"statement expression of kind {k} (only assignments to locals and ++/-- are supported)")

    def assign_ptr(self, s, nm, env):
        """`p = q + k`, `p += k`, `p -= k`, `p++`, `p--` on a pointer variable"""
        k = s.get("kind")
        cur = env[nm]
        if k == "BinaryOperator" and s["opcode"] == "=":
            pe = self.pexpr(s["inner"][1], env)
            view = self.ptr_view(s["inner"][0]["type"])
            pe = self.review(pe, view)
            if cur is not None and cur[1].base != pe.t.base:
                raise Untranslatable(f"pointer `{nm}` is made to point into another array")
            env = dict(env)
            env[nm] = (pe.v, pe.t)
            return env, pe.d
        if cur is None:
            raise Untranslatable(f"pointer `{nm}` is used before it is assigned")
        v, t = cur
        if k == "CompoundAssignOperator" and s["opcode"] in ("+=", "-="):
            ie = self.expr(s["inner"][1], env)
            if ie.t.is_bool:
                raise Untranslatable("pointer += _Bool")
            off, d = self.padd(v, ie, t.scale, 1 if s["opcode"] == "+=" else -1)
            env = dict(env)
            env[nm] = (off, t)
            return env, ie.d + d
        if k == "UnaryOperator" and s["opcode"] in ("++", "--"):
            off, d = self.padd(v, E("1", BASE["int"], lit=1), t.scale, 1 if s["opcode"] == "++" else -1)
            env = dict(env)
            env[nm] = (off, t)
            return env, d
        raise Untranslatable(f"operation on pointer `{nm}`")

    def store(self, s, lhs, env):
        """`*out = e`, `a[i] = e`, `a[i] op= e`, `(*p)++` and the same on a scalar global"""
        k = s.get("kind")
        loc = self.lvalue(lhs, env)
        lt = loc["t"]
        if k == "BinaryOperator" and s["opcode"] == "=":
            e = self.expr(s["inner"][1], env)
            return self.write_loc(loc, e, env)
        if k == "CompoundAssignOperator":
            op = s["opcode"][:-1]
            clt, crt = self.ctype(s["computeLHSType"]), self.ctype(s["computeResultType"])
            old = self.read_loc(loc, env)
            a = self.cast(old, clt)
            fake = dict(kind="BinaryOperator", opcode=op, type=s["computeResultType"], inner=[None, s["inner"][1]])
            r = self.binop_with(fake, a, env)
            if not r.t == crt:
                raise Untranslatable("compound assignment: unexpected computation type")
            r = self.cast(r, lt)
            loc = dict(loc)
            loc["d"] = []                         # the location's own conjuncts are already in `old`
            env2, dl = self.write_loc(loc, r, env)
            return env2, uniq(dl)
        if k == "UnaryOperator" and s["opcode"] in ("++", "--"):
            old = self.read_loc(loc, env)
            up = s["opcode"] == "++"
            d = list(old.d)
            if lt.signed and lt.w >= 32:
                d.append(f"({self.CS}{'sAddOk' if up else 'sSubOk'} {old.v} 1#{lt.w})")
            loc = dict(loc)
            loc["d"] = []
            env2, dl = self.write_loc(loc, E(f"({old.v} {'+' if up else '-'} 1#{lt.w})", lt, d), env)
            return env2, uniq(dl)
        raise Untranslatable(f"store of kind {k}")

    def binop_with(self, n, a, env):
        """binop where the left operand is already translated"""
        saved = self.expr

        def patched(node, env2):
            if node is None:
                return a
            return saved(node, env2)
        self.expr = patched
        try:
            return self.binop(n, env)
        finally:
            self.expr = saved

    LOOPS = ("WhileStmt", "ForStmt", "DoStmt")

    def mkret(self, e, env):
        """the value a `return` yields: the returned value (if any) and the final content of every out-state"""
        comps = [] if self.ret is None else [e.v]
        for key in self.outs:
            if env.get(key) is None:
                raise Untranslatable(f"internal: `{key}` has no value at a return")
            comps.append(env[key][0])
        if not comps:
            return "()"
        return comps[0] if len(comps) == 1 else "(" + ", ".join(comps) + ")"

    def ret_lean(self):
        comps = ([] if self.ret is None else [self.ret.lean()]) + [self.key_type(k_).lean() for k_ in self.outs]
        if not comps:
            return "Unit"
        return comps[0] if len(comps) == 1 else "(" + " × ".join(comps) + ")"

    def key_type(self, key):
        if key[0] == "@":
            return self.arrays[key[1:]]
        if key[0] == "*":
            return self.cells.get(key[1:]) or self.gcells[key[1:]]
        raise Untranslatable(f"internal: type of `{key}`")

    def stmts(self, lst, env, k):
        lst = [s for s in lst if s and s.get("kind") != "NullStmt"]
        if not lst:
            return k(env)
        s, rest = lst[0], lst[1:]

        def cont(env2):
            return self.stmts(rest, env2, k)
        kind = s.get("kind")
        if kind == "CompoundStmt":
            if self.cfg["stage"] == 1 or not rest:
                return self.stmts(s.get("inner", []) + rest, env, k)
            mine = [x for d_ in s.get("inner", []) if d_.get("kind") == "DeclStmt" for x in self.declared_in(d_)]
            return self.stmts(s.get("inner", []), env, lambda e2: cont(self.unscope(e2, mine)))
        if kind == "ReturnStmt":
            if not s.get("inner"):
                if self.ret is not None:
                    raise Untranslatable("return without a value")
                if self.ret_mode != "fn":
                    raise Untranslatable("return inside a nested loop")
                return self.mkret(None, env), "true"
            if self.ret is None:
                raise Untranslatable("return with a value in a void function")
            if self.ret_mode != "fn":
                raise Untranslatable("return inside a nested loop")
            oc = self.out_call(s["inner"][0])
            if oc is not None:
                callee = self.callee_of(oc)
                if not callee["ret"] == self.ret:
                    raise Untranslatable("returned value is not of the return type")

                def kr(env2):
                    return self.mkret(E(f"r__{self.nbind}", self.ret), env2), "true"
                return self.bind_call(oc, env, kr, target="r__ret", target_t=self.ret)
            self.begin_full()
            if isinstance(self.ret, PTR):                    # cfunb: pointer result
                e = self.pexpr(s["inner"][0], env)
                if e.t.base != self.ret.base or e.t.scale != 1:
                    raise Untranslatable(f"the returned pointer does not point into `{self.ret.base}`")
                e = E(e.v, self.ret, e.d)
            else:
                e = self.expr(s["inner"][0], env)
            env = self.end_full(s, env)
            if not e.t == self.ret:
                raise Untranslatable("returned value is not of the return type")
            return self.mkret(e, env), dand(e.d)
        if kind == "BreakStmt":
            if not self.break_k:
                raise Untranslatable("break outside a loop")
            return self.break_k[-1](env)
        if kind == "DeclStmt":
            d = []
            for i_, v in enumerate(s["inner"]):
                if v.get("kind") != "VarDecl":
                    raise Untranslatable(f"declaration of a {v.get('kind')}")
                nm = v["name"]
                if nm in env or nm in self.ptr_params or "@" + nm in env:
                    raise Untranslatable(f"local `{nm}` shadows another variable")
                if v.get("storageClass") in ("static", "extern") and self.ptr_view(v["type"]) is None and \
                        self.arr_type_of(v["type"]) is None:
                    t = self.ctype(v["type"])
                    raise Untranslatable(f"static/extern local `{nm}`")
                if self.ptr_view(v["type"]) is not None:
                    if v.get("storageClass") in ("static", "extern"):
                        raise Untranslatable(f"static/extern local `{nm}`")
                    env = dict(env)
                    if "init" in v:
                        self.begin_full()
                        pe = self.review(self.pexpr(v["inner"][0], env), self.ptr_view(v["type"]))
                        env = self.end_full(v, env)
                        d += pe.d
                        env[nm] = (pe.v, pe.t)
                    else:
                        env[nm] = None
                    continue
                at = self.arr_type_of(v["type"])
                if at is not None:
                    if v.get("storageClass") in ("static", "extern"):
                        raise Untranslatable(f"static/extern local `{nm}`")
                    env, d2 = self.local_array(v, at, env)
                    d += d2
                    continue
                t = self.ctype(v["type"])
                if v.get("storageClass") in ("static", "extern"):
                    raise Untranslatable(f"static/extern local `{nm}`")
                if "init" in v:
                    oc = self.out_call(v["inner"][0])
                    if oc is not None:
                        later = [dict(kind="DeclStmt", inner=s["inner"][i_ + 1:])] if s["inner"][i_ + 1:] else []
                        self.local_types[nm] = t
                        env = dict(env)
                        env[nm] = None
                        V, D = self.bind_call(oc, env, lambda e2: self.stmts(later + rest, e2, k), target=nm, target_t=t)
                        return V, dand(d + [D])
                    self.begin_full()
                    e = self.expr(v["inner"][0], env)
                    env = self.end_full(v, env)
                    d += e.d
                    env = self.bind(env, nm, e, t)
                else:
                    env = dict(env)
                    env[nm] = None
                    self.local_types[nm] = t
                self.local_types[nm] = t
            V, D = cont(env)
            return V, dand(d + [D])
        if kind == "CallExpr" and self.out_call(s) is not None:
            return self.bind_call(s, env, cont)
        if kind == "BinaryOperator" and s.get("opcode") == "=" and self.out_call(s["inner"][1]) is not None:
            lhs = s["inner"][0]
            while lhs.get("kind") == "ParenExpr":
                lhs = lhs["inner"][0]
            if lhs.get("kind") != "DeclRefExpr" or lhs["referencedDecl"].get("name") not in env or \
                    self.ptr_view(lhs["type"]) is not None:
                raise Untranslatable("the result of a call with out-results must be stored into a scalar local")
            return self.bind_call(self.out_call(s["inner"][1]), env, cont, target=lhs["referencedDecl"]["name"],
                                  target_t=self.ctype(lhs["type"]))
        if kind in ("BinaryOperator", "CompoundAssignOperator", "UnaryOperator", "ParenExpr", "CallExpr", "CStyleCastExpr"):
            env2, d = self.assign(s, env)
            V, D = cont(env2)
            return V, dand(d + [D])
        if kind == "IfStmt":
            if s.get("hasInit") or s.get("hasVar"):
                raise Untranslatable("if with a declaration")
            self.begin_full()
            c = self.expr(s["inner"][0], env)
            env = self.end_full(s["inner"][0], env)
            cb = self.cond(c)
            then = s["inner"][1]
            els = s["inner"][2] if s.get("hasElse") else None
            impure = ("ReturnStmt", "WhileStmt", "ForStmt", "DoStmt", "SwitchStmt", "BreakStmt", "ContinueStmt", "GotoStmt")
            if not self.contains(then, impure) and (els is None or not self.contains(els, impure)) and \
                    not self.contains_outcall(s):
                cap = {}

                def capture(tag):
                    def kk(e2):
                        cap[tag] = e2
                        return "FALL", "true"
                    return kk
                _, D1 = self.stmts([then], env, capture(1))
                _, D2 = self.stmts([els] if els else [], env, capture(2))
                d = list(c.d)
                if D1 != "true" or D2 != "true":
                    d.append(ite(cb, D1, D2))
                env2 = dict(env)
                for nm in env:
                    v1, v2 = cap[1].get(nm), cap[2].get(nm)
                    if v1 == v2:
                        env2[nm] = v1
                    elif v1 is None or v2 is None:
                        env2[nm] = None          # assigned on one path only and never before: still unusable
                    else:
                        if isinstance(v1[1], PTR) and not v1[1] == v2[1]:
                            raise Untranslatable(f"pointer `{nm}` points into different arrays after an if")
                        env2[nm] = (self.spill(ite(cb, v1[0], v2[0]), v1[1]), v1[1])
                V, D = cont(env2)
                return V, dand(d + [D])
            kj = cont
            if rest and self.falls(then) and (els is None or self.falls(els)) and self.ret_mode == "fn" and \
                    not self.in_loop_body and any(self.contains(r, self.LOOPS) for r in rest):
                kj = self.join(env, [then] + ([els] if els else [None]), cont)
            V1, D1 = self.stmts([then], env, kj)
            V2, D2 = self.stmts([els] if els else [], env, kj)
            return ite(cb, V1, V2), dand(c.d + [ite(cb, D1, D2)])
        if kind == "WhileStmt":
            if len(s["inner"]) != 2:
                raise Untranslatable("while with a declaration")
            return self.loop(s["inner"][0], [s["inner"][1]], env, cont, node=s)
        if kind == "DoStmt":
            return self.loop(s["inner"][1], [s["inner"][0]], env, cont, do=True, node=s)
        if kind == "ForStmt":
            init, condvar, cnd, inc, body = s["inner"]
            if condvar:
                raise Untranslatable("for with a condition declaration")
            if not cnd:
                raise Untranslatable("for without a condition")
            if self.contains(body, ("ContinueStmt",)):
                raise Untranslatable("continue in a for loop")

            def after_init(env2):
                mine = self.declared_in(init)
                return self.loop(cnd, [body] + ([inc] if inc else []), env2,
                                 (lambda e3: cont(self.unscope(e3, mine))) if mine and self.cfg["stage"] == 2 else cont, node=s)
            return self.stmts([init] if init else [], env, after_init)
        if kind == "SwitchStmt":
            return self.switch(s, env, cont)
        raise Untranslatable(f"statement kind {kind} is outside the supported subset")

    def unscope(self, env, names):
        """the environment after the block that declared `names` has been left"""
        if not names:
            return env
        return {x: v for x, v in env.items() if x not in names and not (x[0] in "@?" and x[1:] in names)}

    def declared_in(self, n):
        if not n or n.get("kind") != "DeclStmt":
            return []
        return [v["name"] for v in n.get("inner", []) if v.get("kind") == "VarDecl"]

    def local_array(self, v, at, env):
        """`T a[N];` (elements indeterminate until written: a shadow list of flags) or `T a[N] = {e0, .., 0 ..}`"""
        nm = v["name"]
        t, dims = at
        A = ARR(t, dims, writable=True, kind="local")
        self.arrays[nm] = A
        env = dict(env)
        d = []
        if "init" in v:
            init = v["inner"][0]
            if init.get("kind") != "InitListExpr" or len(dims) != 1:
                raise Untranslatable(f"initialiser of local array `{nm}`")
            elems = []
            items = init.get("inner", [])
            if init.get("array_filler"):               # `{a, b}` for a longer array: clang lists the filler first
                items = [x for x in init["array_filler"] if x.get("kind") != "ImplicitValueInitExpr"]
            for x in items:
                self.begin_full()
                e = self.expr(x, env)
                env = self.end_full(x, env)
                if not e.t == t:
                    raise Untranslatable(f"initialiser of `{nm}`: element of type {e.t!r}")
                d += e.d
                elems.append(e.v if t.w != 8 else f"(UInt8.ofBitVec {e.v})")
            if len(elems) > dims[0]:
                raise Untranslatable(f"too many initialisers for `{nm}`")
            zero = "0" if t.w == 8 else f"0#{t.w}"
            fill = dims[0] - len(elems)
            term = "[" + ", ".join(elems) + "]"
            if fill:
                term = f"(List.replicate {fill} {zero})" if not elems else f"({term} ++ List.replicate {fill} {zero})"
            env["@" + nm] = (term, A)
        else:
            zero = "0" if t.w == 8 else f"0#{t.w}"
            env["@" + nm] = (f"(List.replicate {A.total()} {zero})", A)
            env["?" + nm] = (f"(List.replicate {A.total()} false)", FLAGS)
        return env, d

    def snapshot(self):
        return (len(self.defs), self.nv, self.nloop, self.njoin, self.nbind, list(self.scope), list(self.break_k),
                self.in_loop_body, self.ret_mode, list(self.paths))

    def restore(self, snap):
        n, self.nv, self.nloop, self.njoin, self.nbind, self.scope, self.break_k, self.in_loop_body, self.ret_mode, \
            self.paths = snap
        del self.defs[n:]

    def is_closed(self, v):
        return re.fullmatch(r"\d+", v) is not None

    def frame(self, env, keys):
        """formal parameters [(lean name, type)] for the state variables `keys`, and the environment in which every
        one of them is its own formal parameter"""
        params = [(self.lname(x), env[x][1]) for x in keys]
        names = [p_ for p_, _ in self.ro_params()] + [p_ for p_, _ in params]
        if len(set(names)) != len(names):
            raise Untranslatable("parameter names of a helper definition collide: " + " ".join(names))
        inner = dict(env)
        for x in keys:
            inner[x] = (self.lname(x), env[x][1])
        return params, inner

    def ro_params(self):
        """what every helper definition receives unchanged: struct access paths and read-only array parameters"""
        return [(ident("_".join(p_)), t) for p_, t in self.all_paths] + \
               [(self.lname("@" + a), self.arrays[a]) for a in self.ro_arrays]

    def passed_keys(self, env, exits=None, modified=None):
        """the state variables a helper definition must take as parameters"""
        keys = []
        for x in env:
            if env[x] is None:
                continue
            if x[0] == "@" and (x[1:] in self.ro_arrays or self.arrays[x[1:]].kind == "const"):
                continue
            if exits is not None:
                if any(e_.get(x) is None for e_ in exits):
                    continue
                vals = {e_[x][0] for e_ in exits}
                if isinstance(env[x][1], PTR) and len(vals) == 1 and self.is_closed(next(iter(vals))):
                    continue
            elif isinstance(env[x][1], PTR) and self.is_closed(env[x][0]) and modified is not None and x not in modified:
                continue
            keys.append(x)
        return keys

    def join(self, env, branches, cont):
        """the continuation `cont` of an if whose branches both fall through, as a definition of its own (so that the
        loops it contains are translated once); returns the continuation to give to the branches"""
        snap = self.snapshot()
        exits = []

        def probe(e2):
            exits.append(e2)
            return "J", "true"
        for b in branches:
            self.stmts([b] if b else [], env, probe)
        self.restore(snap)
        pre = {x: env[x] for x in env}
        for x in env:                                   # variables first assigned in both branches
            if env[x] is None and all(e_.get(x) is not None for e_ in exits):
                pre[x] = exits[0][x]
        keys = self.passed_keys(pre, exits=exits)
        params, inner = self.frame(pre, keys)
        for x in pre:
            if pre[x] is not None and x not in keys and isinstance(pre[x][1], PTR):
                inner[x] = exits[0][x]                # the same closed offset at every exit
        self.njoin += 1
        nm = f"{self.name}_k{self.njoin}"
        ro = self.ro_params()
        allp = ro + params
        outer_scope = self.scope
        self.scope = allp
        Vk, Dk = cont(inner)
        self.scope = outer_scope
        ps = " ".join(f"({p_} : {t.lean()})" for p_, t in allp)
        self.defs.append(f"/-- what follows the if-statement that ends before join point #{self.njoin} of `{self.cfg['cname']}` -/\n"
                         f"def {nm} {ps} : {self.ret_lean()} :=\n  {Vk}\n")
        self.defs.append(f"def {nm}_defined {ps} : Bool :=\n  {Dk}\n")

        def kj(e2):
            a = " ".join([p_ for p_, _ in ro] + [e2[x][0] for x in keys])
            return f"({nm} {a})", f"({nm}_defined {a})"
        return kj

    def assigned_in(self, nodes):
        """env keys that the statements `nodes` may modify (conservative: any store or call with out-results counts
        as a modification of every writable array and cell)"""
        out = set()
        stores, calls = [False], [False]

        def root(l):
            while l.get("kind") == "ParenExpr":
                l = l["inner"][0]
            if l.get("kind") == "DeclRefExpr":
                nm = l["referencedDecl"].get("name")
                out.add("*" + nm if nm in self.gcells else nm)
                return
            if l.get("kind") == "UnaryOperator" and l.get("opcode") == "*":
                x = l["inner"][0]
                while x.get("kind") == "ParenExpr" or (x.get("kind") == "ImplicitCastExpr" and x.get("castKind") == "LValueToRValue"):
                    x = x["inner"][0]
                if x.get("kind") == "DeclRefExpr" and x["referencedDecl"].get("name") in self.cells:
                    out.add("*" + x["referencedDecl"]["name"])
                    return
            stores[0] = True

        def walk(n):
            k = n.get("kind")
            if k == "CompoundAssignOperator" or (k == "BinaryOperator" and n.get("opcode") == "=") or \
                    (k == "UnaryOperator" and n.get("opcode") in ("++", "--")):
                root(n["inner"][0])
            if k == "CallExpr":
                f = n["inner"][0]
                while f.get("kind") in ("ImplicitCastExpr", "ParenExpr"):
                    f = f["inner"][0]
                fn = f.get("referencedDecl", {}).get("name")
                if fn in ("memcpy", "__builtin_memcpy"):
                    for x in self.addr_of_names(n["inner"][1]):
                        out.add(x)
                    if not self.is_addr_of(n["inner"][1]):
                        stores[0] = True                    # cfunb: array-to-array memcpy
                elif fn in ("memset", "__builtin_memset"):
                    stores[0] = True                        # cfunb
                elif self.out_call(n) is not None:
                    calls[0] = True
                    for a in n["inner"][1:]:
                        for x in self.addr_of_names(a):
                            out.add(x)
            for c in n.get("inner", []):
                if isinstance(c, dict):
                    walk(c)
        for n in nodes:
            if n:
                walk(n)
        if calls[0]:
            out |= set(self.outs)
        if stores[0] or calls[0]:
            out |= {"@" + a for a in self.arrays if self.arrays[a].writable}
            out |= {"?" + a for a in self.arrays if self.arrays[a].kind == "local"}
        return out

    def addr_of_names(self, n):
        res = []
        if n.get("kind") == "UnaryOperator" and n.get("opcode") == "&":
            x = n["inner"][0]
            while x.get("kind") == "ParenExpr":
                x = x["inner"][0]
            if x.get("kind") == "DeclRefExpr":
                res.append(x["referencedDecl"].get("name"))
        for c in n.get("inner", []):
            if isinstance(c, dict):
                res += self.addr_of_names(c)
        return res

    def loop_breaks(self, n):
        """`n` contains a break that belongs to the enclosing loop"""
        k = n.get("kind")
        if k == "BreakStmt":
            return True
        if k in self.LOOPS or k == "SwitchStmt":
            return False
        return any(self.loop_breaks(c) for c in n.get("inner", []) if isinstance(c, dict))

    def fuel_term(self, spec, env):
        if isinstance(spec, int):
            return str(spec)

        def sub(m):
            key = m.group(1)
            if env.get(key) is None:
                raise Untranslatable(f"fuel expression `{spec}` mentions `{key}`, which has no value at the loop")
            return env[key][0]
        return "(" + re.sub(r"\{([@*]?\w+)\}", sub, spec) + ")"

    def loop(self, cnd, body, env, k, do=False, drop=(), node=None):
        for b in body:
            if self.contains(b, ("ContinueStmt", "GotoStmt")):
                raise Untranslatable("continue/goto inside a loop")
        has_break = any(self.loop_breaks(b) for b in body)
        nloop = self.loop_no[node["id"]]                     # loops are numbered in source order
        if nloop > len(self.cfg["fuel"]):
            raise Untranslatable(f"loop #{nloop} has no fuel constant in FUNCS")
        fuel = self.fuel_term(self.cfg["fuel"][nloop - 1], env)
        self.nloop += 1
        nm = f"{self.name}_loop{nloop}"
        if any(d_.startswith(f"def {nm} ") or f"\ndef {nm} " in d_ for d_ in self.defs):
            raise Untranslatable(f"loop #{nloop} is reached along two paths (the statements after an if that contains a "
                                 f"return or a loop are duplicated into both branches)")
        if self.in_loop_body:
            return self.inner_loop(nm, nloop, fuel, cnd, body, env, k, do, has_break)
        stage1 = self.cfg["stage"] == 1
        if stage1:
            live = [x for x in env if env[x] is not None]
        else:
            live = self.passed_keys(env, modified=self.assigned_in([cnd] + body))
        ro = self.ro_params()
        lp, inner_env = self.frame(env, live)
        params = ro + lp
        outer_scope = self.scope
        self.scope = params
        pat = ", ".join(p for p, _ in params)
        tys = " → ".join(["Nat"] + [t.lean() for _, t in params])

        def args_of(env2):
            for x in env:
                if env[x] is None and env2.get(x) is not None and x not in drop:
                    pass
            return " ".join([p for p, _ in ro] + [env2[x][0] for x in live])

        def again0(env2):
            for x in env:
                if env[x] is None and env2.get(x) is not None:
                    raise Untranslatable(f"`{x}` is first assigned inside a loop")
            a = args_of(env2)
            return f"({nm} fuel__ {a})", f"({nm}_defined fuel__ {a})"

        # the exit continuation: inline (as in stage 1) unless the loop can be left from several places
        if do or has_break:
            self.njoin += 1
            kn = f"{self.name}_k{self.njoin}"
            Vx, Dx = k(inner_env)
            ps = " ".join(f"({p_} : {t.lean()})" for p_, t in params)
            self.defs.append(f"/-- what follows loop #{nloop} of `{self.cfg['cname']}` -/\n"
                             f"def {kn} {ps} : {self.ret_lean()} :=\n  {Vx}\n")
            self.defs.append(f"def {kn}_defined {ps} : Bool :=\n  {Dx}\n")

            def leave(env2):
                a = args_of(env2)
                return f"({kn} {a})", f"({kn}_defined {a})"
        else:
            leave = None

        def test(env_c):
            self.begin_full()
            c = self.expr(cnd, env_c)
            return c, self.cond(c), self.end_full(cnd, env_c)

        self.in_loop_body = True
        self.break_k.append(leave)
        try:
            if do:
                def again(env2):
                    c, cb, env3 = test(env2)
                    Va, Da = again0(env3)
                    Vl, Dl = leave(env3)
                    return ite(cb, Va, Vl), dand(c.d + [ite(cb, Da, Dl)])
                Vb, Db = self.stmts(body, inner_env, again)
            else:
                c, cb, env_c = test(inner_env)
                Vb, Db = self.stmts(body, env_c, again0)
        finally:
            self.in_loop_body = False
            self.break_k.pop()
        if do:
            V0, _ = leave(inner_env)
            self.defs.append(
                f"/-- loop #{nloop} of `{self.cfg['cname']}` (a do-while: the body runs before the test); `fuel__` bounds the number of iterations -/\n"
                f"def {nm} : {tys} → {self.ret_lean()}\n"
                f"  | 0, {pat} => {V0}\n"
                f"  | fuel__ + 1, {pat} =>\n    {Vb}\n")
            self.defs.append(
                f"def {nm}_defined : {tys} → Bool\n"
                f"  | 0, {pat} => false\n"
                f"  | fuel__ + 1, {pat} =>\n    {Db}\n")
        else:
            if leave is not None:
                Vk, Dk = leave(env_c)
            else:
                Vk, Dk = k(env_c)
            V0 = Vk
            if env_c is not inner_env:
                V0, _ = leave(inner_env) if leave is not None else k(inner_env)
            self.defs.append(
                f"/-- loop #{nloop} of `{self.cfg['cname']}` (and what follows it); `fuel__` bounds the number of condition tests -/\n"
                f"def {nm} : {tys} → {self.ret_lean()}\n"
                f"  | 0, {pat} => {V0}\n"
                f"  | fuel__ + 1, {pat} =>\n    if {cb} then {Vb}\n    else {Vk}\n")
            self.defs.append(
                f"def {nm}_defined : {tys} → Bool\n"
                f"  | 0, {pat} => false\n"
                f"  | fuel__ + 1, {pat} =>\n    {dand(c.d + [ite(cb, Db, Dk)])}\n")
        self.scope = outer_scope
        a = " ".join([p for p, _ in ro] + [env[x][0] for x in live])
        return f"({nm} {fuel} {a})", f"({nm}_defined {fuel} {a})"

    def inner_loop(self, nm, nloop, fuel, cnd, body, env, k, do, has_break):
        """a loop inside a loop body: a definition of its own that returns the variables it modifies"""
        for b in body:
            if self.contains(b, ("ReturnStmt",)):
                raise Untranslatable("return inside a nested loop")
        mod_all = self.assigned_in([cnd] + body)
        live = self.passed_keys(env, modified=mod_all)
        mod = [x for x in live if x in mod_all]
        ro = self.ro_params()
        lp, inner_env = self.frame(env, live)
        params = ro + lp
        outer_scope, outer_mode = self.scope, self.ret_mode
        self.scope = params
        self.ret_mode = "loop"
        pat = ", ".join(p for p, _ in params)
        tys = " → ".join(["Nat"] + [t.lean() for _, t in params])
        rty = "Unit" if not mod else (env[mod[0]][1].lean() if len(mod) == 1 else
                                      "(" + " × ".join(env[x][1].lean() for x in mod) + ")")

        def state(env2):
            if not mod:
                return "()", "true"
            vs = [env2[x][0] for x in mod]
            return (vs[0] if len(vs) == 1 else "(" + ", ".join(vs) + ")"), "true"

        def again0(env2):
            for x in env:
                if env[x] is None and env2.get(x) is not None:
                    pass                                   # a local of the enclosing body first assigned here: dropped
            a = " ".join([p for p, _ in ro] + [env2[x][0] for x in live])
            return f"({nm} fuel__ {a})", f"({nm}_defined fuel__ {a})"

        def test(env_c):
            self.begin_full()
            c = self.expr(cnd, env_c)
            return c, self.cond(c), self.end_full(cnd, env_c)
        self.break_k.append(state)
        try:
            if do:
                def again(env2):
                    c, cb, env3 = test(env2)
                    Va, Da = again0(env3)
                    Vl, Dl = state(env3)
                    return ite(cb, Va, Vl), dand(c.d + [ite(cb, Da, Dl)])
                Vb, Db = self.stmts(body, inner_env, again)
                V0, _ = state(inner_env)
                self.defs.append(
                    f"/-- nested loop #{nloop} of `{self.cfg['cname']}` (do-while): the variables it modifies -/\n"
                    f"def {nm} : {tys} → {rty}\n  | 0, {pat} => {V0}\n  | fuel__ + 1, {pat} =>\n    {Vb}\n")
                self.defs.append(
                    f"def {nm}_defined : {tys} → Bool\n  | 0, {pat} => false\n  | fuel__ + 1, {pat} =>\n    {Db}\n")
            else:
                c, cb, env_c = test(inner_env)
                Vb, Db = self.stmts(body, env_c, again0)
                Vk, Dk = state(env_c)
                V0, _ = state(inner_env)
                self.defs.append(
                    f"/-- nested loop #{nloop} of `{self.cfg['cname']}`: the variables it modifies -/\n"
                    f"def {nm} : {tys} → {rty}\n  | 0, {pat} => {V0}\n"
                    f"  | fuel__ + 1, {pat} =>\n    if {cb} then {Vb}\n    else {Vk}\n")
                self.defs.append(
                    f"def {nm}_defined : {tys} → Bool\n  | 0, {pat} => false\n"
                    f"  | fuel__ + 1, {pat} =>\n    {dand(c.d + [ite(cb, Db, Dk)])}\n")
        finally:
            self.break_k.pop()
            self.scope, self.ret_mode = outer_scope, outer_mode
        a = " ".join([p for p, _ in ro] + [env[x][0] for x in live])
        call, calld = f"({nm} {fuel} {a})", f"({nm}_defined {fuel} {a})"
        env2 = dict(env)
        names = [f"{self.lname(x)}__l{nloop}" for x in mod]      # fresh: terms of other variables may mention the old names
        for x, fresh in zip(mod, names):
            env2[x] = (fresh, env[x][1])
        self.scope = outer_scope + [(fresh, env[x][1]) for x, fresh in zip(mod, names)]
        try:
            V, D = k(env2)
        finally:
            self.scope = outer_scope
        if not mod:
            return V, dand([calld, D])
        pat2 = names[0] if len(names) == 1 else "(" + ", ".join(names) + ")"
        Vm = f"(match {call} with\n    | {pat2} => {V})"
        Dm = dand([calld] + ([] if D == "true" else [f"(match {call} with\n    | {pat2} => {D})"]))
        return Vm, Dm

    def switch(self, s, env, k):
        if len(s["inner"]) != 2 or s["inner"][1].get("kind") != "CompoundStmt":
            raise Untranslatable("switch whose body is not a block")
        c = self.expr(s["inner"][0], env)
        if c.t.is_bool:
            raise Untranslatable("switch on _Bool")
        sv = self.spill(c.v, c.t) if not self.atomic(c.v) and len(c.v) > 24 else c.v
        sections = []          # [labels (E or "default"), stmts]

        def add(node):
            kk = node.get("kind")
            if kk == "CaseStmt":
                if len(node["inner"]) != 2:
                    raise Untranslatable("case range")
                lab = self.expr(node["inner"][0], env)
                if lab.lit is None or not lab.t == c.t:
                    raise Untranslatable("case label is not a literal of the switch type")
                if not sections or sections[-1][1]:
                    sections.append([[], []])
                sections[-1][0].append(lab)
                add(node["inner"][1])
            elif kk == "DefaultStmt":
                if not sections or sections[-1][1]:
                    sections.append([[], []])
                sections[-1][0].append("default")
                add(node["inner"][0])
            else:
                if not sections:
                    raise Untranslatable("statement before the first case label")
                sections[-1][1].append(node)
        for node in s["inner"][1].get("inner", []):
            add(node)
        default, chain = None, []
        for labels, body in sections:
            if not body:
                raise Untranslatable("case label without statements at the end of a switch")
            brk = body[-1].get("kind") == "BreakStmt"
            core = body[:-1] if brk else body
            if any(self.contains(b, ("BreakStmt", "ContinueStmt", "GotoStmt", "CaseStmt", "DefaultStmt")) for b in core):
                raise Untranslatable("break/continue/nested label inside a switch section")
            if not brk and self.falls(dict(kind="CompoundStmt", inner=core)):
                raise Untranslatable("switch section falls through into the next one")
            if "default" in labels:
                default = core
            else:
                chain.append((labels, core))
        V, D = self.stmts(default, env, k) if default is not None else k(env)
        for labels, core in reversed(chain):
            test = " || ".join(f"({sv} == {l.v})" for l in labels)
            test = f"({test})" if len(labels) > 1 else test
            V1, D1 = self.stmts(core, env, k)
            V, D = ite(test, V1, V), ite(test, D1, D)
        return V, dand(c.d + [D])

    # ---- the whole function
    def deref_only(self, body, name):
        """every use of pointer parameter `name` in `body` is `*name`"""
        ok = [True]

        def walk(n, parents):
            if n.get("kind") == "DeclRefExpr" and n.get("referencedDecl", {}).get("name") == name and \
                    n["referencedDecl"].get("kind") == "ParmVarDecl":
                ps = [q for q in parents if q.get("kind") != "ParenExpr"]
                # cfunb: a NULL test (`!p`, `p == NULL`, `p != NULL`, `if (p)`) is not a use of the pointer as an array
                nulltest = len(ps) >= 2 and ps[-1].get("kind") == "ImplicitCastExpr" and ps[-1].get("castKind") == "LValueToRValue" \
                    and ((ps[-2].get("kind") == "UnaryOperator" and ps[-2].get("opcode") == "!") or
                         (ps[-2].get("kind") == "ImplicitCastExpr" and ps[-2].get("castKind") == "PointerToBoolean") or
                         (ps[-2].get("kind") == "BinaryOperator" and ps[-2].get("opcode") in ("==", "!=") and
                          any(self.is_null_const(x) for x in ps[-2]["inner"])))
                if not nulltest and not (len(ps) >= 2 and ps[-1].get("kind") == "ImplicitCastExpr" and ps[-1].get("castKind") == "LValueToRValue"
                        and ps[-2].get("kind") == "UnaryOperator" and ps[-2].get("opcode") == "*"):
                    ok[0] = False
            for c in n.get("inner", []):
                if isinstance(c, dict):
                    walk(c, parents + [n])
        walk(body, [])
        return ok[0]

    def const_int(self, n, t):
        """value of a constant initialiser element, converted to type `t`"""
        k = n.get("kind")
        if k in ("ParenExpr", "ConstantExpr"):
            return self.const_int(n["inner"][0], t)
        if k in ("ImplicitCastExpr", "CStyleCastExpr") and n.get("castKind") in ("IntegralCast", "NoOp"):
            it = self.ctype(n["type"])
            v = self.const_int(n["inner"][0], it) % (1 << it.w)
            if it.signed and v >= 1 << (it.w - 1):
                v -= 1 << it.w
            return v
        if k in ("IntegerLiteral", "CharacterLiteral"):
            return int(n["value"])
        if k == "UnaryOperator" and n.get("opcode") in ("-", "~", "+"):
            v = self.const_int(n["inner"][0], t)
            return {"-": -v, "~": ~v, "+": v}[n["opcode"]]
        if k == "DeclRefExpr" and n["referencedDecl"].get("kind") == "EnumConstantDecl":
            return self.unit.consts[n["referencedDecl"]["name"]]
        if k == "UnaryExprOrTypeTraitExpr" and n.get("name") == "sizeof":
            return self.unit.consts[sizeof_key(n)]
        if k == "BinaryOperator" and n.get("opcode") in ("*", "+", "-"):
            x, y = self.const_int(n["inner"][0], t), self.const_int(n["inner"][1], t)
            return {"*": x * y, "+": x + y, "-": x - y}[n["opcode"]]
        raise Untranslatable(f"constant expression element of kind {k} is not a literal")

    def const_size(self, n, env):
        """a byte count that must be a compile-time constant (memcpy / memset)"""
        e = self.expr(n, env)
        if e.lit is not None:
            return e.lit
        try:
            return self.const_int(n, e.t) % (1 << e.t.w)
        except Untranslatable:
            return None

    def const_table(self, name, elem, dims):
        """the content of a `static const` array, read from the initialiser in the AST of the current source"""
        decl = self.unit.var_decl(name)
        if "init" not in decl or not decl.get("inner"):
            raise Untranslatable(f"constant table `{name}` has no initialiser")

        def flat(n, dims):
            if n.get("kind") != "InitListExpr":
                raise Untranslatable(f"initialiser of `{name}` is not a brace list")
            items = [x for x in n.get("inner", [])]
            filler = n.get("array_filler")
            if filler:
                items = [x for x in filler if x.get("kind") != "ImplicitValueInitExpr"]
            vals = []
            for x in items:
                if len(dims) > 1:
                    vals += flat(x, dims[1:])
                else:
                    vals.append(self.const_int(x, elem) % (1 << elem.w))
            per = 1
            for d_ in dims[1:]:
                per *= d_
            if len(vals) > dims[0] * per:
                raise Untranslatable(f"initialiser of `{name}` has too many elements")
            return vals + [0] * (dims[0] * per - len(vals))
        return flat(decl["inner"][-1] if decl["inner"][-1].get("kind") == "InitListExpr" else decl["inner"][0], dims)

    def find_globals(self, body, local_ids):
        """file-scope variables the body mentions: {name: referencedDecl}, and the names that are stored to"""
        found, stored = {}, set()

        def root_of(l):
            while True:
                k = l.get("kind")
                if k == "ParenExpr" or (k == "ImplicitCastExpr" and l.get("castKind") == "ArrayToPointerDecay"):
                    l = l["inner"][0]
                elif k == "ArraySubscriptExpr":
                    l = l["inner"][0]
                else:
                    return l

        def walk(n):
            k = n.get("kind")
            if k == "DeclRefExpr" and n.get("referencedDecl", {}).get("kind") == "VarDecl" and \
                    n["referencedDecl"].get("id") not in local_ids:
                found[n["referencedDecl"]["name"]] = n["referencedDecl"]
            if k == "CompoundAssignOperator" or (k == "BinaryOperator" and n.get("opcode") == "=") or \
                    (k == "UnaryOperator" and n.get("opcode") in ("++", "--")):
                r = root_of(n["inner"][0])
                if r.get("kind") == "DeclRefExpr" and r["referencedDecl"].get("id") not in local_ids:
                    stored.add(r["referencedDecl"].get("name"))
            for c in n.get("inner", []):
                if isinstance(c, dict):
                    walk(c)
        walk(body)
        return found, stored

    def translate(self):
        a = self.ast
        self.cparams, env, self.ptr_params = [], {}, {}
        self.local_types = {}
        self.ret_mode = "fn"
        self.ro_arrays = []
        body = None
        local_ids = set()

        def ids(n):
            if n.get("kind") in ("VarDecl", "ParmVarDecl") and "id" in n:
                local_ids.add(n["id"])
            for c in n.get("inner", []):
                if isinstance(c, dict):
                    ids(c)
        ids(a)
        for c in a.get("inner", []):
            if c.get("kind") == "CompoundStmt":
                body = c
        self.loop_no = {}

        def number(n):
            if n.get("kind") in self.LOOPS:
                self.loop_no[n["id"]] = len(self.loop_no) + 1
            for c in n.get("inner", []):
                if isinstance(c, dict):
                    number(c)
        number(body)
        outs_params = []
        # ---- BEGIN cfunb: the base of an `ends=` entry may be a LATER parameter (`scalar_match_length(p, match, limit)`
        # with `match` the lowest address); such parameters are handled after the others, in their C position
        deferred_ends = []
        param_nodes = [c for c in a.get("inner", []) if c.get("kind") == "ParmVarDecl"]
        later = lambda c: [x.get("name") for x in param_nodes[param_nodes.index(c) + 1:]]
        # ---- END cfunb
        for c in a.get("inner", []):
            if c.get("kind") == "ParmVarDecl":
                if "name" not in c:
                    raise Untranslatable("unnamed parameter")
                pv = self.ptr_view(c["type"])
                st = self.struct_ptr(c["type"]) if pv is None else None
                if c["name"] in self.cfg.get("drop_params", ()):
                    pv = None
                if pv is not None and c["name"] in self.cfg.get("ends", {}) and \
                        self.cfg["ends"][c["name"]] not in self.arrays and self.cfg["ends"][c["name"]] in later(c):
                    deferred_ends.append((len(self.cparams), c, pv))         # cfunb: see above
                    self.cparams.append(None)
                elif pv is not None and c["name"] in self.cfg.get("ends", {}):
                    # the `end` of a `(p, end)` pair: a second pointer into the array of parameter `p`, an offset
                    base = self.cfg["ends"][c["name"]]
                    if base not in self.arrays:
                        raise Untranslatable(f"`{c['name']}` is declared an end of `{base}`, which is not an earlier array parameter")
                    pt_ = PTR(base, T(8, False) if pv == "void" else pv, 1)
                    if pt_.elem.w != self.arrays[base].elem.w:
                        raise Untranslatable(f"`{c['name']}` and `{base}` have different element types")
                    env[c["name"]] = (ident(c["name"]), pt_)
                    self.cparams.append(dict(name=c["name"], struct=None, t=pt_, ctype=c["type"]["qualType"], kind="end", base=base))
                elif c["name"] in self.cfg.get("drop_params", ()):                 # stage 3: an unmodelled `const char*`
                    if type_key(c["type"]) != "char *":
                        raise Untranslatable(f"dropped parameter `{c['name']}` is not a `const char*`")
                    self.cparams.append(dict(name=c["name"], struct=None, t=None, ctype=c["type"]["qualType"], kind="dropped"))
                elif st is not None and self.cfg["stage"] == 3:                    # stage 3: struct state
                    self.struct_param3(c, struct_name_of(c["type"], True, self), env, outs_params, body)
                elif st is not None:
                    self.ptr_params[c["name"]] = st
                    self.cparams.append(dict(name=c["name"], struct=st, t=None, ctype=c["type"]["qualType"], kind="struct"))
                elif pv is not None:
                    nm = c["name"]
                    const = re.search(r"\bconst\b[^*]*\*", c["type"].get("desugaredQualType", c["type"]["qualType"])) is not None
                    elem = T(8, False) if pv == "void" else pv
                    if nm in self.cfg.get("bytes", ()):    # cfunb: an array only ever accessed as bytes (`(uint8_t*)values`)
                        elem = T(8, False)
                    # cfunb: a non-const pointer declared (ends=) to point into this array makes it writable
                    const = const and not any(
                        b_ == nm and re.search(r"\bconst\b[^*]*\*", x["type"].get("desugaredQualType", x["type"]["qualType"])) is None
                        for x in param_nodes for b_ in [self.cfg.get("ends", {}).get(x.get("name"))])
                    if pv != "void" and self.deref_only(body, nm) and nm not in self.cfg.get("arrays", ()):
                        self.cells[nm] = elem
                        env["*" + nm] = (ident(nm), elem)
                        if not const:
                            outs_params.append("*" + nm)
                        self.cparams.append(dict(name=nm, struct=None, t=None, ctype=c["type"]["qualType"], kind="cell",
                                                 elem=elem, writable=not const))
                    else:
                        A = ARR(elem, None, writable=not const, kind="param")
                        self.arrays[nm] = A
                        self.ptr_param_names.add(nm)
                        env["@" + nm] = (ident(nm), A)
                        env[nm] = ("0", PTR(nm, elem, 1))
                        if const:
                            self.ro_arrays.append(nm)
                        else:
                            outs_params.append("@" + nm)
                        self.cparams.append(dict(name=nm, struct=None, t=None, ctype=c["type"]["qualType"], kind="array",
                                                 elem=elem, writable=not const))
                else:
                    t = self.ctype(c["type"])
                    if isinstance(t, FT):
                        raise Untranslatable("floating-point scalar parameter")          # cfunb
                    self.cparams.append(dict(name=c["name"], struct=None, t=t, ctype=c["type"]["qualType"], kind="scalar"))
                    env[c["name"]] = (ident(c["name"]), t)
        # ---- BEGIN cfunb: `ends=` entries whose base is a later parameter
        for pos, c, pv in deferred_ends:
            base = self.cfg["ends"][c["name"]]
            if base not in self.arrays:
                raise Untranslatable(f"`{c['name']}` is declared an end of `{base}`, which is not an array parameter")
            pt_ = PTR(base, T(8, False) if pv == "void" else pv, 1)
            if pt_.elem.w != self.arrays[base].elem.w:
                raise Untranslatable(f"`{c['name']}` and `{base}` have different element types")
            env[c["name"]] = (ident(c["name"]), pt_)
            self.cparams[pos] = dict(name=c["name"], struct=None, t=pt_, ctype=c["type"]["qualType"], kind="end", base=base)
        # ---- END cfunb
        if self.cfg["stage"] == 3:
            self.late_fieldbase()
        if a.get("variadic"):
            raise Untranslatable("variadic function")
        rt = a["type"]["qualType"].split("(")[0].strip()
        if rt == "void":
            self.ret = None
        elif rt.endswith("*"):
            # cfunb: a pointer result is an offset into the array of the parameter named by `ret=` in the table entry
            base = self.cfg.get("ret")
            if base not in self.arrays:
                raise Untranslatable("pointer result: the table entry must name (ret=) the array parameter it points into")
            self.ret = PTR(base, self.arrays[base].elem, 1)
        else:
            self.ret = self.ctype(dict(qualType=rt)) if strip_quals(rt) in BASE else self.unit.typedef_type(self, rt)
        # ---- file-scope variables: constant tables become literals, the others are state (implicit parameters)
        found, stored = self.find_globals(body, local_ids)
        gparams, gouts = [], []
        callee_globals = {}

        def callees(n):
            if n.get("kind") == "CallExpr":
                try:
                    c_ = self.callee_of(n)
                except Untranslatable:
                    c_ = None
                if isinstance(c_, dict):
                    for (pn, pt, origin) in c_["lean_params"]:
                        if origin[0] in ("garray", "gcell"):
                            callee_globals[origin[1]] = (origin[0], pt)
                    for o in c_.get("outs", []):
                        if o["origin"][0] in ("garray", "gcell"):
                            stored.add(o["origin"][1])
            for ch in n.get("inner", []):
                if isinstance(ch, dict):
                    callees(ch)
        callees(body)
        for gname in sorted(set(found) | set(callee_globals)):
            if gname in found:
                rd = found[gname]
                tj = rd["type"]
                q = tj.get("desugaredQualType", tj["qualType"])
                is_const = re.search(r"\bconst\b", q) is not None
                at = self.arr_type_of(tj)
                if at is None:
                    gt = self.ctype(tj)
            else:
                kind_, pt = callee_globals[gname]
                is_const = False
                at = (pt.elem, pt.dims) if kind_ == "garray" else None
                gt = pt
            if gname in env or "@" + gname in env or "*" + gname in env:
                raise Untranslatable(f"global `{gname}` has the name of a parameter")
            if at is not None:
                elem, dims = at
                if is_const:
                    if gname in stored:
                        raise Untranslatable(f"store into the constant table `{gname}`")
                    vals = self.const_table(gname, elem, dims)
                    lean = f"{self.unit.stem}_{gname}"
                    A = ARR(elem, dims, writable=False, kind="const")
                    self.arrays[gname] = A
                    env["@" + gname] = (lean, A)
                    self.unit.emit_table(lean, gname, A, vals)
                else:
                    A = ARR(elem, dims, writable=gname in stored, kind="global")
                    self.arrays[gname] = A
                    env["@" + gname] = (ident(gname), A)
                    gparams.append((ident(gname), A, ("garray", gname)))
                    if gname in stored:
                        gouts.append("@" + gname)
                    else:
                        self.ro_arrays.append(gname)
            else:
                if is_const:
                    decl = self.unit.var_decl(gname)
                    if "init" not in decl:
                        raise Untranslatable(f"constant `{gname}` has no initialiser")
                    self.gconsts[gname] = (self.const_int(decl["inner"][0], gt), gt)
                else:
                    self.gcells[gname] = gt
                    env["*" + gname] = (ident(gname), gt)
                    gparams.append((ident(gname), gt, ("gcell", gname)))
                    if gname in stored:
                        gouts.append("*" + gname)
        self.outs = outs_params + gouts
        self.collect_paths(body)
        self.all_paths = list(self.paths)
        self.lean_params = list(gparams)
        for i, p in enumerate(self.cparams):
            if p["kind"] == "scalar":
                self.lean_params.append((ident(p["name"]), p["t"], ("scalar", i)))
            elif p["kind"] == "array":
                self.lean_params.append((ident(p["name"]), self.arrays[p["name"]], ("array", i)))
            elif p["kind"] == "cell":
                self.lean_params.append((ident(p["name"]), p["elem"], ("cell", i)))
            elif p["kind"] == "end":
                self.lean_params.append((ident(p["name"]), p["t"], ("end", i)))
            elif p["kind"] == "struct3":
                self.lean_params += self.struct_lean_params3(i, p)
            elif p["kind"] == "dropped":
                pass
            else:
                # the access paths of one pointer parameter in alphabetical order: the Lean signature then does not
                # depend on the order in which the C expression happens to mention the fields
                for path, t in sorted(self.all_paths, key=lambda pt: pt[0]):
                    if path[0] == p["name"]:
                        self.lean_params.append((ident("_".join(path)), t, ("path", i, path[1:])))
        if self.cfg["stage"] == 3:                          # stage 3: indeterminate local arrays handed to callees
            for gn, (gt_, gdims) in self.find_ghost_arrays(body):
                self.ghosts[gn] = (gt_, gdims)
                self.arrays[gn + "_indet"] = ARR(gt_, gdims, writable=False, kind="ghost")
                self.ro_arrays.append(gn + "_indet")        # handed unchanged to every helper definition
                self.lean_params.append((ident(gn + "_indet"), self.arrays[gn + "_indet"], ("ghost", gn)))
        names = [p for p, _, _ in self.lean_params]
        if len(set(names)) != len(names):
            raise Untranslatable("parameter / access-path names collide: " + " ".join(names))
        self.scope = [(p, t) for p, t, _ in self.lean_params]
        self.out_desc = []
        for key in self.outs:
            nm = key[1:]
            if self.cfg["stage"] == 3 and self.out_desc3(key) is not None:
                self.out_desc.append(self.out_desc3(key))
                continue
            idx = [i for i, p in enumerate(self.cparams) if p["name"] == nm and p["kind"] in ("array", "cell")]
            if idx:
                origin = ("array" if key[0] == "@" else "cell", idx[0])
            else:
                origin = ("garray" if key[0] == "@" else "gcell", nm)
            self.out_desc.append(dict(name=nm, t=self.key_type(key), origin=origin))

        def fell_off(env2):
            if self.ret is None:
                return self.mkret(None, env2), "true"
            raise Untranslatable("control reaches the end of the function without a return")
        V, D = self.stmts([body], env, fell_off)
        if [p for p, _ in self.all_paths] != [p for p, _ in self.paths]:
            raise Untranslatable("internal: access paths found late")
        shape = [f"({ident(g)}.length == {self.arrays[g].total()})" for g in sorted(self.arrays)
                 if self.arrays[g].kind == "global"]
        D = dand(shape + [D])
        ps = " ".join(f"({p} : {t.lean()})" for p, t, _ in self.lean_params)
        ps = ps + " " if ps else ""
        text = "\n".join(self.unit.pending_tables) + ("\n" if self.unit.pending_tables else "") + "".join(self.defs)
        self.unit.pending_tables = []
        text += (f"/-- `{self.cfg['cname']}` — {self.cfg['file']}:{self.line}, sha256(source text)[:16] = {self.sha} -/\n"
                 f"def {self.name} {ps}: {self.ret_lean()} :=\n  {V}\n\n"
                 f"/-- no undefined behaviour is reached by `{self.cfg['cname']}` on these arguments -/\n"
                 f"def {self.name}_defined {ps}: Bool :=\n  {D}\n")
        return text


# ==================================================================================================== stage 3
# ---- BEGIN stage 3 (cfun3): functions that read and write a struct through a pointer (notes/NOTES_cfun3.md)
#
# A struct type is a generated Lean `structure` with exactly the fields the translated functions touch; a pointer-to-
# struct parameter `p` is a Lean parameter of that type and (unless `const`) a component of the result.  Inside a
# function every leaf field `p->a.b` is a state variable of its own (env key `%p.a.b`; array fields `@p.a.b`), so that
# loops, ifs and helper definitions treat fields exactly like locals; the struct is re-assembled where it leaves the
# function (return, call of another translated function).  A pointer field is a `Nat` offset into ONE array that
# travels separately (an implicit array parameter `p_f`, or the array parameter named by `fieldbase`).

class PF:
    """type of a pointer FIELD of a struct: pointee integer type, constness of the pointee"""
    is_bool, signed, w = False, False, 64

    def __init__(self, elem, const):
        self.elem, self.const = elem, const

    def lean(self):
        return "Nat"

    def __eq__(self, o):
        return isinstance(o, PF) and self.elem == o.elem and self.const == o.const


class AF:
    """type of a fixed-size integer array FIELD of a struct"""
    is_bool, signed = False, False

    def __init__(self, elem, dims):
        self.elem, self.dims = elem, dims

    def total(self):
        n = 1
        for d_ in self.dims:
            n *= d_
        return n

    def lean(self):
        return "List UInt8" if self.elem.w == 8 else f"List (BitVec {self.elem.w})"

    def __eq__(self, o):
        return isinstance(o, AF) and self.elem == o.elem and self.dims == o.dims


class STRUCT:
    """a C struct type seen through the fields the translated functions touch: `fields` = [(name, T | PF | AF | STRUCT)]
    in record-layout order"""
    is_bool, signed = False, False

    def __init__(self, name):
        self.name, self.fields, self.emitted, self.order = name, [], False, None

    def lean(self):
        return self.name

    def __eq__(self, o):
        return isinstance(o, STRUCT) and self.name == o.name

    def field(self, f):
        for n_, t_ in self.fields:
            if n_ == f:
                return t_
        return None

    def leaves(self, prefix=()):
        """[(path tuple, T | PF | AF)] of the leaf fields, depth first in field order"""
        out = []
        for n_, t_ in self.fields:
            if isinstance(t_, STRUCT):
                out += t_.leaves(prefix + (n_,))
            else:
                out.append((prefix + (n_,), t_))
        return out

    def nleaves(self):
        return sum(t_.total() if isinstance(t_, AF) else 1 for _, t_ in self.leaves())


STRUCTS = {}           # C spelling of the struct type (typedef name) -> STRUCT
# fields that are deliberately not modelled (stores to them and statements that only serve them are skipped)
STRUCT_OPAQUE = {"thrift_decoder_t": {"error_message"}, "syn_outer_t": {"label"}}


def struct_name_of(tj, pointer, fn=None):
    """C spelling of the struct type `tj` denotes (`pointer`: tj is a pointer to it), or None.  clang does not desugar
    a pointer to a typedef name, so for pointers the test is the one of stage 1 (`Fn.struct_ptr`): the pointee is not an
    integer type, an enum or void"""
    q = strip_quals(tj.get("qualType", ""))
    if pointer:
        if not q.endswith("*") or q.count("*") != 1 or "(" in q or "[" in q:
            return None
        base = q[:-1].strip()
        if base in BASE or base.startswith("enum ") or base == "void":
            return None
        if fn is not None and fn.ptr_view(tj) is not None:
            return None
        return re.sub(r"\W+", "_", base)
    if "*" in q or "[" in q or "(" in q:
        return None
    d = strip_quals(tj.get("desugaredQualType", q))
    if not d.startswith("struct "):
        return None
    return re.sub(r"\W+", "_", q)


def strip_lv(n):
    while n.get("kind") == "ParenExpr" or (n.get("kind") in ("ImplicitCastExpr", "CStyleCastExpr") and
                                           n.get("castKind") in ("LValueToRValue", "NoOp")):
        n = n["inner"][0]
    return n


def member_chain(n):
    """`p->a.b` (p a parameter): ("p", [MemberExpr nodes outermost-last]) else None"""
    nodes = []
    while True:
        n = strip_lv(n) if nodes else n
        if n.get("kind") == "ParenExpr":
            n = n["inner"][0]
            continue
        if n.get("kind") != "MemberExpr":
            break
        nodes.append(n)
        base = strip_lv(n["inner"][0])
        if n.get("isArrow"):
            if base.get("kind") == "DeclRefExpr" and base["referencedDecl"].get("kind") == "ParmVarDecl":
                return base["referencedDecl"]["name"], list(reversed(nodes))
            return None
        n = base
    return None


def discover_structs(cfgs, asts, units):
    """first pass over ALL functions of FUNCS: which fields of which struct types are touched (stage 1/2 callees count:
    a stage-3 caller must be able to hand them the fields they read)"""
    touched = {}                                            # struct name -> {field: type json}
    params = {}                                             # struct name -> a type json of a pointer to it

    def classify(fn, tj):
        sn = struct_name_of(tj, False)
        if sn is not None:
            STRUCT_TYPES.setdefault(sn, tj)
            return STRUCTS.setdefault(sn, STRUCT(sn))
        pv = fn.ptr_view(tj)
        if pv is not None:
            q = tj.get("desugaredQualType", tj["qualType"])
            return PF(T(8, False) if pv == "void" else pv, re.search(r"\bconst\b[^*]*\*", q) is not None)
        at = fn.arr_type_of(tj)
        if at is not None:
            return AF(at[0], at[1])
        try:
            return fn.ctype(tj)
        except Untranslatable:
            return None

    for cfg in cfgs:
        a = asts[cfg["lean"]]
        fn = Fn(cfg, a, units[cfg["file"]])
        ptypes = {}
        for c in a.get("inner", []):
            if c.get("kind") == "ParmVarDecl" and "name" in c:
                sn = struct_name_of(c["type"], True, fn)
                if sn is not None:
                    ptypes[c["name"]] = sn
                    STRUCTS.setdefault(sn, STRUCT(sn))
                    STRUCT_TYPES.setdefault(sn, c["type"])
                    params.setdefault(sn, c["type"])

        def walk(n):
            if n.get("kind") == "MemberExpr":
                ch = member_chain(n)
                if ch is not None and ch[0] in ptypes:
                    S = STRUCTS[ptypes[ch[0]]]
                    for m in ch[1]:
                        if m["name"] in STRUCT_OPAQUE.get(S.name, ()):
                            break
                        ft = classify(fn, m["type"])
                        old = S.field(m["name"])
                        if old is None:
                            S.fields.append((m["name"], ft))
                        if not isinstance(ft, STRUCT):
                            break
                        S = ft
            for c in n.get("inner", []):
                if isinstance(c, dict):
                    walk(c)
        walk(a)
    return params


def order_struct_fields(S, unit, tj):
    """sort the touched fields of `S` into record-layout order, asking clang for the RecordDecl (found through the
    typedef name when the struct is only known by it)"""
    if S.order is not None:
        return
    q = strip_quals(tj.get("qualType", ""))
    q = q[:-1].strip() if q.endswith("*") else q
    d = strip_quals(tj.get("desugaredQualType", q))
    d = d[:-1].strip() if d.endswith("*") else d
    S.order = []
    tag = d[len("struct "):].strip() if d.startswith("struct ") else None
    if tag is None and re.fullmatch(r"\w+", q):
        out = run_clang(["-fsyntax-only", "-Xclang", "-ast-dump=json", "-Xclang", "-ast-dump-filter=" + q, unit.tu],
                        "typedef " + q)

        def find_tag(n):
            if isinstance(n, dict):
                if n.get("kind") == "RecordDecl" and "name" in n:
                    return n["name"]
                dd = n.get("decl")
                if isinstance(dd, dict) and dd.get("kind") == "RecordDecl" and "name" in dd:
                    return dd["name"]
                for v in list(n.get("inner", [])) + [n.get("ownedTagDecl")]:
                    r = find_tag(v)
                    if r:
                        return r
            return None
        for doc in json_docs(out):
            if doc.get("kind") == "TypedefDecl" and doc.get("name") == q:
                tag = find_tag(doc)
                if tag:
                    break
    if tag:
        out = run_clang(["-fsyntax-only", "-Xclang", "-ast-dump=json", "-Xclang", "-ast-dump-filter=" + tag, unit.tu],
                        "record layout of " + tag)
        for doc in json_docs(out):
            if doc.get("kind") == "RecordDecl" and doc.get("name") == tag and doc.get("completeDefinition"):
                S.order = [f_["name"] for f_ in doc.get("inner", []) if f_.get("kind") == "FieldDecl" and "name" in f_]
                break
    if not S.order:
        raise Untranslatable(f"cannot find the record layout of `{S.name}`")
    pos = {f_: i for i, f_ in enumerate(S.order)}
    S.fields.sort(key=lambda ft: pos.get(ft[0], len(pos)))


def lean_struct_decl(S):
    """the Lean `structure` of a C struct type, with the flattening used on the line protocol of the self-check"""
    L = [f"/-- the C struct `{S.name}`, restricted to the fields the translated functions touch (record-layout order); a pointer",
         "field is the offset into the array it points into (which travels separately), an array field is a list -/",
         f"structure {S.name} where"]
    for n_, t_ in S.fields:
        L.append(f"  {ident(n_)} : {t_.lean()}")
    L.append("deriving DecidableEq")
    L.append("")
    # leaves <-> list of numbers (self-check protocol; pointer fields travel as offsets)
    items, k = [], 0
    for n_, t_ in S.fields:
        f_ = ident(n_)
        if isinstance(t_, STRUCT):
            n = t_.nleaves()
            items.append((f_, f"{t_.name}.ofLeaves (l.drop {k})", f"s.{f_}.toLeaves"))
        elif isinstance(t_, AF):
            n = t_.total()
            conv = "UInt8.ofNat" if t_.elem.w == 8 else f"(BitVec.ofNat {t_.elem.w})"
            items.append((f_, f"((l.drop {k}).take {n}).map {conv}", f"s.{f_}.map (·.toNat)"))
        elif isinstance(t_, PF):
            n = 1
            items.append((f_, f"l.getD {k} 0", f"[s.{f_}]"))
        elif t_.is_bool:
            n = 1
            items.append((f_, f"decide (l.getD {k} 0 ≠ 0)", f"[if s.{f_} then 1 else 0]"))
        else:
            n = 1
            items.append((f_, f"BitVec.ofNat {t_.w} (l.getD {k} 0)", f"[s.{f_}.toNat]"))
        k += n
    L.append(f"/-- `{S.name}` from the list of its {k} leaf values (bit patterns; self-check protocol) -/")
    L.append(f"def {S.name}.ofLeaves (l : List Nat) : {S.name} :=")
    L.append("  { " + ",\n    ".join(f"{f_} := {a_}" for f_, a_, _ in items) + " }")
    L.append(f"def {S.name}.toLeaves (s : {S.name}) : List Nat :=")
    L.append("  " + " ++ ".join(b_ for _, _, b_ in items))
    L.append("")
    return "\n".join(L) + "\n"


class Fn3(Fn):
    """translation of one stage-3 function: everything of stages 1-2 plus struct state"""

    def __init__(self, cfg, ast, unit):
        Fn.__init__(self, cfg, ast, unit)
        self.structs3 = {}             # struct pointer parameter -> dict(S=STRUCT, const=bool, index=cparam index)
        self.leaf_t = {}               # env key of a scalar / pointer leaf -> T | PF
        self.farray_origin = {}        # implicit array name -> ("farray", cparam index, path tuple)
        self.field_arrays = {}         # leaf key -> array name the pointer leaf points into
        self.hoisted = {}              # id of a CallExpr already bound by a `match` -> E of its returned value
        self.nhoist = 0
        self.dropped = set(cfg.get("drop_params", ()))
        self.ghosts = {}               # uninitialised local array handed to a callee -> (elem T, dims): ghost parameter

    # ---- names
    def lname(self, key):
        if key[0] == "%":
            nm = key[1:].replace(".", "_")
            return ident(nm + ("_off" if isinstance(self.leaf_t.get(key), PF) else ""))
        if key[0] in "@?" and "." in key:
            return ident(key[1:].replace(".", "_") + ("_init" if key[0] == "?" else ""))
        return Fn.lname(self, key)

    def collect_paths(self, n):
        return                                              # no read-only access paths: struct fields are state

    def fuel_term(self, spec, env):
        if isinstance(spec, int):
            return str(spec)

        def sub(m):
            key = m.group(1)
            if env.get(key) is None:
                raise Untranslatable(f"fuel expression `{spec}` mentions `{key}`, which has no value at the loop")
            return env[key][0]
        return "(" + re.sub(r"\{([@*%]?[\w.]+)\}", sub, spec) + ")"

    # ---- struct parameters
    def leaf_key(self, n):
        """env key and type of the leaf field the MemberExpr `n` denotes: ("%p.a.b" | "@p.a.b", type), else None"""
        ch = member_chain(n)
        if ch is None or ch[0] not in self.structs3:
            return None
        S = self.structs3[ch[0]]["S"]
        path = [ch[0]]
        for m in ch[1]:
            if m["name"] in STRUCT_OPAQUE.get(S.name, ()):
                raise Untranslatable(f"field `{m['name']}` of `{S.name}` is declared opaque (not modelled) but is used")
            ft = S.field(m["name"])
            if ft is None:
                raise Untranslatable(f"field `{m['name']}` of `{S.name}` has a type outside the supported subset")
            path.append(m["name"])
            if isinstance(ft, STRUCT):
                S = ft
                continue
            if m is not ch[1][-1]:
                raise Untranslatable("member access below a non-struct field")
            return ("@" if isinstance(ft, AF) else "%") + ".".join(path), ft
        return "&" + ".".join(path), S                      # a nested struct as a whole

    def struct_arg(self, n):
        """a call argument of pointer-to-struct type: `p` or `&p->a`: (dotted prefix, STRUCT, const)"""
        n = strip_lv(n)
        if n.get("kind") == "DeclRefExpr" and n["referencedDecl"].get("name") in self.structs3:
            nm = n["referencedDecl"]["name"]
            return nm, self.structs3[nm]["S"], self.structs3[nm]["const"]
        if n.get("kind") == "UnaryOperator" and n.get("opcode") == "&":
            lk = self.leaf_key(n["inner"][0])
            if lk is not None and lk[0][0] == "&":
                root = lk[0][1:].split(".")[0]
                return lk[0][1:], lk[1], self.structs3[root]["const"]
        raise Untranslatable("a struct pointer passed to a callee must be a struct parameter or `&p->field`")

    def mkstruct(self, prefix, S, env):
        """the Lean term of the struct at `prefix`, assembled from the current values of its leaves"""
        parts = []
        for n_, t_ in S.fields:
            path = prefix + "." + n_
            if isinstance(t_, STRUCT):
                v = self.mkstruct(path, t_, env)
            else:
                ent = env.get(("@" if isinstance(t_, AF) else "%") + path)
                if ent is None:
                    raise Untranslatable(f"field `{path}` has no value where the struct is passed on / returned "
                                         f"(a pointer field under `fieldbase` must be assigned first)")
                v = ent[0]
            parts.append((ident(n_), v))
        whole = {v[: -len("." + f_)] for f_, v in parts if v.endswith("." + f_) and self.atomic(v)}
        if len(whole) == 1 and self.atomic(next(iter(whole))):
            x = next(iter(whole))
            changed = [(f_, v) for f_, v in parts if v != x + "." + f_]
            if not changed:
                return x                                    # every field is still the projection of one struct value
            if len(changed) < len(parts):
                return "{ " + x + " with " + ", ".join(f"{f_} := {v}" for f_, v in changed) + " }"
        return "{ " + ", ".join(f"{f_} := {v}" for f_, v in parts) + f" : {S.name} }}"

    def bind_struct(self, env, prefix, S, term, bases=None):
        """the environment after the struct at `prefix` has become the Lean value `term` (result of a callee)"""
        for path, t_ in S.leaves():
            dotted = prefix + "." + ".".join(path)
            proj = term + "." + ".".join(ident(x) for x in path)
            if isinstance(t_, AF):
                env["@" + dotted] = (proj, self.arrays[dotted])
            elif isinstance(t_, PF):
                key = "%" + dotted
                base = (bases or {}).get(path) or self.field_arrays.get(key)
                if base is None:
                    env[key] = (proj, PTR("?" + dotted, t_.elem, 1))     # never dereferenced in this function
                else:
                    if self.field_arrays.get(key) not in (None, base):
                        raise Untranslatable(f"pointer field `{dotted}` is made to point into another array by a callee")
                    env[key] = (proj, PTR(base, t_.elem, 1))
            else:
                env["%" + dotted] = (proj, t_)
        return env

    def needed_field_arrays(self, body, pname, S):
        """paths of the pointer fields of struct parameter `pname` that this function (or a callee) dereferences"""
        need = set()

        def walk(n, parent_is_assign_lhs):
            k = n.get("kind")
            if k == "MemberExpr":
                ch = member_chain(n)
                if ch is not None and ch[0] == pname and not parent_is_assign_lhs:
                    try:
                        lk = self.leaf_key(n)
                    except Untranslatable:
                        lk = None
                    if lk is not None and isinstance(lk[1], PF):
                        need.add(tuple(lk[0][1:].split(".")[1:]))
                return
            if k == "CallExpr":
                try:
                    c_ = self.callee_of(n)
                except Untranslatable:
                    c_ = None
                if isinstance(c_, dict):
                    for i, cp in enumerate(c_["cparams"]):
                        if cp.get("kind") == "struct3" and 1 + i < len(n["inner"]):
                            try:
                                prefix, _, _ = self.struct_arg(n["inner"][1 + i])
                            except Untranslatable:
                                continue
                            pre = prefix.split(".")
                            if pre[0] != pname:
                                continue
                            for fa in cp["farrays"]:
                                need.add(tuple(pre[1:]) + tuple(fa["path"]))
            inner = n.get("inner", [])
            for j, c in enumerate(inner):
                if isinstance(c, dict):
                    lhs = (k == "BinaryOperator" and n.get("opcode") == "=" and j == 0)
                    walk(c, lhs)
        walk(body, False)
        return need

    def struct_param3(self, c, sname, env, outs_params, body):
        """a pointer-to-struct parameter of a stage-3 function"""
        nm = c["name"]
        S = STRUCTS.get(sname)
        if S is None or not S.fields:
            raise Untranslatable(f"struct `{sname}`: no supported field is touched by the translated functions")
        q = c["type"].get("desugaredQualType", c["type"]["qualType"])
        const = re.search(r"\bconst\b[^*]*\*", q) is not None
        idx = len(self.cparams)
        self.structs3[nm] = dict(S=S, const=const, index=idx)
        order_struct_fields_rec(S, self.unit, c["type"])
        need = self.needed_field_arrays(body, nm, S)
        farrays, fieldbase = [], {}
        for path, t_ in S.leaves():
            dotted = nm + "." + ".".join(path)
            proj = ident(nm) + "." + ".".join(ident(x) for x in path)
            if isinstance(t_, AF):
                A = ARR(t_.elem, t_.dims, writable=not const, kind="field")
                self.arrays[dotted] = A
                env["@" + dotted] = (proj, A)
            elif isinstance(t_, PF):
                key = "%" + dotted
                self.leaf_t[key] = t_
                fb = self.cfg.get("fieldbase", {}).get(dotted)
                if fb is not None:
                    fieldbase[path] = fb
                    self.field_arrays[key] = fb
                    env[key] = None                          # must be assigned (from the array parameter) before use
                elif path in need:
                    aname = dotted.replace(".", "_")
                    A = ARR(t_.elem, None, writable=not t_.const and not const, kind="param")
                    self.arrays[aname] = A
                    self.field_arrays[key] = aname
                    env["@" + aname] = (ident(aname), A)
                    env[key] = (proj, PTR(aname, t_.elem, 1))
                    if A.writable:
                        pass
                    else:
                        self.ro_arrays.append(aname)
                    self.farray_origin[aname] = ("farray", idx, path)
                    farrays.append(dict(path=path, name=aname, A=A))
                else:
                    env[key] = (proj, PTR("?" + dotted, t_.elem, 1))
            else:
                self.leaf_t["%" + dotted] = t_
                env["%" + dotted] = (proj, t_)
        if not const:
            outs_params.append("&" + nm)
        for fa in farrays:
            if fa["A"].writable:
                outs_params.append("@" + fa["name"])
        cstruct = strip_quals(c["type"]["qualType"])
        cstruct = cstruct[:-1].strip() if cstruct.endswith("*") else cstruct
        self.cparams.append(dict(name=nm, struct=sname, t=None, ctype=c["type"]["qualType"], kind="struct3", S=S,
                                 const=const, farrays=farrays, fieldbase=fieldbase, cstruct=cstruct))

    def late_fieldbase(self):
        """`fieldbase` names an array parameter that may come after the struct parameter: resolve after all parameters"""
        for p in self.cparams:
            if p.get("kind") != "struct3":
                continue
            for path, fb in list(p["fieldbase"].items()):
                if fb not in self.arrays:
                    raise Untranslatable(f"fieldbase: `{fb}` is not an array parameter")
                j = [i for i, q in enumerate(self.cparams) if q["name"] == fb and q.get("kind") == "array"]
                if not j:
                    raise Untranslatable(f"fieldbase: `{fb}` is not an array parameter")
                p["fieldbase"][path] = j[0]

    def struct_lean_params3(self, i, p):
        out = [(ident(p["name"]), p["S"], ("struct3", i))]
        for fa in p["farrays"]:
            out.append((ident(fa["name"]), fa["A"], ("farray", i, fa["path"])))
        return out

    # ---- result
    def key_type(self, key):
        if key[0] == "&":
            return self.structs3[key[1:]]["S"]
        if key[0] == "@" and key[1:] in self.arrays:
            return self.arrays[key[1:]]
        return Fn.key_type(self, key)

    def mkret(self, e, env):
        comps = [] if self.ret is None else [e.v]
        for key in self.outs:
            if key[0] == "&":
                comps.append(self.mkstruct(key[1:], self.structs3[key[1:]]["S"], env))
                continue
            if env.get(key) is None:
                raise Untranslatable(f"internal: `{key}` has no value at a return")
            comps.append(env[key][0])
        if not comps:
            return "()"
        return comps[0] if len(comps) == 1 else "(" + ", ".join(comps) + ")"

    def out_desc3(self, key):
        nm = key[1:]
        if key[0] == "&":
            return dict(name=nm, t=self.structs3[nm]["S"], origin=("struct3", self.structs3[nm]["index"]))
        if nm in self.farray_origin:
            return dict(name=nm, t=self.arrays[nm], origin=self.farray_origin[nm])
        return None

    # ---- expressions
    def expr(self, n, env):
        k = n.get("kind")
        if k == "CallExpr" and n.get("id") in self.hoisted:
            return self.hoisted[n["id"]]
        if k == "MemberExpr":
            lk = self.leaf_key(n)
            if lk is None:
                raise Untranslatable("`->` on something that is not a struct parameter")
            key, ft = lk
            if key[0] != "%" or isinstance(ft, PF):
                raise Untranslatable(f"field `{key[1:]}` used as an integer value")
            ent = env.get(key)
            if ent is None:
                raise Untranslatable(f"field `{key[1:]}` is read before it is assigned")
            return E(ent[0], ent[1])
        return Fn.expr(self, n, env)

    def pexpr(self, n, env):
        if n.get("kind") == "MemberExpr":
            lk = self.leaf_key(n)
            if lk is None or not isinstance(lk[1], PF):
                raise Untranslatable("member used as a pointer is not a pointer field of a struct parameter")
            ent = env.get(lk[0])
            if ent is None:
                raise Untranslatable(f"pointer field `{lk[0][1:]}` is read before it is assigned")
            if ent[1].base.startswith("?"):
                raise Untranslatable(f"internal: pointer field `{lk[0][1:]}` is dereferenced but has no array")
            return E(ent[0], ent[1])
        return Fn.pexpr(self, n, env)

    def arrloc(self, a, env):
        if a.get("kind") == "MemberExpr":
            lk = self.leaf_key(a)
            if lk is None or not isinstance(lk[1], AF):
                raise Untranslatable("member used as an array is not an array field of a struct parameter")
            return lk[0][1:], "0", list(lk[1].dims), lk[1].elem, []
        return Fn.arrloc(self, a, env)

    def lvalue(self, n, env):
        if n.get("kind") == "MemberExpr":
            lk = self.leaf_key(n)
            if lk is None or lk[0][0] != "%" or isinstance(lk[1], PF):
                raise Untranslatable("member lvalue that is not an integer field of a struct parameter")
            return dict(kind="cell", key=lk[0], t=lk[1])
        return Fn.lvalue(self, n, env)

    def field_writable(self, key):
        root = key[1:].split(".")[0]
        return not self.structs3[root]["const"]

    def write_loc(self, loc, e, env):
        if loc["kind"] == "cell" and loc["key"][0] == "%":
            if not e.t == loc["t"]:
                raise Untranslatable(f"value of type {e.t!r} stored into a field of type {loc['t']!r}")
            if not self.field_writable(loc["key"]):
                raise Untranslatable(f"store through a pointer to const struct (`{loc['key'][1:]}`)")
            env = dict(env)
            env[loc["key"]] = (self.spill(e.v, e.t), e.t)
            return env, list(e.d)
        return Fn.write_loc(self, loc, e, env)

    def incdec(self, n, env):
        tgt = n["inner"][0]
        while tgt.get("kind") == "ParenExpr":
            tgt = tgt["inner"][0]
        if tgt.get("kind") != "MemberExpr":
            return Fn.incdec(self, n, env)
        lk = self.leaf_key(tgt)
        if lk is None or lk[0][0] != "%":
            raise Untranslatable("++/-- on a member that is not a scalar field of a struct parameter")
        key, t = lk
        if env.get(key) is None:
            raise Untranslatable(f"++/-- on field `{key[1:]}`, which has no value")
        if not self.field_writable(key):
            raise Untranslatable(f"++/-- through a pointer to const struct (`{key[1:]}`)")
        if any(q[0] == key for q in self.pending):
            raise Untranslatable(f"`{key[1:]}` is modified twice in one expression")
        v, vt = env[key]
        up = n["opcode"] == "++"
        d = []
        if isinstance(vt, PTR):
            new, d = self.padd(v, E("1", BASE["int"], lit=1), vt.scale, 1 if up else -1)
        else:
            if vt.is_bool:
                raise Untranslatable("++/-- on _Bool")
            if vt.signed and vt.w >= 32:
                d.append(f"({self.CS}{'sAddOk' if up else 'sSubOk'} {v} 1#{vt.w})")
            new = f"({v} {'+' if up else '-'} 1#{vt.w})"
        self.pending.append((key, new, vt))
        return E(v if n.get("isPostfix") else new, vt, d)

    def count_refs(self, n, name):
        if name[0] != "%":
            return Fn.count_refs(self, n, name)
        c = 0
        if n.get("kind") == "MemberExpr":
            try:
                lk = self.leaf_key(n)
            except Untranslatable:
                lk = None
            if lk is not None:
                return 1 if lk[0] == name else 0
        if n.get("kind") == "CallExpr":
            # a callee that receives the struct may read / write the field
            for a in n.get("inner", [])[1:]:
                try:
                    prefix, _, _ = self.struct_arg(a)
                except Untranslatable:
                    continue
                if name[1:] == prefix or name[1:].startswith(prefix + "."):
                    c += 1
        for ch in n.get("inner", []):
            if isinstance(ch, dict):
                c += self.count_refs(ch, name)
        return c

    # ---- statements on fields
    def assign0(self, s, env):
        k = s.get("kind")
        if k in ("BinaryOperator", "CompoundAssignOperator", "UnaryOperator") and s.get("inner"):
            lhs = s["inner"][0]
            while lhs.get("kind") == "ParenExpr":
                lhs = lhs["inner"][0]
            if lhs.get("kind") == "MemberExpr" and (k != "BinaryOperator" or s["opcode"] == "=") and \
                    (k != "UnaryOperator" or s["opcode"] in ("++", "--")):
                lk = self.leaf_key(lhs)
                if lk is None:
                    raise Untranslatable("assignment through `->` on something that is not a struct parameter")
                if isinstance(lk[1], PF):
                    return self.assign_ptr_field(s, lk[0], lk[1], env)
                if lk[0][0] != "%":
                    raise Untranslatable(f"assignment to the whole of `{lk[0][1:]}`")
                return self.store(s, lhs, env)
        if k == "CallExpr":
            f = s["inner"][0]
            while f.get("kind") in ("ImplicitCastExpr", "ParenExpr"):
                f = f["inner"][0]
            if f.get("kind") == "DeclRefExpr" and f["referencedDecl"].get("name") in ("memcpy", "__builtin_memcpy"):
                return self.memcpy3(s, env)
            if f.get("kind") == "DeclRefExpr" and f["referencedDecl"].get("name") in ("memset", "__builtin_memset"):
                a0 = strip_lv(s["inner"][1]) if len(s["inner"]) > 1 else {}
                while a0.get("kind") in ("ImplicitCastExpr", "CStyleCastExpr", "ParenExpr"):
                    a0 = a0["inner"][0]
                if a0.get("kind") == "DeclRefExpr" and a0["referencedDecl"].get("name") in self.structs3 and len(s["inner"]) == 4:
                    return self.memset_struct3(s, env, a0["referencedDecl"]["name"])
                return self.memset3(s, env)
        return Fn.assign0(self, s, env)

    def assign_ptr_field(self, s, key, ft, env):
        """`p->f = q + k`, `p->f += k`, `p->f++` on a pointer field"""
        if not self.field_writable(key):
            raise Untranslatable(f"store through a pointer to const struct (`{key[1:]}`)")
        k = s.get("kind")
        cur = env.get(key)
        base = self.field_arrays.get(key)
        if k == "BinaryOperator" and s["opcode"] == "=":
            pe = self.review(self.pexpr(s["inner"][1], env), ft.elem)
            if base is None or pe.t.base != base:
                raise Untranslatable(f"pointer field `{key[1:]}` is made to point into `{pe.t.base}`: declare "
                                     f"fieldbase={{\"{key[1:]}\": \"{pe.t.base}\"}} for this function")
            env = dict(env)
            env[key] = (pe.v, pe.t)
            return env, pe.d
        if cur is None:
            raise Untranslatable(f"pointer field `{key[1:]}` is used before it is assigned")
        v, t = cur
        if k == "CompoundAssignOperator" and s["opcode"] in ("+=", "-="):
            ie = self.expr(s["inner"][1], env)
            off, d = self.padd(v, ie, t.scale, 1 if s["opcode"] == "+=" else -1)
            env = dict(env)
            env[key] = (off, t)
            return env, ie.d + d
        if k == "UnaryOperator" and s["opcode"] in ("++", "--"):
            off, d = self.padd(v, E("1", BASE["int"], lit=1), t.scale, 1 if s["opcode"] == "++" else -1)
            env = dict(env)
            env[key] = (off, t)
            return env, d
        raise Untranslatable(f"operation on pointer field `{key[1:]}`")

    # ---- memcpy with a run-time length (item 3 of the stage-3 brief)
    def memcpy3(self, n, env):
        """`memcpy(dst + off, src + off2, n)` between two modelled byte arrays (run-time n, non-overlapping: two
        different arrays), `memcpy(&local, p, n)` with run-time `n <= sizeof local` into an integer local (little-endian
        partial load: the low n bytes are replaced); the constant-size forms of stage 2 go to `memcpy_stmt`"""
        args = n["inner"][1:]
        if len(args) != 3:
            raise Untranslatable("memcpy with other than three arguments")
        if self.const_size(args[2], env) is not None:
            try:
                snap = self.snapshot()
                return Fn.memcpy_stmt(self, n, env)
            except Untranslatable:
                self.restore(snap)
        ne = self.expr(args[2], env)
        if ne.t.is_bool:
            raise Untranslatable("memcpy whose length is a _Bool")
        nn = (str(ne.lit) if ne.lit is not None and ne.lit >= 0 else
              (f"{ne.v}.toNat" if not ne.t.signed else f"{ne.v}.toInt.toNat"))
        dn = list(ne.d) + ([f"(!{ne.v}.msb)"] if ne.t.signed and ne.lit is None else [])
        dst = args[0]
        while dst.get("kind") in ("ParenExpr", "ImplicitCastExpr", "CStyleCastExpr"):
            if dst.get("kind") != "ParenExpr" and dst.get("castKind") not in ("BitCast", "NoOp"):
                break
            dst = dst["inner"][0]
        pe_s = self.pexpr(args[1], env)
        As = self.arrays[pe_s.t.base]
        if As.elem.w != 8 or pe_s.t.scale != 1:
            raise Untranslatable("memcpy from an array that is not a byte array")
        if "?" + pe_s.t.base in env:
            raise Untranslatable("memcpy from a local array that may be uninitialised")
        a_s = self.arr_term(pe_s.t.base, env)
        if dst.get("kind") == "UnaryOperator" and dst.get("opcode") == "&":
            tgt = dst["inner"][0]
            while tgt.get("kind") == "ParenExpr":
                tgt = tgt["inner"][0]
            if tgt.get("kind") != "DeclRefExpr" or tgt["referencedDecl"].get("name") not in env:
                raise Untranslatable("memcpy whose destination is not the address of a scalar local")
            nm = tgt["referencedDecl"]["name"]
            t = self.local_types.get(nm) or (env[nm][1] if env[nm] else None)
            if not isinstance(t, T) or t.is_bool:
                raise Untranslatable(f"memcpy into `{nm}`, which is not an integer local")
            if env.get(nm) is None:
                raise Untranslatable(f"memcpy of a run-time length into `{nm}`, which is unassigned (its other bytes "
                                     f"would be indeterminate)")
            v = f"({self.CS}ldPartLE {env[nm][0]} {a_s} {pe_s.v} {nn})"
            d = pe_s.d + dn + [f"(decide ({nn} ≤ {t.w // 8}))", f"({self.CS}inb {a_s} {pe_s.v} {nn})"]
            return self.bind(env, nm, E(v, t), t), d
        pe_d = self.pexpr(args[0], env)
        Ad = self.arrays[pe_d.t.base]
        if Ad.elem.w != 8 or pe_d.t.scale != 1 or not Ad.writable:
            raise Untranslatable("memcpy into an array that is not a writable byte array")
        if pe_d.t.base == pe_s.t.base:
            raise Untranslatable("memcpy within one array (possible overlap)")
        a_d = self.arr_term(pe_d.t.base, env)
        loc = dict(kind="mem", base=pe_d.t.base, off=pe_d.v, t=Ad.elem, scale=1, d=[], static=False, cast=False)
        if Ad.dims is not None:
            db = [f"(decide ({self.nat_add(pe_d.v, nn)} ≤ {Ad.total()}))"]
        else:
            db = [f"({self.CS}inb {a_d} {pe_d.v} {nn})"]
        env = dict(env)
        env["@" + pe_d.t.base] = (f"({self.CS}copyInto {a_d} {pe_d.v} {a_s} {pe_s.v} {nn})", Ad)
        init = env.get("?" + pe_d.t.base)
        if init is not None:
            env["?" + pe_d.t.base] = (f"({self.CS}fill {init[0]} {pe_d.v} {nn} true)", init[1])
        return env, pe_d.d + pe_s.d + dn + db + [f"({self.CS}inb {a_s} {pe_s.v} {nn})"]

    def memset_struct3(self, n, env, pname):
        """`memset(p, 0, sizeof(*p))` on a struct parameter: every integer field 0, every `bool` false, every array field
        zero-filled; a pointer field becomes NULL, i.e. it has no value until the function assigns it"""
        args = n["inner"][1:]
        info = self.structs3[pname]
        if info["const"]:
            raise Untranslatable("memset through a pointer to const struct")
        val = self.expr(args[1], env)
        sz = args[2]
        while sz.get("kind") in ("ParenExpr", "ImplicitCastExpr", "CStyleCastExpr"):
            sz = sz["inner"][0]
        whole = False
        if sz.get("kind") == "UnaryExprOrTypeTraitExpr" and sz.get("name") == "sizeof":
            if "argType" in sz:
                whole = strip_quals(sz["argType"]["qualType"]) == self.cparams[info["index"]]["cstruct"]
            else:
                x = sz["inner"][0]
                while x.get("kind") == "ParenExpr":
                    x = x["inner"][0]
                if x.get("kind") == "UnaryOperator" and x.get("opcode") == "*":
                    y = strip_lv(x["inner"][0])
                    whole = y.get("kind") == "DeclRefExpr" and y["referencedDecl"].get("name") == pname
        if val.lit != 0 or not whole:
            raise Untranslatable(f"memset of struct `{pname}` that is not `memset({pname}, 0, sizeof(*{pname}))`")
        env = dict(env)
        for path, t_ in info["S"].leaves():
            dotted = pname + "." + ".".join(path)
            if isinstance(t_, AF):
                zero = "0" if t_.elem.w == 8 else f"0#{t_.elem.w}"
                env["@" + dotted] = (f"(List.replicate {t_.total()} {zero})", self.arrays[dotted])
            elif isinstance(t_, PF):
                env["%" + dotted] = None
            elif t_.is_bool:
                env["%" + dotted] = ("false", t_)
            else:
                env["%" + dotted] = (f"0#{t_.w}", t_)
        return env, []

    def memset3(self, n, env):
        """`memset(p, c, n)` with a run-time `n` on a writable array (c a byte literal, 0 for wider elements): `n` must be
        a multiple of the element size"""
        args = n["inner"][1:]
        if len(args) != 3:
            raise Untranslatable("memset with other than three arguments")
        if self.const_size(args[2], env) is not None:
            return Fn.memset_stmt(self, n, env)
        pe = self.pexpr(args[0], env)
        val, ne = self.expr(args[1], env), self.expr(args[2], env)
        A = self.arrays[pe.t.base]
        eb = A.elem.w // 8
        if not A.writable or pe.t.scale != 1:
            raise Untranslatable("memset of a read-only array / through a widening view")
        if val.lit is None or (val.lit != 0 and eb != 1) or not (0 <= val.lit < 256):
            raise Untranslatable("memset with a value other than a byte literal (0 for wider elements)")
        if ne.t.is_bool or ne.t.signed:
            raise Untranslatable("memset whose length is not an unsigned integer")
        cnt = f"{ne.v}.toNat" if eb == 1 else f"({ne.v}.toNat / {eb})"
        d = pe.d + ne.d + ([] if eb == 1 else [f"({ne.v}.toNat % {eb} == 0)"])
        a = self.arr_term(pe.t.base, env)
        if A.dims is not None:
            d.append(f"(decide ({self.nat_add(pe.v, cnt)} ≤ {A.total()}))")
        else:
            d.append(f"({self.CS}inb {a} {pe.v} {cnt})")
        env = dict(env)
        env["@" + pe.t.base] = (f"({self.CS}fill {a} {pe.v} {cnt} {val.lit if eb == 1 else f'{val.lit}#{A.elem.w}'})", A)
        init = env.get("?" + pe.t.base)
        if init is not None:
            env["?" + pe.t.base] = (f"({self.CS}fill {init[0]} {pe.v} {cnt} true)", init[1])
        return env, d

    def find_ghost_arrays(self, body):
        """uninitialised local arrays whose address is handed to a translated callee: their content before the call is
        indeterminate but, the address being taken, reading it is not undefined - it is modelled as an extra (ghost)
        parameter `<name>_indet` of the Lean function, over which the link theorems quantify"""
        decls, passed = {}, set()

        def walk(n, in_call):
            k = n.get("kind")
            if k == "VarDecl" and "init" not in n and self.arr_type_of(n.get("type", {})) is not None:
                decls[n["name"]] = self.arr_type_of(n["type"])
            if k == "CallExpr":
                try:
                    c_ = self.callee_of(n)
                except Untranslatable:
                    c_ = None
                in_call = in_call or isinstance(c_, dict)
            if k == "DeclRefExpr" and in_call and n.get("referencedDecl", {}).get("kind") == "VarDecl":
                passed.add(n["referencedDecl"]["name"])
            for c in n.get("inner", []):
                if isinstance(c, dict):
                    walk(c, in_call)
        walk(body, False)
        return [(nm, decls[nm]) for nm in decls if nm in passed]

    def local_array(self, v, at, env):
        nm = v["name"]
        if nm in self.ghosts and "init" not in v:
            t, dims = at
            A = ARR(t, dims, writable=True, kind="local")
            self.arrays[nm] = A
            env = dict(env)
            env["@" + nm] = (ident(nm + "_indet"), A)
            return env, [f"({ident(nm + '_indet')}.length == {A.total()})"]
        return Fn.local_array(self, v, at, env)

    # ---- calls
    def callee_struct_prefix(self, callee, i, arg):
        prefix, S, const = self.struct_arg(arg)
        cp = callee["cparams"][i]
        if S.name != cp["struct"]:
            raise Untranslatable(f"call to {callee['cname']}: argument {i} is a `{S.name}`, not a `{cp['struct']}`")
        return prefix, S, const

    def call_parts(self, n, env):
        """as `Fn.call_parts`, plus struct arguments (handed to stage-1 callees path by path, to stage-3 callees as a
        whole with the arrays their pointer fields point into), dropped parameters, uninitialised `&local` cells"""
        callee = self.callee_of(n)
        args = n["inner"][1:]
        if isinstance(callee, str):
            raise Untranslatable("builtin in statement position")
        if len(args) != len(callee["cparams"]):
            raise Untranslatable(f"call to {callee['cname']}: wrong number of arguments")
        d, actual, dests = [], [], {}
        scalar, prefixes = {}, {}
        for i, a in enumerate(args):
            cp = callee["cparams"][i]
            kind = cp.get("kind", "struct" if cp["struct"] is not None else "scalar")
            if kind == "end":
                raise Untranslatable(f"call to {callee['cname']}, which takes a (p, end) pointer pair")
            if kind == "dropped":
                x = strip_lv(a)
                while x.get("kind") in ("ImplicitCastExpr", "CStyleCastExpr", "ParenExpr"):
                    x = x["inner"][0]
                if x.get("kind") not in ("StringLiteral", "IntegerLiteral") and not (
                        x.get("kind") == "DeclRefExpr" and x["referencedDecl"].get("name") in self.dropped):
                    raise Untranslatable(f"call to {callee['cname']}: argument {i} (an unmodelled parameter) is not a literal")
            elif kind == "scalar":
                e = self.expr(a, env)
                if not e.t == cp["t"]:
                    raise Untranslatable(f"call to {callee['cname']}: argument {i} has type {e.t}")
                scalar[i] = e
                d += e.d
            elif kind == "array":
                pe = self.pexpr(a, env)
                A = self.arrays[pe.t.base]
                if pe.t.scale != 1 or A.elem.w != cp["elem"].w:
                    raise Untranslatable(f"call to {callee['cname']}: argument {i} views `{pe.t.base}` through another type")
                if cp["writable"] and not A.writable:
                    raise Untranslatable(f"call to {callee['cname']}: read-only array `{pe.t.base}` passed for writing")
                if "?" + pe.t.base in env:
                    raise Untranslatable(f"call to {callee['cname']}: an uninitialised local array is passed")
                d += pe.d
                a0 = self.arr_term(pe.t.base, env)
                scalar[i] = E(a0 if pe.v == "0" else f"(List.drop {pe.v} {a0})", A)
                dests[("array", i)] = ("arr", pe.t.base, pe.v)
                prefixes[i] = (pe.t.base, pe.v)
            elif kind == "cell":
                x = strip_lv(a)
                if x.get("kind") == "DeclRefExpr" and x["referencedDecl"].get("name") in self.cells:
                    key = "*" + x["referencedDecl"]["name"]
                elif x.get("kind") == "UnaryOperator" and x.get("opcode") == "&" and \
                        strip_lv(x["inner"][0]).get("kind") == "DeclRefExpr" and \
                        strip_lv(x["inner"][0])["referencedDecl"].get("name") in env:
                    key = strip_lv(x["inner"][0])["referencedDecl"]["name"]
                elif x.get("kind") == "UnaryOperator" and x.get("opcode") == "&" and \
                        strip_lv(x["inner"][0]).get("kind") == "MemberExpr":
                    lk = self.leaf_key(strip_lv(x["inner"][0]))
                    if lk is None or lk[0][0] != "%" or isinstance(lk[1], PF):
                        raise Untranslatable(f"call to {callee['cname']}: argument {i} must be the address of an integer field")
                    key = lk[0]
                else:
                    raise Untranslatable(f"call to {callee['cname']}: argument {i} must be `&local`, `&p->field` or an out-parameter")
                if env.get(key) is None:
                    # ASSUMPTION (stated in the part): an unassigned local whose address goes to an out-parameter of the
                    # callee is passed as 0 and counts as assigned afterwards
                    lt = self.local_types.get(key)
                    if lt is None or not lt == cp["elem"] or not cp.get("writable"):
                        raise Untranslatable(f"call to {callee['cname']}: `{key}` is unassigned or of another type")
                    scalar[i] = lit_e(0, lt)
                else:
                    if not env[key][1] == cp["elem"]:
                        raise Untranslatable(f"call to {callee['cname']}: `{key}` is of another type")
                    scalar[i] = E(env[key][0], env[key][1])
                dests[("cell", i)] = ("var", key)
            elif kind == "struct":
                prefixes[i] = self.callee_struct_prefix(callee, i, a)
            elif kind == "struct3":
                prefix, S, const = self.callee_struct_prefix(callee, i, a)
                if const and not cp["const"]:
                    raise Untranslatable(f"call to {callee['cname']}: a pointer to const struct is passed for writing")
                prefixes[i] = (prefix, S, const)
                dests[("struct3", i)] = ("struct3", prefix, S, i)
            else:
                raise Untranslatable(f"call to {callee['cname']}: parameter kind {kind}")
        for (pname, pt, origin) in callee["lean_params"]:
            if origin[0] in ("scalar", "array", "cell"):
                actual.append(scalar[origin[1]].v)
            elif origin[0] == "path":
                prefix = prefixes[origin[1]][0]
                key = "%" + prefix + "." + ".".join(origin[2])
                ent = env.get(key)
                if ent is None or not ent[1] == pt:
                    raise Untranslatable(f"call to {callee['cname']}: field `{key[1:]}` has no value / another type")
                actual.append(ent[0])
            elif origin[0] == "struct3":
                prefix, S, _ = prefixes[origin[1]]
                actual.append(self.mkstruct(prefix, S, env))
            elif origin[0] == "farray":
                prefix, S, _ = prefixes[origin[1]]
                key = "%" + prefix + "." + ".".join(origin[2])
                base = self.field_arrays.get(key)
                if base is None or env.get("@" + base) is None:
                    raise Untranslatable(f"call to {callee['cname']}: the array of pointer field `{key[1:]}` is not in scope")
                if pt.writable and not self.arrays[base].writable:
                    raise Untranslatable(f"call to {callee['cname']}: read-only array `{base}` passed for writing")
                actual.append(env["@" + base][0])
                dests[origin] = ("var", "@" + base)
            else:                                             # a global the callee reads / writes
                key = ("@" if origin[0] == "garray" else "*") + origin[1]
                if env.get(key) is None:
                    raise Untranslatable(f"call to {callee['cname']}: global `{origin[1]}` is not part of this function's state")
                actual.append(env[key][0])
                dests[(origin[0], origin[1])] = ("var", key)
        # a callee that assigns a pointer field from one of its array parameters: where that field points afterwards
        for i, cp in enumerate(callee["cparams"]):
            if cp.get("kind") == "struct3" and cp.get("fieldbase"):
                bases = {}
                for path, j in cp["fieldbase"].items():
                    if j not in prefixes or not isinstance(prefixes[j], tuple) or len(prefixes[j]) != 2:
                        raise Untranslatable(f"call to {callee['cname']}: cannot tell where field `{'.'.join(path)}` points")
                    if prefixes[j][1] != "0":
                        raise Untranslatable(f"call to {callee['cname']}: a pointer field is set to the middle of an array")
                    bases[path] = prefixes[j][0]
                dests[("struct3", i)] = dests[("struct3", i)] + (bases,)
        app = " ".join(actual)
        d.append(f"({callee['lean']}_defined {app})" if actual else f"{callee['lean']}_defined")
        outs = [dests[o["origin"]] for o in callee.get("outs", [])]
        return dict(app=f"({callee['lean']} {app})" if actual else callee["lean"], d=d, callee=callee, dests=outs)

    def bind_call(self, n, env, k, target=None, target_t=None):
        parts = self.call_parts(n, env)
        callee = parts["callee"]
        self.nbind += 1
        names, env2 = [], dict(env)
        saved_scope = self.scope
        add = []
        if callee["ret"] is not None:
            rn = f"r__{self.nbind}"
            names.append(rn)
            add.append((rn, callee["ret"]))
            if target is not None:
                if not callee["ret"] == target_t:
                    raise Untranslatable(f"result of {callee['cname']} stored into a variable of another type")
                env2[target] = (rn, callee["ret"])
        elif target is not None:
            raise Untranslatable(f"{callee['cname']} returns nothing")
        for o, dest in zip(callee["outs"], parts["dests"]):
            cn = f"{ident(o['name'])}__{self.nbind}"
            names.append(cn)
            add.append((cn, o["t"]))
            if dest[0] == "struct3":
                prefix, S = dest[1], dest[2]
                root = prefix.split(".")[0]
                if self.structs3[root]["const"]:
                    raise Untranslatable(f"call to {callee['cname']} writes through a pointer to const struct")
                bases = dest[4] if len(dest) > 4 else None
                if bases:
                    for path, b in bases.items():
                        key = "%" + prefix + "." + ".".join(path)
                        if self.field_arrays.get(key) != b:
                            raise Untranslatable(f"call to {callee['cname']} makes `{key[1:]}` point into `{b}`: declare "
                                                 f"fieldbase={{\"{key[1:]}\": \"{b}\"}} for this function")
                self.bind_struct(env2, prefix, S, cn, bases)
            elif dest[0] == "var":
                key = dest[1]
                if key in self.outs or key[0] not in "@*" or (key[0] == "@" and self.arrays[key[1:]].kind in ("local", "field")) \
                        or key[0] == "%":
                    env2[key] = (cn, o["t"])
                else:
                    raise Untranslatable(f"call to {callee['cname']} writes `{key}`, which was not found to be written")
            else:
                _, base, off = dest
                a0 = self.arr_term(base, env)
                env2["@" + base] = (cn if off == "0" else f"({self.CS}splice {a0} {off} {cn})", self.arrays[base])
        self.scope = saved_scope + add
        try:
            V, D = k(env2)
        finally:
            self.scope = saved_scope
        pat = names[0] if len(names) == 1 else "(" + ", ".join(names) + ")"
        if not names:
            return V, dand(parts["d"] + [D])
        Vm = f"(match {parts['app']} with\n    | {pat} => {V})"
        Dm = dand(parts["d"] + ([] if D == "true" else [f"(match {parts['app']} with\n    | {pat} => {D})"]))
        return Vm, Dm

    def out_call(self, n):
        while n is not None and n.get("kind") == "ParenExpr":
            n = n["inner"][0]
        if n is not None and n.get("kind") == "CallExpr" and n.get("id") in self.hoisted:
            return None
        return Fn.out_call(self, n)

    # ---- statements: assert, opaque fields, out-calls nested in expressions
    def find_outcalls(self, n, guarded=False, acc=None):
        """[(CallExpr with out-results, it is evaluated conditionally)] inside expression `n`, in source order"""
        acc = [] if acc is None else acc
        if n.get("kind") == "CallExpr" and n.get("id") not in self.hoisted and Fn.out_call(self, n) is not None:
            acc.append((n, guarded))
        k = n.get("kind")
        for j, c in enumerate(n.get("inner", [])):
            if isinstance(c, dict):
                g = guarded or (k == "BinaryOperator" and n.get("opcode") in ("&&", "||") and j == 1) or \
                    (k == "ConditionalOperator" and j >= 1)
                self.find_outcalls(c, g, acc)
        return acc

    def hoist_ok(self, n, oc, lhs_ok=True):
        """the rest of expression `n` (without the call `oc`) neither reads nor writes state the callee may modify"""
        if n is oc:
            return True
        k = n.get("kind")
        if k in ("MemberExpr", "ArraySubscriptExpr", "CallExpr") or (k == "UnaryOperator" and n.get("opcode") in ("*", "++", "--")):
            return False
        return all(self.hoist_ok(c, oc) for c in n.get("inner", []) if isinstance(c, dict))

    def assert_cond(self, s):
        """if `s` is glibc's expansion of `assert(e)`: the node of `e`, else None"""
        found = []

        def walk(n):
            if n.get("kind") == "IfStmt" and n.get("hasElse") and len(n.get("inner", [])) == 3:
                e = n["inner"][2]
                if e.get("kind") == "CallExpr":
                    f = e["inner"][0]
                    while f.get("kind") in ("ImplicitCastExpr", "ParenExpr"):
                        f = f["inner"][0]
                    if f.get("referencedDecl", {}).get("name") == "__assert_fail":
                        found.append(n["inner"][0])
            for c in n.get("inner", []):
                if isinstance(c, dict):
                    walk(c)
        if s.get("kind") in ("ParenExpr", "BinaryOperator", "CStyleCastExpr", "ConditionalOperator"):
            walk(s)
        return found[0] if found else None

    def nonnull_test(self, c):
        """`p != NULL` / `p` for a pointer parameter p (struct, array, cell): True"""
        c = strip_lv(c)
        while c.get("kind") in ("ParenExpr", "ImplicitCastExpr") and c.get("castKind", "PointerToBoolean") in (
                "PointerToBoolean", "LValueToRValue", "NoOp"):
            c = c["inner"][0]
        names = set(self.structs3) | set(self.ptr_param_names) | set(self.cells)
        if c.get("kind") == "DeclRefExpr" and c["referencedDecl"].get("name") in names:
            return True
        if c.get("kind") == "BinaryOperator" and c.get("opcode") == "!=":
            sides = []
            for x in c["inner"]:
                while x.get("kind") in ("ParenExpr", "ImplicitCastExpr", "CStyleCastExpr"):
                    x = x["inner"][0]
                sides.append(x)
            isnull = [x.get("kind") == "IntegerLiteral" and x.get("value") == "0" for x in sides]
            isparm = [x.get("kind") == "DeclRefExpr" and x["referencedDecl"].get("name") in names for x in sides]
            return (isnull[0] and isparm[1]) or (isnull[1] and isparm[0])
        return False

    def opaque_root(self, l):
        """lvalue / pointer expression `l` lies inside an opaque field of a struct parameter"""
        while True:
            l = strip_lv(l)
            k = l.get("kind")
            if k in ("ImplicitCastExpr", "CStyleCastExpr", "ParenExpr"):
                l = l["inner"][0]
            elif k == "ArraySubscriptExpr":
                l = l["inner"][0]
            elif k == "MemberExpr":
                ch = member_chain(l)
                if ch is None or ch[0] not in self.structs3:
                    return False
                S = self.structs3[ch[0]]["S"]
                for m in ch[1]:
                    if m["name"] in STRUCT_OPAQUE.get(S.name, ()):
                        return True
                    ft = S.field(m["name"])
                    if not isinstance(ft, STRUCT):
                        return False
                    S = ft
                return False
            else:
                return False

    def only_dropped(self, n):
        k = n.get("kind")
        if k == "DeclRefExpr":
            return n["referencedDecl"].get("name") in self.dropped
        if k in ("CallExpr", "MemberExpr", "ArraySubscriptExpr") or (k == "UnaryOperator" and n.get("opcode") in ("*", "++", "--")):
            return False
        return all(self.only_dropped(c) for c in n.get("inner", []) if isinstance(c, dict))

    def is_opaque(self, s):
        """statement `s` only serves an opaque (unmodelled) field: it is skipped"""
        k = s.get("kind")
        if k == "CompoundStmt":
            return bool(s.get("inner")) and all(self.is_opaque(x) for x in s["inner"])
        if k == "CallExpr":
            f = s["inner"][0]
            while f.get("kind") in ("ImplicitCastExpr", "ParenExpr"):
                f = f["inner"][0]
            if f.get("referencedDecl", {}).get("name") in ("strncpy", "memcpy", "memset", "__builtin_strncpy", "__builtin_memcpy",
                                                          "__builtin_memset") and len(s["inner"]) >= 2:
                return self.opaque_root(s["inner"][1]) and all(self.pure_for_opaque(a) for a in s["inner"][2:])
            return False
        if k == "BinaryOperator" and s.get("opcode") == "=":
            return self.opaque_root(s["inner"][0]) and self.pure_for_opaque(s["inner"][1]) and self.pure_index(s["inner"][0])
        if k == "IfStmt" and not s.get("hasInit") and not s.get("hasVar"):
            return self.only_dropped(s["inner"][0]) and all(self.is_opaque(x) for x in s["inner"][1:])
        return False

    def pure_for_opaque(self, n):
        k = n.get("kind")
        if k == "CallExpr" or (k == "UnaryOperator" and n.get("opcode") in ("++", "--")) or \
                k in ("CompoundAssignOperator",) or (k == "BinaryOperator" and n.get("opcode") == "="):
            return False
        return all(self.pure_for_opaque(c) for c in n.get("inner", []) if isinstance(c, dict))

    def pure_index(self, l):
        return self.pure_for_opaque(l)

    def stmts(self, lst, env, k):
        lst = [s for s in lst if s and s.get("kind") != "NullStmt"]
        if not lst:
            return k(env)
        s, rest = lst[0], lst[1:]
        kind = s.get("kind")
        if self.is_opaque(s):
            return self.stmts(rest, env, k)
        ac = self.assert_cond(s)
        if ac is not None:
            if self.nonnull_test(ac):
                return self.stmts(rest, env, k)              # ASSUMPTION: pointer parameters are valid and non-NULL
            self.begin_full()
            c = self.expr(ac, env)
            env = self.end_full(ac, env)
            V, D = self.stmts(rest, env, k)
            return V, dand(c.d + [self.cond(c), D])          # a failing assert does not return: counted as not defined
        # an out-call nested inside an expression (`return (int16_t)f(dec);`, `*out = f(dec);`, `x = (T)f(dec);`,
        # `if (f(dec) != OK)`): bound first, then the statement is translated with the call replaced by its value
        region = None
        if kind == "ReturnStmt" and s.get("inner"):
            region = s["inner"][0]
            direct = self.out_call(region) is not None
        elif kind == "DeclStmt":
            inits = [v["inner"][0] for v in s["inner"] if v.get("kind") == "VarDecl" and "init" in v and v.get("inner")]
            withcalls = [x for x in inits if self.find_outcalls(x)]
            if len(withcalls) == 1 and len(s["inner"]) == 1:
                region = withcalls[0]
                direct = self.out_call(region) is not None
            elif withcalls:
                raise Untranslatable("a call with out-results in a declaration of several variables")
        elif kind == "IfStmt":
            region = s["inner"][0]
            direct = False
        elif kind in ("BinaryOperator", "CompoundAssignOperator", "UnaryOperator", "ParenExpr", "CallExpr", "CStyleCastExpr"):
            region = s
            direct = False
            if kind == "CallExpr":
                direct = self.out_call(s) is not None
            elif kind == "BinaryOperator" and s.get("opcode") == "=" and self.out_call(s["inner"][1]) is not None:
                lhs = strip_lv(s["inner"][0])
                direct = lhs.get("kind") == "DeclRefExpr" and lhs["referencedDecl"].get("name") in env and \
                    self.ptr_view(lhs["type"]) is None
        elif kind in ("WhileStmt", "DoStmt", "ForStmt"):
            cnd = s["inner"][0] if kind == "WhileStmt" else (s["inner"][1] if kind == "DoStmt" else s["inner"][2])
            if cnd and self.find_outcalls(cnd):
                raise Untranslatable("a call with out-results in a loop condition")
        if region is not None and not direct:
            ocs = self.find_outcalls(region)
            if ocs:
                if len(ocs) > 1:
                    raise Untranslatable("several calls with out-results in one expression (their order is unspecified)")
                oc, guarded = ocs[0]
                if guarded:
                    raise Untranslatable("a call with out-results under `&&`, `||` or `?:`")
                if kind == "BinaryOperator" and s.get("opcode") == "=":
                    ok = self.hoist_ok(s["inner"][1], oc) and self.pure_for_opaque(s["inner"][0])
                else:
                    ok = self.hoist_ok(region, oc)
                if not ok:
                    raise Untranslatable("a call with out-results inside an expression that also touches memory / fields "
                                         "(evaluation order would matter)")
                callee = self.callee_of(oc)
                if callee["ret"] is None:
                    raise Untranslatable(f"{callee['cname']} returns nothing but its value is used")
                self.nhoist += 1
                tkey = f"r__h{self.nhoist}"

                def k2(env2):
                    env3 = dict(env2)
                    v, t = env3.pop(tkey)
                    self.hoisted[oc["id"]] = E(v, t)
                    try:
                        return Fn.stmts(self, [s] + rest, env3, k)
                    finally:
                        del self.hoisted[oc["id"]]
                return self.bind_call(oc, env, k2, target=tkey, target_t=callee["ret"])
        return Fn.stmts(self, [s] + rest, env, k)

    def assigned_in(self, nodes):
        out = Fn.assigned_in(self, nodes)
        calls = [False]

        def walk(n):
            k = n.get("kind")
            if k == "CompoundAssignOperator" or (k == "BinaryOperator" and n.get("opcode") == "=") or \
                    (k == "UnaryOperator" and n.get("opcode") in ("++", "--")):
                l = n["inner"][0]
                while l.get("kind") in ("ParenExpr", "ArraySubscriptExpr") or (
                        l.get("kind") == "ImplicitCastExpr" and l.get("castKind") in ("ArrayToPointerDecay", "LValueToRValue")):
                    l = l["inner"][0]
                if l.get("kind") == "MemberExpr":
                    try:
                        lk = self.leaf_key(l)
                    except Untranslatable:
                        lk = None
                    if lk is not None:
                        out.add(lk[0])
                        if isinstance(lk[1], PF) and n["inner"][0] is not l and self.field_arrays.get(lk[0]):
                            out.add("@" + self.field_arrays[lk[0]])
            if k == "CallExpr":
                try:
                    c_ = self.callee_of(n)
                except Untranslatable:
                    c_ = None
                if isinstance(c_, dict) and c_.get("outs"):
                    calls[0] = True
            for c in n.get("inner", []):
                if isinstance(c, dict):
                    walk(c)
        for n in nodes:
            if n:
                walk(n)
        if calls[0]:
            # conservative: a callee with out-results may modify every field of every writable struct parameter
            for nm, info in self.structs3.items():
                if not info["const"]:
                    for path, t_ in info["S"].leaves():
                        out.add(("@" if isinstance(t_, AF) else "%") + nm + "." + ".".join(path))
        return out


def order_struct_fields_rec(S, unit, tj):
    order_struct_fields(S, unit, tj)
    for n_, t_ in S.fields:
        if isinstance(t_, STRUCT) and t_.order is None:
            # the nested struct's own record: found through its tag, which clang prints in the desugared field type
            order_struct_fields(t_, unit, STRUCT_TYPES.get(t_.name, {"qualType": t_.name}))
            order_struct_fields_rec(t_, unit, STRUCT_TYPES.get(t_.name, {"qualType": t_.name}))


STRUCT_TYPES = {}       # struct name -> a clang type json that denotes it (for the RecordDecl query)


def struct_deps(S, seen=None):
    """`S` and the struct types nested in it, innermost first"""
    seen = [] if seen is None else seen
    for _, t_ in S.fields:
        if isinstance(t_, STRUCT):
            struct_deps(t_, seen)
    if S not in seen:
        seen.append(S)
    return seen
# ---- END stage 3 (translator part; shims and tables: `shim3`, `lean_table3` below)


class Unit:
    """all functions of one C file"""
    registry = []      # translated functions so far (all files)

    def __init__(self, file, tmpdir):
        self.file, self.tmpdir = file, tmpdir
        self.path = os.path.join(gen.VERIF, file[1:]) if file.startswith("@") else os.path.join(REPO, file)
        if not os.path.exists(self.path):
            die(f"{file} does not exist in {REPO}")
        self.tu_text = f'#include "{self.path}"\n'
        self.tu = os.path.join(tmpdir, "tu_" + re.sub(r"\W", "_", file) + ".c")
        with open(self.tu, "w") as f:
            f.write(self.tu_text)
        self.consts = {}
        self.enum_types = {}
        self.typedefs = {}
        self.stem = re.sub(r"\W", "_", os.path.basename(file).rsplit(".", 1)[0])
        self.var_decls = {}
        self.tables = {}               # lean name -> text of an emitted constant table
        self.pending_tables = []

    def var_decl(self, name):
        """the file-scope VarDecl `name` (the declaration that carries the initialiser, if there is one)"""
        if name not in self.var_decls:
            out = run_clang(["-fsyntax-only", "-Xclang", "-ast-dump=json", "-Xclang", "-ast-dump-filter=" + name, self.tu],
                            "AST of variable " + name)
            cands = [d for d in json_docs(out) if d.get("kind") == "VarDecl" and d.get("name") == name]
            if not cands:
                die(f"no declaration of variable `{name}` found in {self.tu}")
            withinit = [d for d in cands if "init" in d]
            self.var_decls[name] = (withinit or cands)[0]
        return self.var_decls[name]

    def emit_table(self, lean, cname, A, vals):
        if lean in self.tables:
            return
        if A.elem.w == 8:
            body = ", ".join(str(v) for v in vals)
        else:
            body = ", ".join(f"{v}#{A.elem.w}" for v in vals)
        rows = []
        line = ""
        for tok in body.split(", "):
            if len(line) + len(tok) > 104:
                rows.append(line)
                line = ""
            line += tok + ", "
        rows.append(line[:-2])
        dims = "".join(f"[{d}]" for d in A.dims)
        text = (f"/-- the constant table `{cname}{dims}` of {self.file}, content read from its initialiser in the AST of the current source -/\n"
                f"def {lean} : {A.lean()} :=\n  [" + "\n   ".join(rows) + "]\n")
        self.tables[lean] = text
        self.pending_tables.append(text)

    def enum_type(self, key):
        if key not in self.enum_types:
            r = const_query(self.tu_text, self.tmpdir, [f"sizeof({key})", f"(({key})-1 < 0)"])
            self.enum_types[key] = T(8 * r[f"sizeof({key})"], bool(r[f"(({key})-1 < 0)"]))
        return self.enum_types[key]

    def typedef_type(self, fn, spelled, soft=False):
        """type of a typedef name that appears only as text (a function's return type)"""
        if self.typedefs.get(spelled) == "not an integer type":
            raise Untranslatable(f"`{spelled}` is not an integer type")
        if spelled not in self.typedefs:
            q = strip_quals(spelled)
            if soft:
                try:
                    const_query(self.tu_text, self.tmpdir, [f"sizeof({q})", f"(({q})1 / 2 == 0)"], True)
                except Untranslatable:
                    self.typedefs[spelled] = "not an integer type"
                    raise
            r = const_query(self.tu_text, self.tmpdir,
                            [f"sizeof({q})", f"(({q})-1 < 0)", f"(({q})2 == 1)", f"(({q})1 / 2 == 0)"], soft)
            if r[f"(({q})1 / 2 == 0)"] != 1:
                raise Untranslatable(f"`{q}` is not an integer type")
            if r[f"(({q})2 == 1)"]:
                self.typedefs[spelled] = BOOL
            else:
                self.typedefs[spelled] = T(8 * r[f"sizeof({q})"], bool(r[f"(({q})-1 < 0)"]))
        return self.typedefs[spelled]

    def prepare(self, asts):
        """one clang call for every enum constant and sizeof the functions of this file mention"""
        need = []

        def walk(n):
            if n.get("kind") == "DeclRefExpr" and n.get("referencedDecl", {}).get("kind") == "EnumConstantDecl":
                need.append(n["referencedDecl"]["name"])
            if n.get("kind") == "UnaryExprOrTypeTraitExpr" and n.get("name") == "sizeof":
                need.append(sizeof_key(n))
            for c in n.get("inner", []):
                if isinstance(c, dict):
                    walk(c)
        for a in asts:
            walk(a)
        need = sorted(set(need))
        r = const_query(self.tu_text, self.tmpdir, need + HOST_ASSUMPTIONS)
        for h in HOST_ASSUMPTIONS:
            if r[h] != 1:
                die(f"host assumption `{h}` does not hold for this compiler")
        self.consts = {k: r[k] for k in need}


def source_text(path, ast):
    rng = ast.get("range", {})
    b, e = rng.get("begin", {}), rng.get("end", {})
    b = b.get("expansionLoc", b)       # e.g. a return type spelled with the macro `bool`
    e = e.get("expansionLoc", e)
    if "offset" not in b or "offset" not in e:
        die(f"{ast.get('name')}: function comes out of a macro expansion; cannot locate its source text")
    data = open(path, "rb").read()
    txt = data[b["offset"]: e["offset"] + e.get("tokLen", 1)]
    if ast["name"].encode() not in txt:
        die(f"{ast.get('name')}: source range reported by clang does not contain the function name "
            f"(is it defined in another file than FUNCS says?)")
    return txt, data[:b["offset"]].count(b"\n") + 1


def c_int_type(t):
    return "bool" if t.is_bool else f"{'' if t.signed else 'u'}int{t.w}_t"


def emit_shims(fns, externals):
    """harness/gen_cfun_shim_<file>.c and harness/gen_cfun_table.h"""
    wanted = {}
    by_file = {}
    for fn in fns:
        by_file.setdefault(fn.cfg["file"], []).append(fn)
    for file, group in by_file.items():
        stem = re.sub(r"\W", "_", file[4:] if file.startswith("src/") else file.lstrip("@"))
        L = ["/* GENERATED by translate/gen_cfun.py on every check run. Do not edit.",
             f" * Exposes (static) functions of {file} to harness/ops_cfun.c: the file itself is included, its external",
             " * symbols renamed so that this copy does not clash with the library proper. */"]
        for sym in externals.get(file, []):
            L.append(f"#define {sym} cfunshim_{stem}__{sym}")
        L += ["#include <stdint.h>", "#include <stddef.h>", "#include <stdbool.h>", "#include <string.h>",
              f'#include "{file[4:] if file.startswith("src/") else os.path.basename(file)}"', ""]
        L += ["#ifndef VERIF_CFUN_VAL", "#define VERIF_CFUN_VAL",
              "typedef struct { uint64_t n; void* p; size_t len; } cfun_val;", "#endif", ""]
        for fn in [g_ for g_ in group if g_.cfg["stage"] == 2]:
            L += shim2(fn)
        for fn in [g_ for g_ in group if g_.cfg["stage"] == 3]:
            L += shim3(fn)
        for fn in [g_ for g_ in group if g_.cfg["stage"] == 1]:
            L.append(f"uint64_t cfunx_{fn.name}(const uint64_t* a) {{")
            args, idx = [], 0
            slot = {}
            for (pname, pt, origin) in fn.lean_params:
                slot[pname] = idx
                idx += 1
            for i, p in enumerate(fn.cparams):
                if p["struct"] is None:
                    j = slot[ident(p["name"])]
                    if p["t"].is_bool:
                        args.append(f"(a[{j}] != 0)")
                    else:
                        args.append(f"({p['ctype']})({c_int_type(p['t'])})a[{j}]")
                else:
                    L.append(f"    static {p['struct']} s{i}; memset(&s{i}, 0, sizeof s{i});")
                    for (pname, pt, origin) in fn.lean_params:
                        if origin[0] == "path" and origin[1] == i:
                            rhs = f"(a[{slot[pname]}] != 0)" if pt.is_bool else f"({c_int_type(pt)})a[{slot[pname]}]"
                            L.append(f"    s{i}.{'.'.join(origin[2])} = {rhs};")
                    args.append(f"&s{i}")
            call = f"{fn.cfg['cname']}({', '.join(args)})"
            if fn.ret.is_bool:
                L.append(f"    return {call} ? 1u : 0u;")
            else:
                L.append(f"    return (uint64_t)(uint{fn.ret.w}_t){call};")
            L.append("}")
        wanted[os.path.join(GENH, f"gen_cfun_shim_{stem}.c")] = "\n".join(L) + "\n"
    fns1 = [fn for fn in fns if fn.cfg["stage"] == 1]
    fns2 = [fn for fn in fns if fn.cfg["stage"] == 2]
    T_ = ["/* GENERATED by translate/gen_cfun.py on every check run. Do not edit. */",
          "#ifndef VERIF_GEN_CFUN_TABLE_H", "#define VERIF_GEN_CFUN_TABLE_H", "#include <stdint.h>", "#include <stddef.h>",
          "typedef struct { const char* name; int nargs; uint64_t (*call)(const uint64_t*); } cfun_entry;"]
    for fn in fns1:
        T_.append(f"uint64_t cfunx_{fn.name}(const uint64_t* a);")
    T_.append("static const cfun_entry cfun_table[] = {")
    for fn in fns1:
        T_.append(f'    {{"{fn.name}", {len(fn.lean_params)}, cfunx_{fn.name}}},')
    T_ += ["};", f"#define CFUN_TABLE_N {len(fns1)}",
           "/* stage 2: arguments / results are integers (kind 0) or arrays (kind = element size in bytes); `fixed` = required",
           " * length of an array argument (0: any) */",
           "#ifndef VERIF_CFUN_VAL", "#define VERIF_CFUN_VAL",
           "typedef struct { uint64_t n; void* p; size_t len; } cfun_val;", "#endif",
           "typedef struct { const char* name; int nargs; int nouts; int akind[24]; size_t fixed[24]; int okind[24];",
           "                 void (*call)(cfun_val*, cfun_val*); } cfun2_entry;"]
    for fn in fns2:
        T_.append(f"void cfunx2_{fn.name}(cfun_val* a, cfun_val* o);")
    T_.append("static const cfun2_entry cfun2_table[] = {")
    for fn in fns2:
        ak = [(t.elem.w // 8 if isinstance(t, ARR) else 0) for _, t, _ in fn.lean_params]
        fx = [(t.total() if isinstance(t, ARR) and t.dims is not None else 0) for _, t, _ in fn.lean_params]
        comps = ([fn.ret] if fn.ret is not None else []) + [o["t"] for o in fn.out_desc]
        ok = [(t.elem.w // 8 if isinstance(t, ARR) else 0) for t in comps]
        if len(ak) > 24 or len(ok) > 24:
            die(f"{fn.name}: more than 24 arguments / results")
        T_.append(f'    {{"{fn.name}", {len(ak)}, {len(ok)}, {{{", ".join(map(str, ak)) or "0"}}}, '
                  f'{{{", ".join(map(str, fx)) or "0"}}}, {{{", ".join(map(str, ok)) or "0"}}}, cfunx2_{fn.name}}},')
    if not fns2:
        T_.append('    {"", 0, 0, {0}, {0}, {0}, 0},')
    T_ += ["};", f"#define CFUN2_TABLE_N {len(fns2)}"]
    T_ += table3_c([fn for fn in fns if fn.cfg["stage"] == 3])
    T_ += ["#endif"]
    wanted[os.path.join(GENH, "gen_cfun_table.h")] = "\n".join(T_) + "\n"
    os.makedirs(GENH, exist_ok=True)
    for old in os.listdir(GENH):
        p = os.path.join(GENH, old)
        if old.startswith("gen_cfun_") and p not in wanted:
            os.remove(p)
    for p, text in wanted.items():
        if not os.path.exists(p) or open(p).read() != text:
            with open(p, "w") as f:
                f.write(text)


def shim2(fn):
    """C wrapper of a stage-2 function: `void cfunx2_<name>(cfun_val* a, cfun_val* o)`; a[i] = the i-th Lean parameter"""
    L = [f"void cfunx2_{fn.name}(cfun_val* a, cfun_val* o) {{"]
    slot = {pn: i for i, (pn, _, _) in enumerate(fn.lean_params)}
    args, post = [], {}
    for (pn, pt, origin) in fn.lean_params:
        if origin[0] == "gcell":
            L.append(f"    {origin[1]} = ({c_int_type(pt)})a[{slot[pn]}].n;")
        elif origin[0] == "garray":
            L.append(f"    memcpy({origin[1]}, a[{slot[pn]}].p, sizeof {origin[1]});")
    for i, p in enumerate(fn.cparams):
        if p["kind"] == "scalar":
            j = slot[ident(p["name"])]
            args.append(f"(a[{j}].n != 0)" if p["t"].is_bool else f"({p['ctype']})({c_int_type(p['t'])})a[{j}].n")
        elif p["kind"] == "array":
            args.append(f"({p['ctype']})a[{slot[ident(p['name'])]}].p")
        elif p["kind"] == "end":
            args.append(f"({p['ctype']})(({c_int_type(p['t'].elem)}*)a[{slot[ident(p['base'])]}].p + a[{slot[ident(p['name'])]}].n)")
        elif p["kind"] == "cell":
            j = slot[ident(p["name"])]
            L.append(f"    {c_int_type(p['elem'])} c{i} = ({c_int_type(p['elem'])})a[{j}].n;")
            args.append(f"({p['ctype']})&c{i}")
            post[("cell", i)] = f"c{i}"
        else:
            L.append(f"    static {p['struct']} s{i}; memset(&s{i}, 0, sizeof s{i});")
            for (pname, pt, origin) in fn.lean_params:
                if origin[0] == "path" and origin[1] == i:
                    rhs = f"(a[{slot[pname]}].n != 0)" if pt.is_bool else f"({c_int_type(pt)})a[{slot[pname]}].n"
                    L.append(f"    s{i}.{'.'.join(origin[2])} = {rhs};")
            args.append(f"&s{i}")
    call = f"{fn.cfg['cname']}({', '.join(args)})"
    k = 0
    if fn.ret is None:
        L.append(f"    {call};")
    else:
        if isinstance(fn.ret, PTR):                          # cfunb: pointer result = offset into the array of parameter `ret=`
            bt = c_int_type(fn.ret.elem)
            L.append(f"    o[0].n = (uint64_t)((const {bt}*){call} - (const {bt}*)a[{slot[ident(fn.ret.base)]}].p);")
        else:
            L.append(f"    o[0].n = " + (f"{call} ? 1u : 0u;" if fn.ret.is_bool else f"(uint64_t)(uint{fn.ret.w}_t){call};"))
        k = 1
    for o in fn.out_desc:
        kind = o["origin"][0]
        if kind == "cell":
            L.append(f"    o[{k}].n = (uint64_t)(uint{o['t'].w}_t){post[o['origin']]};")
        elif kind == "array":
            j = slot[ident(fn.cparams[o['origin'][1]]['name'])]
            L.append(f"    o[{k}].p = a[{j}].p; o[{k}].len = a[{j}].len;")
        elif kind == "gcell":
            L.append(f"    o[{k}].n = (uint64_t)(uint{o['t'].w}_t){o['origin'][1]};")
        else:
            L.append(f"    o[{k}].p = (void*){o['origin'][1]}; o[{k}].len = {o['t'].total()};")
        k += 1
    L.append("}")
    return L


def external_symbols(path, tmpdir):
    """external definitions of a .c file (they must be renamed in the shim copy)"""
    o = os.path.join(tmpdir, "ext.o")
    r = subprocess.run([CLANG] + CFLAGS + ["-DCARQUET_VERIF", "-w", "-c", path, "-o", o], stdout=subprocess.PIPE,
                       stderr=subprocess.PIPE, text=True)
    if r.returncode != 0:
        die(f"clang -c {path} failed:\n{r.stderr[-1500:]}")
    nm = subprocess.run(["nm", "-g", "--defined-only", o], stdout=subprocess.PIPE, text=True)
    if nm.returncode != 0:
        die("nm failed")
    return sorted({l.split()[-1] for l in nm.stdout.split("\n") if l.strip()})


def lean_table(fns):
    L = ["", "/-! ### table for the driver (translator self-check, `lean/Driver/Ops/CFun.lean`) -/", "",
         "/-- one translated function: argument kinds `(width, signed)` (`width = 0`: `_Bool`), result kind, and the",
         "evaluation of value and definedness on bit patterns -/",
         "structure Entry where",
         "  name : String",
         "  cname : String",
         "  file : String",
         "  args : List (String × Nat × Bool)",
         "  ret : Nat × Bool",
         "  eval : List Nat → Option (Nat × Bool)",
         "", "def table : List Entry := ["]
    rows = []
    for fn in fns:
        names = [f"a{i}" for i in range(len(fn.lean_params))]
        conv = []
        for nme, (pn, pt, _) in zip(names, fn.lean_params):
            conv.append(f"(decide ({nme} ≠ 0))" if pt.is_bool else f"(BitVec.ofNat {pt.w} {nme})")
        app = " ".join(conv)
        val = f"(if {fn.name} {app} then 1 else 0)" if fn.ret.is_bool else f"({fn.name} {app}).toNat"
        args = ", ".join(f'("{pn}", {0 if pt.is_bool else pt.w}, {"true" if pt.signed else "false"})'
                         for pn, pt, _ in fn.lean_params)
        rows.append(
            f'  {{ name := "{fn.name}", cname := "{fn.cfg["cname"]}", file := "{fn.cfg["file"]}",\n'
            f'    args := [{args}],\n'
            f'    ret := ({0 if fn.ret.is_bool else fn.ret.w}, {"true" if fn.ret.signed else "false"}),\n'
            f'    eval := fun a => match a with\n'
            f'      | [{", ".join(names)}] =>\n'
            f'        -- the value is only evaluated where it means something (a wild shift count would build a huge number)\n'
            f'        if {fn.name}_defined {app} then some ({val}, true) else some (0, false)\n'
            f'      | _ => none }}')
    L.append(",\n".join(rows) + " ]")
    return "\n".join(L) + "\n"


def kind_of(t):
    if isinstance(t, ARR):
        return f"(.arr {t.elem.w})"
    if isinstance(t, PTR):
        return f'(.off "{ident(t.base)}")'
    return f"(.int {0 if t.is_bool else t.w} {'true' if t.signed else 'false'})"


def lean_table2(fns):
    """stage 2: arguments and results are `Val`s (integers or arrays)"""
    L = ["", "/-! ### table of the stage-2 functions (arrays, out-parameters) for the driver -/", "",
         "open Carquet.Impl.CSem (Val Kind) in",
         "/-- a translated function whose arguments / results include arrays: Lean parameters in order, result components",
         "in order (the returned value first, if any), arrays of a fixed length, and the evaluation on `Val`s -/",
         "structure Entry2 where",
         "  name : String",
         "  cname : String",
         "  file : String",
         "  args : List (String × Kind)",
         "  outs : List (String × Kind)",
         "  fixed : List (String × Nat)",
         "  eval : List Val → Option (List Val × Bool)",
         "", "open Carquet.Impl.CSem (Val Kind) in", "def table2 : List Entry2 := ["]
    rows = []
    for fn in fns:
        pats, conv = [], []
        for i, (pn, pt, _) in enumerate(fn.lean_params):
            if isinstance(pt, ARR):
                pats.append(f".a a{i}")
                conv.append(f"(a{i}.map UInt8.ofNat)" if pt.elem.w == 8 else f"(a{i}.map (BitVec.ofNat {pt.elem.w}))")
            elif isinstance(pt, PTR):
                pats.append(f".n a{i}")
                conv.append(f"a{i}")
            else:
                pats.append(f".n a{i}")
                conv.append(f"(decide (a{i} ≠ 0))" if pt.is_bool else f"(BitVec.ofNat {pt.w} a{i})")
        app = " ".join(conv)
        comps = ([("return", fn.ret)] if fn.ret is not None else []) + [(o["name"], o["t"]) for o in fn.out_desc]
        outs = []
        for i, (cn, ct) in enumerate(comps):
            proj = "r" if len(comps) == 1 else "r" + ".2" * i + (".1" if i < len(comps) - 1 else "")
            if isinstance(ct, ARR):
                outs.append(f".a ({proj}.map (·.toNat))")
            elif isinstance(ct, PTR):                        # cfunb: pointer result (an offset)
                outs.append(f".n {proj}")
            elif ct.is_bool:
                outs.append(f".n (if {proj} then 1 else 0)")
            else:
                outs.append(f".n {proj}.toNat")
        args = ", ".join(f'("{pn}", {kind_of(pt)})' for pn, pt, _ in fn.lean_params)
        outk = ", ".join(f'("{cn}", {kind_of(ct)})' for cn, ct in comps)
        fixed = ", ".join(f'("{ident(g)}", {fn.arrays[g].total()})' for g in sorted(fn.arrays) if fn.arrays[g].kind == "global")
        call = f"{fn.name} {app}" if app else fn.name
        calld = f"{fn.name}_defined {app}" if app else f"{fn.name}_defined"
        rows.append(
            f'  {{ name := "{fn.name}", cname := "{fn.cfg["cname"]}", file := "{fn.cfg["file"]}",\n'
            f'    args := [{args}],\n'
            f'    outs := [{outk}],\n'
            f'    fixed := [{fixed}],\n'
            f'    eval := fun a => match a with\n'
            f'      | [{", ".join(pats)}] =>\n'
            f'        if {calld} then\n'
            f'          let r := {call}\n'
            f'          some ([{", ".join(outs)}], true)\n'
            f'        else some ([], false)\n'
            f'      | _ => none }}')
    L.append(",\n".join(rows) + " ]")
    return "\n".join(L) + "\n"


# ---- BEGIN stage 3 (cfun3): C shims and the third table
def c_ptr_type(pf):
    return ("const " if pf.const else "") + c_int_type(pf.elem) + "*"


def shim3(fn):
    """C wrapper of a stage-3 function: `void cfunx3_<name>(cfun_val* a, cfun_val* o)`.  A struct argument arrives as the
    array of its leaf values (uint64_t each, in `STRUCT.leaves()` order; array fields element by element); a pointer
    leaf is the offset into the array argument it points into (or, when the function never dereferences it, the raw
    pointer value, which must come back unchanged).  After the call every leaf of a non-const struct is written back."""
    L = [f"void cfunx3_{fn.name}(cfun_val* a, cfun_val* o) {{"]
    slot = {pn: i for i, (pn, _, _) in enumerate(fn.lean_params)}
    args, post = [], {}
    for (pn, pt, origin) in fn.lean_params:
        if origin[0] == "gcell":
            L.append(f"    {origin[1]} = ({c_int_type(pt)})a[{slot[pn]}].n;")
        elif origin[0] == "garray":
            L.append(f"    memcpy({origin[1]}, a[{slot[pn]}].p, sizeof {origin[1]});")

    def base_slot(p, path):
        if path in p["fieldbase"]:
            return slot[ident(fn.cparams[p["fieldbase"][path]]["name"])]
        for fa in p["farrays"]:
            if fa["path"] == path:
                return slot[ident(fa["name"])]
        return None
    for i, p in enumerate(fn.cparams):
        if p["kind"] == "scalar":
            j = slot[ident(p["name"])]
            args.append(f"(a[{j}].n != 0)" if p["t"].is_bool else f"({p['ctype']})({c_int_type(p['t'])})a[{j}].n")
        elif p["kind"] == "array":
            args.append(f"({p['ctype']})a[{slot[ident(p['name'])]}].p")
        elif p["kind"] == "end":
            args.append(f"({p['ctype']})(({c_int_type(p['t'].elem)}*)a[{slot[ident(p['base'])]}].p + a[{slot[ident(p['name'])]}].n)")
        elif p["kind"] == "cell":
            j = slot[ident(p["name"])]
            L.append(f"    {c_int_type(p['elem'])} c{i} = ({c_int_type(p['elem'])})a[{j}].n;")
            args.append(f"({p['ctype']})&c{i}")
            post[("cell", i)] = f"c{i}"
        elif p["kind"] == "dropped":
            args.append(f'({p["ctype"]})"cfun3"')
        elif p["kind"] == "struct3":
            j = slot[ident(p["name"])]
            L.append(f"    static {p['cstruct']} s{i}; memset(&s{i}, 0, sizeof s{i});")
            L.append(f"    const uint64_t* l{i} = (const uint64_t*)a[{j}].p;")
            k = 0
            for path, t_ in p["S"].leaves():
                cp_ = ".".join(path)
                if isinstance(t_, AF):
                    ce = c_int_type(t_.elem)
                    L.append(f"    for (int m = 0; m < {t_.total()}; m++) (({ce}*)s{i}.{cp_})[m] = ({ce})l{i}[{k} + m];")
                    k += t_.total()
                    continue
                if isinstance(t_, PF):
                    b = base_slot(p, path)
                    if path in p["fieldbase"]:
                        pass                                 # assigned by the function itself; the incoming value is not used
                    elif b is not None:
                        L.append(f"    s{i}.{cp_} = ({c_ptr_type(t_)})(({c_int_type(t_.elem)}*)a[{b}].p + l{i}[{k}]);")
                    else:
                        L.append(f"    s{i}.{cp_} = ({c_ptr_type(t_)})(uintptr_t)l{i}[{k}];")
                elif t_.is_bool:
                    L.append(f"    s{i}.{cp_} = (l{i}[{k}] != 0);")
                else:
                    L.append(f"    s{i}.{cp_} = ({c_int_type(t_)})l{i}[{k}];")
                k += 1
            args.append(f"({p['ctype']})&s{i}")
        else:
            die(f"{fn.name}: a read-only struct access path in a stage-3 function")
    call = f"{fn.cfg['cname']}({', '.join(args)})"
    k = 0
    if fn.ret is None:
        L.append(f"    {call};")
    else:
        L.append(f"    o[0].n = " + (f"{call} ? 1u : 0u;" if fn.ret.is_bool else f"(uint64_t)(uint{fn.ret.w}_t){call};"))
        k = 1
    for o in fn.out_desc:
        kind = o["origin"][0]
        if kind == "cell":
            L.append(f"    o[{k}].n = (uint64_t)(uint{o['t'].w}_t){post[o['origin']]};")
        elif kind == "array":
            j = slot[ident(fn.cparams[o['origin'][1]]['name'])]
            L.append(f"    o[{k}].p = a[{j}].p; o[{k}].len = a[{j}].len;")
        elif kind == "farray":
            j = slot[ident(o["name"])]
            L.append(f"    o[{k}].p = a[{j}].p; o[{k}].len = a[{j}].len;")
        elif kind == "struct3":
            i = o["origin"][1]
            p = fn.cparams[i]
            n = p["S"].nleaves()
            L.append(f"    static uint64_t q{i}[{n}];")
            m = 0
            for path, t_ in p["S"].leaves():
                cp_ = ".".join(path)
                if isinstance(t_, AF):
                    ce = c_int_type(t_.elem)
                    L.append(f"    for (int m = 0; m < {t_.total()}; m++) q{i}[{m} + m] = (uint64_t)(uint{t_.elem.w}_t)(({ce}*)s{i}.{cp_})[m];")
                    m += t_.total()
                    continue
                if isinstance(t_, PF):
                    b = base_slot(p, path)
                    if b is not None:
                        ce = c_int_type(t_.elem)
                        L.append(f"    q{i}[{m}] = (uint64_t)((const {ce}*)s{i}.{cp_} - (const {ce}*)a[{b}].p);")
                    else:
                        L.append(f"    q{i}[{m}] = (uint64_t)(uintptr_t)s{i}.{cp_};")
                elif t_.is_bool:
                    L.append(f"    q{i}[{m}] = s{i}.{cp_} ? 1u : 0u;")
                else:
                    L.append(f"    q{i}[{m}] = (uint64_t)(uint{t_.w}_t)s{i}.{cp_};")
                m += 1
            L.append(f"    o[{k}].p = q{i}; o[{k}].len = {n};")
        elif kind == "gcell":
            L.append(f"    o[{k}].n = (uint64_t)(uint{o['t'].w}_t){o['origin'][1]};")
        else:
            L.append(f"    o[{k}].p = (void*){o['origin'][1]}; o[{k}].len = {o['t'].total()};")
        k += 1
    L.append("}")
    return L


def kind3_c(t):
    """element size in bytes of an argument / result on the C side (0: integer; struct: its leaves as uint64_t)"""
    if isinstance(t, STRUCT):
        return 8
    return t.elem.w // 8 if isinstance(t, ARR) else 0


def table3_c(fns3):
    T_ = ["/* stage 3: as stage 2; a struct argument / result is the array of its leaf values (kind 8, fixed length) */"]
    for fn in fns3:
        T_.append(f"void cfunx3_{fn.name}(cfun_val* a, cfun_val* o);")
    T_.append("static const cfun2_entry cfun3_table[] = {")
    for fn in fns3:
        ak = [kind3_c(t) for _, t, _ in fn.lean_params]
        fx = [(t.nleaves() if isinstance(t, STRUCT) else (t.total() if isinstance(t, ARR) and t.dims is not None else 0))
              for _, t, _ in fn.lean_params]
        comps = ([fn.ret] if fn.ret is not None else []) + [o["t"] for o in fn.out_desc]
        ok = [kind3_c(t) for t in comps]
        if len(ak) > 24 or len(ok) > 24:
            die(f"{fn.name}: more than 24 arguments / results")
        T_.append(f'    {{"{fn.name}", {len(ak)}, {len(ok)}, {{{", ".join(map(str, ak)) or "0"}}}, '
                  f'{{{", ".join(map(str, fx)) or "0"}}}, {{{", ".join(map(str, ok)) or "0"}}}, cfunx3_{fn.name}}},')
    if not fns3:
        T_.append('    {"", 0, 0, {0}, {0}, {0}, 0},')
    T_ += ["};", f"#define CFUN3_TABLE_N {len(fns3)}"]
    return T_


def leaf_layout(fn, p):
    """[(dotted leaf path, Lean `Kind`, count)] of struct parameter `p` of `fn`: how the driver generates / reads leaves"""
    out = []
    for path, t_ in p["S"].leaves():
        nm = ".".join(path)
        if isinstance(t_, AF):
            out.append((nm, f"(.arr {t_.elem.w})", t_.total()))
        elif isinstance(t_, PF):
            base = ""
            if path in p["fieldbase"]:
                base = ident(fn.cparams[p["fieldbase"][path]]["name"])
            for fa in p["farrays"]:
                if fa["path"] == path:
                    base = ident(fa["name"])
            out.append((nm, f'(.off "{base}")', 1))
        else:
            out.append((nm, kind_of(t_), 1))
    return out


def lean_table3(fns):
    """stage 3: as table2; a struct argument / result is the `Val.a` of its leaves"""
    L = ["", "/-! ### table of the stage-3 functions (struct state) for the driver -/", "",
         "open Carquet.Impl.CSem (Val Kind) in",
         "/-- a translated function with struct arguments: as `Entry2`; a struct travels as the list of its leaf values, `layout`",
         "names the leaves of each struct argument `(dotted path, kind, number of values)`; a pointer leaf `.off base` is an offset",
         "into the array argument `base` (`\"\"`: a raw pointer value the function must leave alone), `struct` its C type -/",
         "structure Entry3 where",
         "  name : String",
         "  cname : String",
         "  file : String",
         "  args : List (String × Kind)",
         "  outs : List (String × Kind)",
         "  fixed : List (String × Nat)",
         "  layout : List (String × String × List (String × Kind × Nat))",
         "  eval : List Val → Option (List Val × Bool)",
         "", "open Carquet.Impl.CSem (Val Kind) in", "def table3 : List Entry3 := ["]
    rows = []
    for fn in fns:
        pats, conv = [], []
        for i, (pn, pt, _) in enumerate(fn.lean_params):
            if isinstance(pt, STRUCT):
                pats.append(f".a a{i}")
                conv.append(f"({pt.name}.ofLeaves a{i})")
            elif isinstance(pt, ARR):
                pats.append(f".a a{i}")
                conv.append(f"(a{i}.map UInt8.ofNat)" if pt.elem.w == 8 else f"(a{i}.map (BitVec.ofNat {pt.elem.w}))")
            elif isinstance(pt, PTR):
                pats.append(f".n a{i}")
                conv.append(f"a{i}")
            else:
                pats.append(f".n a{i}")
                conv.append(f"(decide (a{i} ≠ 0))" if pt.is_bool else f"(BitVec.ofNat {pt.w} a{i})")
        app = " ".join(conv)
        comps = ([("return", fn.ret)] if fn.ret is not None else []) + [(o["name"], o["t"]) for o in fn.out_desc]
        outs = []
        for i, (cn, ct) in enumerate(comps):
            proj = "r" if len(comps) == 1 else "r" + ".2" * i + (".1" if i < len(comps) - 1 else "")
            if isinstance(ct, STRUCT):
                outs.append(f".a {proj}.toLeaves")
            elif isinstance(ct, ARR):
                outs.append(f".a ({proj}.map (·.toNat))")
            elif ct.is_bool:
                outs.append(f".n (if {proj} then 1 else 0)")
            else:
                outs.append(f".n {proj}.toNat")

        def kk(t):
            return "(.arr 64)" if isinstance(t, STRUCT) else kind_of(t)
        args = ", ".join(f'("{pn}", {kk(pt)})' for pn, pt, _ in fn.lean_params)
        outk = ", ".join(f'("{cn}", {kk(ct)})' for cn, ct in comps)
        fixed = [f'("{ident(g)}", {fn.arrays[g].total()})' for g in sorted(fn.arrays) if fn.arrays[g].kind == "global"]
        fixed += [f'("{pn}", {pt.nleaves()})' for pn, pt, _ in fn.lean_params if isinstance(pt, STRUCT)]
        fixed += [f'("{pn}", {pt.total()})' for pn, pt, og in fn.lean_params if og[0] == "ghost"]
        lay = []
        for p in fn.cparams:
            if p["kind"] == "struct3":
                leaves = ", ".join(f'("{a_}", {b_}, {c_})' for a_, b_, c_ in leaf_layout(fn, p))
                lay.append(f'("{ident(p["name"])}", "{p["S"].name}", [{leaves}])')
        call = f"{fn.name} {app}" if app else fn.name
        calld = f"{fn.name}_defined {app}" if app else f"{fn.name}_defined"
        rows.append(
            f'  {{ name := "{fn.name}", cname := "{fn.cfg["cname"]}", file := "{fn.cfg["file"]}",\n'
            f'    args := [{args}],\n'
            f'    outs := [{outk}],\n'
            f'    fixed := [{", ".join(fixed)}],\n'
            f'    layout := [{", ".join(lay)}],\n'
            f'    eval := fun a => match a with\n'
            f'      | [{", ".join(pats)}] =>\n'
            f'        if {calld} then\n'
            f'          let r := {call}\n'
            f'          some ([{", ".join(outs)}], true)\n'
            f'        else some ([], false)\n'
            f'      | _ => none }}')
    L.append(",\n".join(rows) + " ]")
    return "\n".join(L) + "\n"
# ---- END stage 3 (shims and table)



def main():
    fns = []
    externals = {}
    dev = os.environ.get("CFUN_DEV")
    if os.environ.get("CFUN_STAGES") == "12":
        FUNCS[:] = [c for c in FUNCS if c["stage"] != 3]
    if dev:
        keep = set(dev.split(","))
        FUNCS[:] = [c for c in FUNCS if c["lean"] in keep]
    with tempfile.TemporaryDirectory(prefix="cfun") as tmp:
        files = []
        for cfg in FUNCS:
            if cfg["file"] not in files:
                files.append(cfg["file"])
        # callees first: keep FUNCS order inside a file, files in order of first mention; a call to a function of a
        # later file is reported as "not yet translated"
        done = {}
        units = {f: Unit(f, tmp) for f in files}
        asts = {}
        for cfg in FUNCS:
            asts[cfg["lean"]] = ast_of(units[cfg["file"]].tu, cfg["cname"])
        for f in files:
            units[f].prepare([asts[c["lean"]] for c in FUNCS if c["file"] == f])
            if f.endswith(".c") and not f.startswith("@"):
                externals[f] = external_symbols(units[f].path, tmp)
        if any(c["stage"] == 3 for c in FUNCS):               # stage 3: which fields of which structs are touched
            discover_structs(FUNCS, asts, units)
        for cfg in FUNCS:
            u = units[cfg["file"]]
            a = asts[cfg["lean"]]
            fn = (Fn3 if cfg["stage"] == 3 else Fn)(cfg, a, u)
            txt, line = source_text(u.path, a)
            fn.sha, fn.line = hashlib.sha256(txt).hexdigest()[:16], line
            try:
                fn.text = fn.translate()
            except Untranslatable as e:
                if os.environ.get("CFUN_KEEP_GOING"):
                    sys.stderr.write(f"cannot translate `{cfg['cname']}` ({cfg['file']}:{line}): {e}\n")
                    continue
                die(f"cannot translate `{cfg['cname']}` ({cfg['file']}:{line}): {e}")
            except (KeyError, IndexError, TypeError) as e:
                die(f"cannot translate `{cfg['cname']}` ({cfg['file']}:{line}): unexpected AST shape ({e!r})")
            Unit.registry.append(dict(lean=fn.name, cname=cfg["cname"], file=cfg["file"], ret=fn.ret,
                                      cparams=fn.cparams, lean_params=fn.lean_params, outs=fn.out_desc,
                                      static=a.get("storageClass") == "static"))
            fn.static = a.get("storageClass") == "static"
            fns.append(fn)
    if dev:
        for fn in fns:
            print(fn.text)
        return
    L = ["import Carquet.Impl.CSem",
         "/-",
         "Lean definitions of pure scalar C functions of /repo, translated from clang-14's typed AST of the CURRENT source by",
         "translate/gen_cfun.py.  Integer values are `BitVec w` (two's-complement object representation), `_Bool` is `Bool`;",
         "`f_defined` is false exactly when executing `f` would reach undefined behaviour (see Carquet/Impl/CSem.lean).",
         "A pointer-to-struct parameter `p` is replaced by one scalar parameter per field path read through it (`p_a_b`).",
         "Helper definitions: `f_vN` (a local's value, kept out of line to avoid duplication) and `f_loopN` (a loop and what",
         "follows it, recursion on a fuel argument).",
         "-/",
         "set_option linter.unusedVariables false",
         "namespace Carquet.Gen.CFun", ""]
    for fn in fns:
        if fn.cfg["stage"] == 3:                               # the structures a stage-3 function uses, before its first use
            for p_ in fn.cparams:
                if p_.get("kind") == "struct3":
                    for S_ in struct_deps(p_["S"]):
                        if not S_.emitted:
                            S_.emitted = True
                            L.append(lean_struct_decl(S_))
        L.append(fn.text)
    L.append(lean_table([fn for fn in fns if fn.cfg["stage"] == 1]))
    L.append(lean_table2([fn for fn in fns if fn.cfg["stage"] == 2]))
    if any(fn.cfg["stage"] == 3 for fn in fns):
        L.append(lean_table3([fn for fn in fns if fn.cfg["stage"] == 3]))
    L += ["end Carquet.Gen.CFun", ""]
    gen.emit("CFun.lean", "\n".join(L))
    emit_shims(fns, externals)


if __name__ == "__main__":
    main()
